(* C12 — Indexing follows NumPy semantics for every supported index (basic indices:
   integers, slices of any sign, None, Ellipsis; and — second half of this file — ONE axis
   indexed with a one-dimensional integer list / ndarray, x[:, [3, 0, 3]] / da.take, the
   Shuffle path; the other fancy paths are checked by value in harness/c12.py).
   Statements only: every theorem is closed by `exact <lemma proved in theories/>`.

   Vocabulary (coq/theories/Indexing.v, spec side):
     sel s n            positions NumPy's x[s] selects on an axis of length n (PyBase.v)
     np_expand r idx    NumPy's expansion of a basic index on rank r (Ellipsis -> full slices,
                        missing trailing axes -> full slices)
     np_meaning idx sh  per entry of an Ellipsis-free index: ADrop p (integer: position p, axis
                        dropped) | AKeep ps (slice: positions ps) | ANew (None: new length-1 axis)
     out_shape m        shape of the result
     segment ps lens j  the j-th run of ps when cut into consecutive runs of lengths lens
     kept_view vs v idx walk idx: slices take the next of vs, None contributes v, ints nothing
   Model side: replace_ellipsis, pad_index, normalize_index, strip_nones/where_none
   (slice_with_newaxes), ssi_chunks/ssi_layer (SliceSlicesIntegers.chunks/_layer),
   insert_axes/getitem_chunks (ExpandDims), getitem_basic (Array.__getitem__). *)
From DA Require Import PyBase Slicing Slice1dFacts Indexing IndexingFacts IndexingBlocks.
From Coq Require Import Permutation.
From DA Require Import Transfer2 TakeModel TakeModelFacts.
Open Scope Z_scope.

(* ---------------------------------------------------------------------- *)
(* Ellipsis / padding *)

(* replace_ellipsis + the padding with full slices is NumPy's expansion: the single
   Ellipsis stands for exactly the axes not consumed by the other entries *)
Theorem C12_ellipsis_expansion :
  forall rank idx, countZ is_ellipsis idx <= 1 -> consumed idx <= rank ->
  pad_index rank (replace_ellipsis rank idx) = np_expand rank idx.
Proof. exact expand_is_np_expand. Qed.

Theorem C12_ellipsis_expansion_shape :
  forall rank idx, countZ is_ellipsis idx <= 1 -> consumed idx <= rank ->
  existsb is_ellipsis (np_expand rank idx) = false /\
  consumed (np_expand rank idx) = rank /\
  countZ is_none (np_expand rank idx) = countZ is_none idx.
Proof. exact np_expand_shape. Qed.

(* ---------------------------------------------------------------------- *)
(* which indices are accepted, and what the normalized index means *)

(* accepted  <->  at most one Ellipsis, not more entries than axes, and (after expansion)
   every integer inside [-n, n) and every step non-zero *)
Theorem C12_normalize_index_accepts_iff :
  forall idx shape,
  (exists idx', normalize_index idx shape = NOk idx') <->
  (countZ is_ellipsis idx <= 1 /\ consumed idx <= lenZ shape /\
   np_valid (np_expand (lenZ shape) idx) shape).
Proof. exact normalize_index_accepts_iff. Qed.

(* the normalized index selects, entry by entry, what NumPy selects for the original
   index (integers: the NumPy position; slices: the same positions in the same order;
   None entries stay where they are) ... *)
Theorem C12_normalize_index_sel :
  forall idx shape idx', Forall (fun n => 0 <= n) shape ->
  normalize_index idx shape = NOk idx' ->
  np_meaning idx' shape = np_meaning (np_expand (lenZ shape) idx) shape.
Proof. exact normalize_index_meaning. Qed.

(* ... and is in normal form: integers in [0, n), slices `normalized` (the hypothesis of
   C13_slice1d_partition), no Ellipsis, one entry per axis *)
Theorem C12_normalize_index_normalized :
  forall idx shape idx', Forall (fun n => 0 <= n) shape ->
  normalize_index idx shape = NOk idx' -> index_normalized idx' shape.
Proof. exact normalize_index_normalized. Qed.

(* ---------------------------------------------------------------------- *)
(* errors: raised, never wrapped *)

Theorem C12_out_of_bounds_raises :
  forall idx shape, countZ is_ellipsis idx <= 1 -> consumed idx <= lenZ shape ->
  ~ ints_in_bounds (np_expand (lenZ shape) idx) shape ->
  normalize_index idx shape = NIndexError.
Proof. exact out_of_bounds_raises. Qed.

Theorem C12_out_of_bounds_int_1d :
  forall n i, ~ (- n <= i < n) -> normalize_index [EInt i] [n] = NIndexError.
Proof. exact out_of_bounds_int_1d. Qed.

Theorem C12_too_many_indices_raise :
  forall idx shape, lenZ shape < consumed idx -> normalize_index idx shape = NIndexError.
Proof. exact too_many_indices_raise. Qed.

(* two Ellipsis are never accepted (NumPy: IndexError; the implementation: IndexError or a
   TypeError from `Ellipsis >= int` -- see C12_ex_two_ellipsis_TypeError) *)
Theorem C12_multiple_ellipsis_raise :
  forall idx shape, 2 <= countZ is_ellipsis idx -> forall idx', normalize_index idx shape <> NOk idx'.
Proof. exact multiple_ellipsis_raise. Qed.

(* ---------------------------------------------------------------------- *)
(* the SliceSlicesIntegers node: N-D product of C13_slice1d_partition.
   ssi_wf: per axis a valid non-empty chunking and an in-range integer / normalized slice.
   entry_spec (block_spec): for the graph entry (output block o, input block i, local
   indices sl), on every sliced axis the positions read from input block ib by the local
   slice are the o-th run of NumPy's selection `sel s n` cut by the advertised chunks
   (and there are exactly chunk[o] of them); on every integer axis the local integer
   addresses exactly the requested position inside its block, and the axis is dropped. *)
Theorem C12_basic_index_blocks :
  forall shape chunks index, ssi_wf shape chunks index ->
  Forall (entry_spec shape chunks index) (ssi_layer shape chunks index).
Proof. exact ssi_layer_blocks. Qed.

(* the boolean checker the harness runs on every real node implies ssi_wf *)
Theorem C12_wf_checker :
  forall shape chunks index, ssi_wf_b shape chunks index = true -> ssi_wf shape chunks index.
Proof. exact ssi_wf_b_true. Qed.

(* every block of the advertised grid is produced exactly once (negative steps number
   the output blocks in reverse: range(len(d))[::-1]) *)
Theorem C12_block_grid :
  forall shape chunks index, ssi_wf shape chunks index ->
  let outs := map fst (ssi_layer shape chunks index) in
  NoDup outs /\
  forall o, In o outs <-> Forall2 (fun ob nb => 0 <= ob < lenZ nb) o (ssi_chunks shape chunks index).
Proof. exact ssi_layer_grid. Qed.

(* .chunks: produced block extents = advertised chunks, block by block ... *)
Theorem C12_chunks_match :
  forall shape chunks index, ssi_wf shape chunks index ->
  Forall (fun e => block_extents chunks index (fst (snd e)) (snd (snd e)) =
                   advertised_extents (ssi_chunks shape chunks index) (fst e))
         (ssi_layer shape chunks index).
Proof. exact ssi_chunks_match_blocks. Qed.

(* ... and they are non-negative and add up to NumPy's result shape *)
Theorem C12_chunks_shape :
  forall shape chunks index, ssi_wf shape chunks index ->
  map zsum (ssi_chunks shape chunks index) = out_shape (np_meaning index shape) /\
  Forall (Forall (fun c => 0 <= c)) (ssi_chunks shape chunks index).
Proof. exact ssi_chunks_shape. Qed.

(* ---------------------------------------------------------------------- *)
(* None entries *)

(* the axes computed by slice_with_newaxes and inserted by ExpandDims put one new entry
   exactly at every None (for chunks v = (1,), for block keys v = 0) ... *)
Theorem C12_newaxis_layout :
  forall (A : Type) (v : A) idx vals, lenZ vals = countZ takes_value idx ->
  insert_axes (where_none idx) vals v = kept_view vals v idx.
Proof. exact @where_none_layout. Qed.

(* ... without touching the data positions ... *)
Theorem C12_newaxis_positions :
  forall idx shape,
  np_meaning (strip_nones idx) shape = filter (fun a => negb (is_new a)) (np_meaning idx shape).
Proof. exact strip_nones_meaning. Qed.

(* ... and the final chunks add up to NumPy's shape, with (1,) at every None *)
Theorem C12_newaxis :
  forall idx shape chunks,
  index_normalized idx shape -> ssi_wf shape chunks (strip_nones idx) ->
  getitem_chunks shape chunks (strip_nones idx) (where_none idx) =
    kept_view (ssi_chunks shape chunks (strip_nones idx)) [1] idx /\
  map zsum (getitem_chunks shape chunks (strip_nones idx) (where_none idx)) = out_shape (np_meaning idx shape).
Proof. exact getitem_chunks_shape. Qed.

(* ---------------------------------------------------------------------- *)
(* Array.__getitem__ end to end (basic indices) *)

Theorem C12_getitem_node :
  forall idx shape chunks index allow axes,
  Forall (fun n => 0 <= n) shape -> chunks_ok shape chunks ->
  getitem_basic idx shape = GNode index allow axes ->
  exists idx', normalize_index idx shape = NOk idx' /\
    index = strip_nones idx' /\ axes = where_none idx' /\
    ssi_wf shape chunks index /\
    np_meaning index shape =
      filter (fun a => negb (is_new a)) (np_meaning (np_expand (lenZ shape) idx) shape) /\
    getitem_chunks shape chunks index axes = kept_view (ssi_chunks shape chunks index) [1] idx' /\
    map zsum (getitem_chunks shape chunks index axes) =
      out_shape (np_meaning (np_expand (lenZ shape) idx) shape).
Proof. exact getitem_basic_node. Qed.

(* `return self` is taken only for the identity index *)
Theorem C12_getitem_self :
  forall idx shape, Forall (fun n => 0 <= n) shape -> getitem_basic idx shape = GSelf ->
  np_meaning (np_expand (lenZ shape) idx) shape = map (fun n => AKeep (sel colon n)) shape.
Proof. exact getitem_basic_self. Qed.

Theorem C12_getitem_err :
  forall idx shape e, getitem_basic idx shape = GErr e ->
  normalize_index idx shape = e /\ forall idx', e <> NOk idx'.
Proof. exact getitem_basic_err. Qed.

(* ---------------------------------------------------------------------- *)
(* non-vacuity: concrete non-trivial inputs *)

(* x[None, 1:3, ..., None] on shape (4,6), chunks ((2,0,2),(3,3)) *)
Example C12_ex_getitem_newaxes :
  getitem_basic [ENone; ESlice (mkslice (Some 1) (Some 3) None); EEllipsis; ENone] [4; 6] =
    GNode [ESlice (mkslice (Some 1) (Some 3) None); ESlice colon] false [0; 3] /\
  getitem_chunks [4; 6] [[2; 0; 2]; [3; 3]] [ESlice (mkslice (Some 1) (Some 3) None); ESlice colon] [0; 3] =
    [[1]; [1; 1]; [3; 3]; [1]].
Proof. split; vm_compute; reflexivity. Qed.

(* x[::-1, 2] across a zero-size chunk: ssi_wf holds, two output blocks numbered in reverse *)
Example C12_ex_wf_negative_step :
  ssi_wf [4; 6] [[2; 0; 2]; [3; 3]] [ESlice (mkslice None None (Some (-1))); EInt 2] /\
  map fst (ssi_layer [4; 6] [[2; 0; 2]; [3; 3]] [ESlice (mkslice None None (Some (-1))); EInt 2]) = [[1]; [0]] /\
  ssi_chunks [4; 6] [[2; 0; 2]; [3; 3]] [ESlice (mkslice None None (Some (-1))); EInt 2] = [[2; 2]].
Proof.
  split; [|split; vm_compute; reflexivity].
  cbn [ssi_wf]. repeat split; try discriminate; try lia; try (repeat constructor; lia).
  apply normalized_b_iff. vm_compute. reflexivity.
Qed.

Example C12_ex_accepted :
  normalize_index [EEllipsis; EInt (-1)] [4; 6] = NOk [ESlice colon; EInt 5] /\
  np_expand 2 [EEllipsis; EInt (-1)] = [ESlice colon; EInt (-1)] /\
  np_meaning [ESlice colon; EInt 5] [4; 6] = [AKeep [0; 1; 2; 3]; ADrop 5].
Proof. repeat split; vm_compute; reflexivity. Qed.

(* F8 repaired: x[-7::-1] on a length-5 axis selects nothing *)
Example C12_ex_F8_repaired :
  normalize_index [ESlice (mkslice (Some (-7)) None (Some (-1)))] [5] = NOk [ESlice (mkslice (Some 0) (Some 0) (Some (-1)))] /\
  np_meaning [ESlice (mkslice (Some 0) (Some 0) (Some (-1)))] [5] = [AKeep []].
Proof. split; vm_compute; reflexivity. Qed.

(* two Ellipsis: the exception class differs from NumPy's IndexError *)
Example C12_ex_two_ellipsis_TypeError :
  normalize_index [EEllipsis; EEllipsis] [4; 6] = NTypeError /\
  normalize_index [EEllipsis; EInt 9; EEllipsis] [4; 6; 2] = NIndexError.
Proof. split; vm_compute; reflexivity. Qed.

Example C12_ex_errors :
  normalize_index [EInt 4] [4] = NIndexError /\ normalize_index [EInt (-5)] [4] = NIndexError /\
  normalize_index [EInt 0; EInt 0] [4] = NIndexError /\
  normalize_index [ESlice (mkslice None None (Some 0))] [4] = NValueError.
Proof. repeat split; vm_compute; reflexivity. Qed.

Print Assumptions C12_ellipsis_expansion.
Print Assumptions C12_ellipsis_expansion_shape.
Print Assumptions C12_normalize_index_accepts_iff.
Print Assumptions C12_normalize_index_sel.
Print Assumptions C12_normalize_index_normalized.
Print Assumptions C12_out_of_bounds_raises.
Print Assumptions C12_out_of_bounds_int_1d.
Print Assumptions C12_too_many_indices_raise.
Print Assumptions C12_multiple_ellipsis_raise.
Print Assumptions C12_basic_index_blocks.
Print Assumptions C12_wf_checker.
Print Assumptions C12_block_grid.
Print Assumptions C12_chunks_match.
Print Assumptions C12_chunks_shape.
Print Assumptions C12_newaxis_layout.
Print Assumptions C12_newaxis_positions.
Print Assumptions C12_newaxis.
Print Assumptions C12_getitem_node.
Print Assumptions C12_getitem_self.
Print Assumptions C12_getitem_err.

(* ====================================================================== *)
(* FANCY PATH: one axis indexed with a one-dimensional integer list / ndarray
   (x[:, [3, 0, 3, 5]], da.take(x, idx, axis)) — coq/theories/TakeModel.v.

   Vocabulary.  chunks = x.chunks[axis] (all >= 0; zero-size chunks are supported by the code
   and by every theorem below; `pos_chunks` is the special case asked for), d = zsum chunks.
   Model side: take_normalize (check_index + posify_index), take_block / take_start /
   take_pair (searchsorted on the cumulative sums), compute_indexer (_compute_indexer),
   Transfer2.nc_loop (Shuffle._new_chunks), take_limit (Shuffle._chunk_size_limit),
   take_route_of (which node is built: IndexError | slice(0,0,1) | x itself | Shuffle),
   take_groups (the output blocks as lists of input positions), take_out_chunks
   (Shuffle.chunks along the axis), take_plan (per output block the (input block, local
   offset) pairs in output order, read back from Shuffle._layer by the harness).
   Spec side: np_in_range d i := -d <= i < d;  np_pos d i := i + d if i < 0 else i;
   py_nth dflt l i = Python's l[i];  in_block chunks l b = block b of l;
   plan_read dflt chunks l plan = what the plan reads from the blocks of l;
   pair_ok chunks (b, o) := 0 <= b < len chunks /\ 0 <= o < chunks[b]. *)

(* ---------------------------------------------------------------------- *)
(* (a) normalisation: accepted <-> every entry in [-d, d) (NumPy's rule); negative entries
   are mapped to i + d = i mod d, the result lies in [0, d) *)
Theorem C12_take_normalize_accepts_iff :
  forall d idx, (exists n, take_normalize d idx = Some n) <-> Forall (np_in_range d) idx.
Proof. exact take_normalize_accepts_iff. Qed.

Theorem C12_take_normalize_rejects_iff :
  forall d idx, take_normalize d idx = None <-> Exists (fun i => i < - d \/ d <= i) idx.
Proof. exact take_normalize_rejects_iff. Qed.

Theorem C12_take_normalize_value :
  forall d idx n, take_normalize d idx = Some n ->
  n = map (np_pos d) idx /\ Forall (fun j => 0 <= j < d) n /\
  Forall (fun i => np_pos d i = i mod d) idx.
Proof. exact take_normalize_value. Qed.

(* IndexError exactly when some entry is out of range; the empty list is the only index
   turned into slice(0, 0, 1) *)
Theorem C12_take_raises_iff :
  forall chunks idx, take_route_of chunks idx = TRError <->
  Exists (fun i => i < - zsum chunks \/ zsum chunks <= i) idx.
Proof. exact take_route_error_iff. Qed.

Theorem C12_take_empty_iff :
  forall chunks idx, take_route_of chunks idx = TREmptySlice <-> idx = [].
Proof. exact take_route_empty_iff. Qed.

(* ---------------------------------------------------------------------- *)
(* where an element lives: the (block, offset) pair computed with searchsorted is inside
   its block and denotes position i *)
Theorem C12_take_pair :
  forall chunks i, nonneg_chunks chunks -> 0 <= i < zsum chunks ->
  pair_ok chunks (take_pair chunks i) /\
  zsum (firstn (Z.to_nat (fst (take_pair chunks i))) chunks) + snd (take_pair chunks i) = i.
Proof. exact take_pair_spec. Qed.

(* ---------------------------------------------------------------------- *)
(* (b) value-level correctness of the plan: reading, output block after output block, the
   (input block, local offset) pairs from the blocks of ANY list l laid out with `chunks`
   gives exactly [l[i] for i in idx] (Python indexing, negative entries from the end) *)
Theorem C12_take_plan_values :
  forall (A : Type) (dflt : A) chunks idx (l : list A) plan,
  nonneg_chunks chunks -> zlen l = zsum chunks -> take_plan chunks idx = Some plan ->
  concat (plan_read dflt chunks l plan) = map (py_nth dflt l) idx.
Proof. exact @take_plan_values. Qed.

Theorem C12_take_plan_values_pos :
  forall (A : Type) (dflt : A) chunks idx (l : list A) plan,
  pos_chunks chunks -> zlen l = zsum chunks -> take_plan chunks idx = Some plan ->
  concat (plan_read dflt chunks l plan) = map (py_nth dflt l) idx.
Proof. intros A dflt chunks idx l plan H. exact (take_plan_values dflt chunks idx l plan (pos_nonneg chunks H)). Qed.

(* global position = offset of the input block + local offset = the normalised index *)
Theorem C12_take_plan_positions :
  forall chunks idx plan, nonneg_chunks chunks -> take_plan chunks idx = Some plan ->
  map (fun p => zsum (firstn (Z.to_nat (fst p)) chunks) + snd p) (concat plan)
  = map (np_pos (zsum chunks)) idx.
Proof. exact take_plan_positions. Qed.

(* (c) every pair is in bounds of its input block *)
Theorem C12_take_plan_in_bounds :
  forall chunks idx plan, nonneg_chunks chunks -> take_plan chunks idx = Some plan ->
  Forall (Forall (pair_ok chunks)) plan.
Proof. exact take_plan_in_bounds. Qed.

(* ---------------------------------------------------------------------- *)
(* (d) the advertised chunks sum to len(idx), are the sizes of the groups and of the blocks
   of the plan; (e) none exceeds the largest INPUT chunk along the axis
   (Shuffle._chunk_size_limit) — in every route *)
Theorem C12_take_out_chunks :
  forall chunks idx oc, nonneg_chunks chunks -> take_out_chunks chunks idx = Some oc ->
  zsum oc = zlen idx /\
  Forall (fun c => 0 <= c <= take_limit chunks) oc /\
  exists gs plan, take_groups chunks idx = Some gs /\ take_plan chunks idx = Some plan /\
                  oc = map (fun g => zlen g) gs /\ oc = map (fun b => zlen b) plan.
Proof. exact take_out_chunks_spec. Qed.

(* the groups partition the normalised index in order *)
Theorem C12_take_groups :
  forall chunks idx gs, nonneg_chunks chunks -> take_groups chunks idx = Some gs ->
  exists n, take_normalize (zsum chunks) idx = Some n /\ concat gs = n /\
            Forall (fun g => zlen g <= take_limit chunks) gs.
Proof. exact take_groups_spec. Qed.

(* the limit is the maximum of the input chunks *)
Theorem C12_take_limit_is_max :
  forall chunks, Forall (fun c => c <= take_limit chunks) chunks /\
  (nonneg_chunks chunks -> 0 < zsum chunks -> 1 <= take_limit chunks).
Proof. intros chunks. split; [exact (take_limit_ge chunks) | exact (take_limit_pos chunks)]. Qed.

(* (e) on the Shuffle route: _compute_indexer cuts the normalised index into non-empty runs
   each inside ONE input chunk; _new_chunks regroups it (same order) into output chunks that
   are never empty and never larger than the largest input chunk.  (The branch
   `if len(current_chunk) > limit` after `current_chunk.extend(idx)` of _new_chunks is dead.) *)
Theorem C12_take_shuffle_chunks :
  forall chunks idx index indexer nc,
  nonneg_chunks chunks -> take_route_of chunks idx = TRShuffle index indexer nc ->
  concat indexer = index /\ concat nc = index /\
  Forall (fun g => g <> []) indexer /\
  Forall (fun g => forall a b, In a g -> In b g -> take_block chunks a = take_block chunks b) indexer /\
  Forall (fun g => 1 <= zlen g <= take_limit chunks) nc.
Proof. exact take_shuffle_chunks. Qed.

Theorem C12_take_shuffle_route :
  forall chunks idx index indexer nc,
  take_route_of chunks idx = TRShuffle index indexer nc ->
  take_normalize (zsum chunks) idx = Some index /\ index <> [] /\ index <> arange (zsum chunks) /\
  indexer = compute_indexer chunks index /\ nc = nc_loop (take_limit chunks) indexer [] [].
Proof. exact take_route_shuffle_inv. Qed.

(* the no-op: idx == arange(d) returns x itself, chunks unchanged *)
Theorem C12_take_identity :
  forall chunks idx, nonneg_chunks chunks -> take_route_of chunks idx = TRIdentity ->
  take_out_chunks chunks idx = Some chunks /\ map (np_pos (zsum chunks)) idx = arange (zsum chunks).
Proof. exact take_identity_chunks. Qed.

(* the docstring of `shuffle` promises "each group will end up in exactly one chunk"; for
   the groups _compute_indexer builds this is FALSE: a run longer than the largest input
   chunk is split (x[[0, 0, 0]] with chunks (2,) -> one run [0,0,0], output chunks (2, 1)) *)
Theorem C12_take_group_in_one_chunk_refuted :
  exists chunks idx index indexer nc,
    pos_chunks chunks /\ take_route_of chunks idx = TRShuffle index indexer nc /\
    exists g, In g indexer /\ ~ exists c, In c nc /\ incl g c /\ (length g <= length c)%nat.
Proof. exact take_group_split_witness. Qed.

(* the number of output chunks is NOT bounded by the number of input chunks *)
Theorem C12_take_nblocks_not_bounded_refuted :
  exists chunks idx oc, pos_chunks chunks /\ take_out_chunks chunks idx = Some oc /\
                        zlen chunks < zlen oc.
Proof. exact take_nblocks_witness. Qed.

(* the TASKS of the layer: per output block one split task per source block (reading sorted
   local offsets, or — a single source block — the offsets in output order); whatever the
   order inside the tasks, together they read exactly the pairs of the plan (as a multiset;
   the merge task reorders them with argsort(sorter), which the harness replays) *)
Theorem C12_take_splits :
  forall chunks idx sps, take_splits chunks idx = Some sps ->
  exists plan, take_plan chunks idx = Some plan /\
               Forall2 (fun sp block => Permutation (unsplit sp) block) sps plan.
Proof. exact take_splits_spec. Qed.

(* hypotheses are satisfiable; the model on concrete inputs *)
Example C12_ex_take_route :
  take_route_of [3; 4; 3] [3; 0; 3; 5; 9; 9; 1; -1]
  = TRShuffle [3; 0; 3; 5; 9; 9; 1; 9] [[3]; [0]; [3; 5]; [9; 9]; [1]; [9]]
              [[3; 0; 3; 5]; [9; 9; 1; 9]].
Proof. vm_compute. reflexivity. Qed.

Example C12_ex_take_plan :
  take_plan [3; 4; 3] [3; 0; 3; 5; 9; 9; 1; -1]
  = Some [[(1, 0); (0, 0); (1, 0); (1, 2)]; [(2, 2); (2, 2); (0, 1); (2, 2)]] /\
  take_out_chunks [3; 4; 3] [3; 0; 3; 5; 9; 9; 1; -1] = Some [4; 4] /\
  take_splits [3; 4; 3] [3; 0; 3; 5; 9; 9; 1; -1]
  = Some [[(0, [0]); (1, [0; 0; 2])]; [(0, [1]); (2, [2; 2; 2])]].
Proof. vm_compute. repeat split; reflexivity. Qed.

Example C12_ex_take_values :
  concat (plan_read 0 [3; 4; 3] [10; 11; 12; 13; 14; 15; 16; 17; 18; 19]
            [[(1, 0); (0, 0); (1, 0); (1, 2)]; [(2, 2); (2, 2); (0, 1); (2, 2)]])
  = [13; 10; 13; 15; 19; 19; 11; 19].
Proof. vm_compute. reflexivity. Qed.

Example C12_ex_take_zero_chunk_identity_empty_error :
  take_plan [2; 0; 1] [2; 0; -1; 0] = Some [[(2, 0); (0, 0)]; [(2, 0); (0, 0)]] /\
  take_route_of [2; 0; 1] [0; 1; 2] = TRIdentity /\
  take_out_chunks [2; 0; 1] [0; 1; 2] = Some [2; 0; 1] /\
  take_out_chunks [2; 0; 1] [] = Some [0] /\
  take_route_of [2; 1] [3] = TRError /\ take_route_of [2; 1] [-4] = TRError /\
  take_route_of [2] [0; 0; 0; 0; 0] = TRShuffle [0; 0; 0; 0; 0] [[0; 0; 0; 0; 0]] [[0; 0]; [0; 0]; [0]].
Proof. vm_compute. repeat split; reflexivity. Qed.

Print Assumptions C12_take_normalize_accepts_iff.
Print Assumptions C12_take_normalize_rejects_iff.
Print Assumptions C12_take_normalize_value.
Print Assumptions C12_take_raises_iff.
Print Assumptions C12_take_empty_iff.
Print Assumptions C12_take_pair.
Print Assumptions C12_take_plan_values.
Print Assumptions C12_take_plan_values_pos.
Print Assumptions C12_take_plan_positions.
Print Assumptions C12_take_plan_in_bounds.
Print Assumptions C12_take_out_chunks.
Print Assumptions C12_take_groups.
Print Assumptions C12_take_limit_is_max.
Print Assumptions C12_take_shuffle_chunks.
Print Assumptions C12_take_shuffle_route.
Print Assumptions C12_take_identity.
Print Assumptions C12_take_splits.
Print Assumptions C12_take_group_in_one_chunk_refuted.
Print Assumptions C12_take_nblocks_not_bounded_refuted.
