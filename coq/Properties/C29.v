(* C29 — Building and inspecting arrays never touches data (placeholder). *)
From DA Require Import PyBase.
Open Scope Z_scope.
Example C29_placeholder : zsum [1;2;3] = 6. Proof. reflexivity. Qed.
Print Assumptions C29_placeholder.
