(* C29 — Building and inspecting arrays never touches data.
   "Constructing array expressions, reading their metadata and calling optimize never
   requests a non-empty selection from a non-NumPy source array-like and never calls a
   user block function on a non-empty block."

   Statements only; proofs in theories/MetaModelFacts.v.  The model (theories/MetaModel.v)
   transcribes the two places where building touches sources / user functions:
   meta_from_array (reached from FromArray._meta) and compute_meta; harness/c29.py
   (fam_meta_model) compares the model's requests and shapes exactly with the real
   functions on every run.  The whole-program clause ("no other code path reads data")
   is checked dynamically by the recording-source programs of harness/c29.py, not proved. *)
From DA Require Import PyBase MetaModel MetaModelFacts.
Open Scope Z_scope.

(* The selection meta_from_array requests from a source with at least one axis,
   x[(slice(0,0,None),) * x.ndim], is empty: for ALL axis lengths (no sign hypothesis). *)
Theorem C29_meta_selection_empty : forall shape : list Z,
  shape <> [] -> selection_size (meta_index (length shape)) shape = 0.
Proof. exact selection_size_meta_index. Qed.

(* Full-strength clause "the selection requested while building is empty for EVERY
   source":   forall shape, selection_size (meta_index (length shape)) shape = 0
   is FALSE of the faithful model: a 0-d source has no empty selection, x[()] is its
   single element.  This is known finding F31 (recorded in known_findings.json; replayed
   against the real code by the corpus case and by fam_meta_model of harness/c29.py). *)
Theorem C29_zero_dim_source_refuted :
  exists shape : list Z, selection_size (meta_index (length shape)) shape = 1.
Proof. exact zero_dim_source_refuted. Qed.

(* meta_from_array makes exactly one request to the source, with one slice per axis *)
Theorem C29_meta_requests : forall xndim : nat,
  meta_from_array_requests xndim = [meta_index xndim] /\ length (meta_index xndim) = xndim.
Proof. exact meta_from_array_requests_spec. Qed.

(* The result of meta_from_array has shape (0,)*ndim (ndim = x.ndim when not given),
   whether or not the source's __getitem__ raised; hence no elements when ndim >= 1. *)
Theorem C29_meta_shape : forall (getitem_raises : bool) (xshape : list Z) (ndim : option nat),
  meta_from_array_shape_gen getitem_raises xshape ndim = repeat 0 (target_ndim xshape ndim) /\
  (target_ndim xshape ndim <> 0%nat ->
   zprod (meta_from_array_shape_gen getitem_raises xshape ndim) = 0).
Proof. exact meta_shape_all. Qed.

(* ... and honestly: a 0-d meta is a 0-d array, which has exactly ONE element.  For a
   source with >= 1 axes that element is fabricated (sum of an empty selection), for a
   0-d source it is the source's element (C29_zero_dim_source_refuted). *)
Theorem C29_zero_dim_meta_has_one_element : forall (getitem_raises : bool) (xshape : list Z) (ndim : option nat),
  target_ndim xshape ndim = 0%nat ->
  meta_from_array_shape_gen getitem_raises xshape ndim = [] /\
  zprod (meta_from_array_shape_gen getitem_raises xshape ndim) = 1.
Proof. exact zero_dim_meta_one_element. Qed.

(* FromArray._meta: one request meta_index x.ndim, result of shape (0,)*x.ndim *)
Theorem C29_from_array_meta : forall xshape : list Z,
  from_array_meta_requests (length xshape) = [meta_index (length xshape)] /\
  from_array_meta_shape xshape = repeat 0 (length xshape).
Proof. exact from_array_meta_spec. Qed.

(* compute_meta calls the user function exactly once, with one (meta) argument per argument *)
Theorem C29_compute_meta_one_call : forall args kwargs : list marg,
  exists call, compute_meta_calls args kwargs = [call] /\
    length (fst call) = length args /\ length (snd call) = length kwargs.
Proof. exact compute_meta_one_call. Qed.

(* what func receives: an expression's cached _meta UNCHANGED, array-likes and dask_array
   collections normalised to shape (0,)*ndim, everything else passed through *)
Theorem C29_compute_meta_call_shapes : forall args kwargs : list marg,
  compute_meta_calls args kwargs = [(map arg_call_shape args, map arg_call_shape kwargs)].
Proof. exact compute_meta_call_shapes. Qed.

(* every array argument of that call has no elements when its ndim >= 1 (and exactly one
   when it is 0-d) PROVIDED the metas of the expression arguments have none: compute_meta
   adds no elements.  The hypothesis is an ASSUMPTION about the expressions' `_meta`
   (implied by the nominal invariant `_meta.shape = (0,)*ndim`); harness/c29.py checks it on
   every node of every real expression it builds, and it FAILS for ExpandDims over a 0-d
   child (finding C29-B, see C29_compute_meta_expr_meta_refuted). *)
Theorem C29_compute_meta_calls_on_empty : forall (args kwargs : list marg) call (sh : list Z),
  (forall m, In (MExprArg m) (args ++ kwargs) -> m <> [] -> zprod m = 0) ->
  In call (compute_meta_calls args kwargs) ->
  In (Some sh) (fst call ++ snd call) ->
  (sh <> [] -> zprod sh = 0) /\ (sh = [] -> zprod sh = 1).
Proof. exact compute_meta_calls_on_empty. Qed.

(* array-likes and collections need no hypothesis *)
Theorem C29_compute_meta_arraylike_normalised : forall (args kwargs : list marg) call (i : nat) (sh : list Z),
  In call (compute_meta_calls args kwargs) ->
  (nth_error (args ++ kwargs) i = Some (MArrayLike sh) \/ nth_error (args ++ kwargs) i = Some (MCollection sh)) ->
  nth_error (fst call ++ snd call) i = Some (Some (repeat 0 (length sh))).
Proof. exact compute_meta_arraylike_normalised. Qed.

(* Without the hypothesis the clause is FALSE: an expression whose cached _meta has shape (1,)
   (real: da.from_array(np.arange(6), 3).sum()[None].expr._meta.shape == (1,)) makes
   compute_meta call func on a non-empty 1-d array.  Finding C29-B, replayed by the corpus
   case of fam_meta_model in harness/c29.py. *)
Theorem C29_compute_meta_expr_meta_refuted :
  exists args kwargs call sh, compute_meta_calls args kwargs = [call] /\
    In (Some sh) (fst call) /\ sh <> [] /\ zprod sh = 1.
Proof. exact compute_meta_expr_meta_refuted. Qed.

(* the requests compute_meta sends: per argument, none unless it is an array-like, then
   the single meta_index request ... *)
Theorem C29_compute_meta_requests : forall (args kwargs : list marg) (i : nat) (a : marg),
  nth_error (args ++ kwargs) i = Some a ->
  nth_error (compute_meta_requests args kwargs) i =
    Some (match a with MArrayLike sh => [meta_index (length sh)] | _ => [] end).
Proof. exact compute_meta_requests_spec. Qed.

(* ... which is empty for every array-like with >= 1 axes (one element for a 0-d one: F31) *)
Theorem C29_compute_meta_requests_empty : forall (args kwargs : list marg) reqs idx,
  In reqs (compute_meta_requests args kwargs) -> In idx reqs ->
  exists shape, In (MArrayLike shape) (args ++ kwargs) /\ idx = meta_index (length shape) /\
    (shape <> [] -> selection_size idx shape = 0) /\ (shape = [] -> selection_size idx shape = 1).
Proof. exact compute_meta_requests_empty. Qed.

(* Full-strength clause "the user function is never called on a non-empty block" is
   FALSE for 0-d arguments: a 0-d meta has one element, so func is called on a
   one-element 0-d array (finding F33; the element is fabricated, not read from a source,
   unless the argument is a 0-d array-like or a from_array over one, whose cached meta
   holds the source's element: F31). *)
Theorem C29_compute_meta_zero_dim_arg_refuted :
  exists args kwargs call, compute_meta_calls args kwargs = [call] /\
    In (Some []) (fst call) /\ zprod [] = 1.
Proof. exact compute_meta_zero_dim_arg. Qed.

(* Metadata is parametric in the data: two environments whose sources have equal
   metadata give equal metadata for every expression, and it equals meta_of, which has
   no access to data.  TRUE BY CONSTRUCTION of the toy language of MetaModel.v (its
   metadata transformers take only metadata): a statement of the design principle, not
   a deep theorem and not tied to library code. *)
Theorem C29_metadata_parametric : forall (e : expr) (env1 env2 : nat -> source),
  (forall i, src_meta (env1 i) = src_meta (env2 i)) ->
  a_meta (eval e env1) = a_meta (eval e env2) /\
  a_meta (eval e env1) = meta_of e (fun i => src_meta (env1 i)).
Proof. exact metadata_parametric. Qed.

(* ---- non-vacuity ---- *)
Example C29_ex_selection : selection_shape (meta_index 3) [4; 0; 7] = [0; 0; 0]
  /\ selection_size (meta_index 3) [4; 0; 7] = 0 /\ selection_size (meta_index 0) [] = 1.
Proof. vm_compute. repeat split. Qed.

(* the branches of meta_from_array: ndim None / 0 (.sum()) / smaller (reshape) / equal /
   larger (None axes), a 0-d source, and the except fallback *)
Example C29_ex_meta_shapes :
  map (meta_from_array_shape [2; 3; 1]) [None; Some 0; Some 1; Some 3; Some 5]%nat
    = [[0; 0; 0]; []; [0]; [0; 0; 0]; [0; 0; 0; 0; 0]]
  /\ map (meta_from_array_shape []) [None; Some 0; Some 2]%nat = [[]; []; [0; 0]]
  /\ meta_from_array_shape_gen true [2; 3] (Some 1%nat) = [0].
Proof. vm_compute. repeat split. Qed.

Example C29_ex_compute_meta :
  compute_meta_calls [MExprArg [0; 0]; MArrayLike [2; 3]; MOther; MExprArg []; MCollection [1; 4]; MExprArg [1; 0]] [MArrayLike []]
    = [([Some [0; 0]; Some [0; 0]; None; Some []; Some [0; 0]; Some [1; 0]], [Some []])]
  /\ compute_meta_requests [MExprArg [0; 0]; MArrayLike [2; 3]; MOther; MExprArg []; MCollection [1; 4]; MExprArg [1; 0]] [MArrayLike []]
    = [[]; [[empty_slice; empty_slice]]; []; []; []; []; [[]]].
Proof. vm_compute. repeat split. Qed.

(* two environments with the same metadata and different data: same metadata, different values *)
Definition C29_env (f : Z -> Z -> Z) (i : nat) : source :=
  mksource (mkmeta [4; 2] [[2; 2]; [2]] 3) (fun idx => match idx with [a; b] => f a b | _ => 0 end).
Definition C29_e : expr :=
  EAdd (ESlice0 (mkslice (Some 1) None (Some 2)) (ESrc 0))
       (ENeg (ESlice0 (mkslice None (Some 2) None) (ERechunk [[4]; [1; 1]] (ESrc 1)))).
Example C29_ex_parametric :
  a_meta (eval C29_e (C29_env (fun a b => 10 * a + b))) = mkmeta [2; 2] [[2]; [2]] 3
  /\ a_meta (eval C29_e (C29_env (fun a b => a * b + 7))) = mkmeta [2; 2] [[2]; [2]] 3
  /\ map (a_data (eval C29_e (C29_env (fun a b => 10 * a + b)))) (all_indices [2; 2]) = [10; 10; 20; 20]
  /\ map (a_data (eval C29_e (C29_env (fun a b => a * b + 7)))) (all_indices [2; 2]) = [0; 1; 0; 2]
  /\ a_data (eval (ESum C29_e) (C29_env (fun a b => 10 * a + b))) [] = 60.
Proof. vm_compute. repeat split. Qed.

Print Assumptions C29_meta_selection_empty.
Print Assumptions C29_zero_dim_source_refuted.
Print Assumptions C29_meta_requests.
Print Assumptions C29_meta_shape.
Print Assumptions C29_zero_dim_meta_has_one_element.
Print Assumptions C29_from_array_meta.
Print Assumptions C29_compute_meta_one_call.
Print Assumptions C29_compute_meta_call_shapes.
Print Assumptions C29_compute_meta_calls_on_empty.
Print Assumptions C29_compute_meta_arraylike_normalised.
Print Assumptions C29_compute_meta_expr_meta_refuted.
Print Assumptions C29_compute_meta_requests.
Print Assumptions C29_compute_meta_requests_empty.
Print Assumptions C29_compute_meta_zero_dim_arg_refuted.
Print Assumptions C29_metadata_parametric.
