#!/usr/bin/env python3
"""Regenerate /verif/MANIFEST.json from the table below (kept valid at all times)."""
import json, os
HERE = os.path.dirname(os.path.dirname(os.path.abspath(__file__)))

def _c(text, design, note, technique):
    return dict(text=text, design=design, note=note, technique=technique)


_TIE = ("tied to /repo on every run by evaluating the Gallina model inside Coq (vm_compute) on the same generated and "
        "exhaustive-small inputs as the implementation and comparing exactly; the implementation is also compared with an "
        "independent property-level oracle (NumPy / brute force)")
_TB = "Trusted: Coq 8.16.1 kernel + vm_compute; harness generators/comparators and the Python->Coq literal printer; "

CLAIMED = {
    "C01": _c("Differential execution of generated programs over the public API against NumPy (values, shape, dtype) with "
              "shrinking; theorems of the expression calculus are added as the modelled fragment grows (proof-partial: the "
              "property quantifies over all API programs, which no finite model covers).",
              "5/C01", _TB + "NumPy is the oracle; programs outside the modelled fragment are checked by execution only.",
              "Coq model of the core + differential execution vs NumPy over generated programs"),
    "C13": _c("Unbounded Coq theorems about Gallina models of normalize_slice, fuse_slice (scalar and tuple), _compose_slices, "
              "_slice_1d, new_blockdim (coq/Properties/C13.v: selection preserved; plan partitions the selected positions in "
              "order, pieces inside blocks, chunk sizes = piece lengths; for all axis lengths, chunkings incl. zero-length "
              "chunks, both step signs); " + _TIE + ".",
              "5/C13", _TB + "CPython slice.indices/range transcription (PyBase.v) is validated by the correspondence. "
              "Basic indices only (no list/bool fancy indices); N-D lifting of fuse_slice with None/int entries is checked "
              "by correspondence, proved element-wise.",
              "Coq proof over Gallina model + differential correspondence (vm_compute) against the Python helpers"),
    "C15": _c("Coq theorems about a Gallina model of plan_rechunk and the old->new crosswalk (coq/Properties/C15.v): every "
              "returned plan is a list of layouts of the shape ending in the target, no step exceeds the block budget (for "
              "ALL values of the float-derived oracle choices), the crosswalk tiles every new block exactly (zero-size "
              "chunks included), and the boolean checker run on the implementation's crosswalk is sound; " + _TIE + ".",
              "5/C15", _TB + "float-derived choices (np.log sort key, ceil(log/log), round(..**..)) are recorded from the "
              "implementation run by shadowing sorted/round/math in the module namespace and passed to the model as oracle "
              "arguments; float floor/ceil assumed exact on the generated domain. 'plan_rechunk never raises' is checked, "
              "not proved.",
              "Coq proof over Gallina model of the planner (oracle arguments) + differential correspondence"),
    "C16": _c("Coq theorems about a Gallina model of normalize_chunks/auto_chunks/blockdims_from_blockshape "
              "(coq/Properties/C16.v): every accepted spec yields a valid layout for all oracle values; uniform sizes; zero "
              "chunks only on empty axes unless written explicitly (refuted clause = known finding F4); auto byte limit under "
              "the explicit k-th-root oracle hypothesis; " + _TIE + ".",
              "5/C16", _TB + "the float `size` of auto_chunks is an oracle argument recomputed by the harness; the "
              "previous_chunks branch of auto_chunks is not modelled (property-level checks only, with the configured "
              "tolerance).",
              "Coq proof over Gallina model + differential correspondence; previous_chunks branch by property oracle only"),
    "C17": _c("Coq theorems about Gallina models of common_blockdim, coarse_blockdim and moved_fraction "
              "(coq/Properties/C17.v): the refine layout is the finest common refinement, only splits and never grows a "
              "block; the coarse layout is an operand layout all others refine or the common refinement (for every "
              "tie-break oracle); refinements never grow blocks; " + _TIE + "; unify_chunks_expr itself is checked on real "
              "operands x 3 policies x limits against the property (alignment, refine-only-splits, growth bound, values).",
              "5/C17", _TB + "the cost-aware merge/realign decision logic of unify_chunks_expr is not modelled in Coq: its "
              "outputs are checked against the property per instance; set-iteration tie-break is an oracle.",
              "Coq proof over Gallina models of the per-axis helpers + property check of unify_chunks_expr outputs"),
}

NOT_APPLICABLE = {
    "C22": "native Rust layers cannot be built or run here (pyo3 0.29 and build crates absent from the offline cargo cache, no prebuilt _rust*.so), so no model of them can be tied to the code",
}

PENDING_REASON = "check not built yet in this session (planned in DESIGN.md section 5); not claimed until its Coq model, theorems and correspondence exist"


def main():
    ids = [json.loads(l)["id"] for l in open(os.path.join(HERE, "properties.jsonl"))]
    checks = []
    for pid in ids:
        if pid in CLAIMED:
            c = CLAIMED[pid]
            checks.append({
                "property_id": pid,
                "quick_cmd": f"./check {pid} --tier quick",
                "thorough_cmd": f"./check {pid} --tier thorough",
                "evidence_file": f"/verif/evidence/{pid}.json",
                "replay_cmd_template": f"./check {pid} --replay {{path}}",
                "engine": "coq+correspondence",
                "level_claimed": {"category": "proof", "text": c["text"], "design_ref": c["design"]},
                "level_note": c["note"],
                "technique": c["technique"],
            })
    na = []
    for pid in ids:
        if pid in CLAIMED:
            continue
        na.append({"property_id": pid, "reason": NOT_APPLICABLE.get(pid, PENDING_REASON)})
    m = {
        "version": 1,
        "setup_cmd": "./setup.sh",
        "hooks": {
            "guard": "DASK_ARRAY_VERIF",
            "enable": "no source hooks are needed: all instrumentation wraps dask_array objects from the harness process (checks export DASK_ARRAY_VERIF=1 for uniformity)",
            "baseline_off_cmd": "cd /repo && /venv/bin/python -m pytest -ra -q -p no:cacheprovider --timeout=900 --continue-on-collection-errors",
            "source_commits": [],
            "add_only": True,
        },
        "engines": [{
            "name": "coq+correspondence",
            "path": "/verif/check",
            "serves_properties": sorted(CLAIMED),
            "kind_free_text": "Coq 8.16.1 development (coq/) with one Properties/<id>.v per property; harness/<id>.py runs the implementation and the Gallina model (vm_compute inside coqc) on the same inputs and the implementation against NumPy",
        }],
        "checks": checks,
        "not_applicable": na,
        "notes": "fix: commits in /repo are listed in known_findings.json (status=fixed). See DESIGN.md.",
    }
    with open(os.path.join(HERE, "MANIFEST.json"), "w") as f:
        json.dump(m, f, indent=1)
    print("claimed", len(checks), "not_applicable", len(na))


if __name__ == "__main__":
    main()
