#!/usr/bin/env python3
"""Regenerate /verif/MANIFEST.json from the table below (kept valid at all times)."""
import json, os
HERE = os.path.dirname(os.path.dirname(os.path.abspath(__file__)))

CLAIMED = {
    "C13": dict(
        text="Unbounded Coq theorems about Gallina models of normalize_slice, fuse_slice, _compose_slices, _slice_1d, "
             "new_blockdim, _compute_sliced_chunks (coq/Properties/C13.v); the models are tied to /repo on every run by "
             "evaluating them inside Coq on the same generated and exhaustive-small inputs as the implementation and "
             "comparing exactly, and the implementation is also compared with Python/NumPy slicing itself.",
        design="5/C13",
        note="Trusted: Coq kernel + vm_compute; CPython slice.indices/range transcription (PyBase.v) checked by the "
             "correspondence; harness comparators. Model covers basic indices only (no list/bool fancy indices).",
        technique="Coq proof over Gallina model + differential correspondence (vm_compute) against the Python helpers",
    ),
}

NOT_APPLICABLE = {
    "C22": "native Rust layers cannot be built or run here (pyo3 0.29 and build crates absent from the offline cargo cache, no prebuilt _rust*.so), so no model of them can be tied to the code",
}

PENDING_REASON = "check not built yet in this session (planned in DESIGN.md section 5); not claimed until its Coq model, theorems and correspondence exist"


def main():
    ids = [json.loads(l)["id"] for l in open(os.path.join(HERE, "properties.jsonl"))]
    checks = []
    for pid in ids:
        if pid in CLAIMED:
            c = CLAIMED[pid]
            checks.append({
                "property_id": pid,
                "quick_cmd": f"./check {pid} --tier quick",
                "thorough_cmd": f"./check {pid} --tier thorough",
                "evidence_file": f"/verif/evidence/{pid}.json",
                "replay_cmd_template": f"./check {pid} --replay {{path}}",
                "engine": "coq+correspondence",
                "level_claimed": {"category": "proof", "text": c["text"], "design_ref": c["design"]},
                "level_note": c["note"],
                "technique": c["technique"],
            })
    na = []
    for pid in ids:
        if pid in CLAIMED:
            continue
        na.append({"property_id": pid, "reason": NOT_APPLICABLE.get(pid, PENDING_REASON)})
    m = {
        "version": 1,
        "setup_cmd": "./setup.sh",
        "hooks": {
            "guard": "DASK_ARRAY_VERIF",
            "enable": "no source hooks are needed: all instrumentation wraps dask_array objects from the harness process (checks export DASK_ARRAY_VERIF=1 for uniformity)",
            "baseline_off_cmd": "cd /repo && /venv/bin/python -m pytest -ra -q -p no:cacheprovider --timeout=900 --continue-on-collection-errors",
            "source_commits": [],
            "add_only": True,
        },
        "engines": [{
            "name": "coq+correspondence",
            "path": "/verif/check",
            "serves_properties": sorted(CLAIMED),
            "kind_free_text": "Coq 8.16.1 development (coq/) with one Properties/<id>.v per property; harness/<id>.py runs the implementation and the Gallina model (vm_compute inside coqc) on the same inputs and the implementation against NumPy",
        }],
        "checks": checks,
        "not_applicable": na,
        "notes": "fix: commits in /repo are listed in known_findings.json (status=fixed). See DESIGN.md.",
    }
    with open(os.path.join(HERE, "MANIFEST.json"), "w") as f:
        json.dump(m, f, indent=1)
    print("claimed", len(checks), "not_applicable", len(na))


if __name__ == "__main__":
    main()
