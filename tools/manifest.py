#!/usr/bin/env python3
"""Regenerate /verif/MANIFEST.json from the table below (kept valid at all times)."""
import json, os
HERE = os.path.dirname(os.path.dirname(os.path.abspath(__file__)))

def _c(text, design, note, technique):
    return dict(text=text, design=design, note=note, technique=technique)


_TIE = ("tied to /repo on every run by evaluating the Gallina model inside Coq (vm_compute) on the same generated and "
        "exhaustive-small inputs as the implementation and comparing exactly; the implementation is also compared with an "
        "independent property-level oracle (NumPy / brute force)")
_TB = "Trusted: Coq 8.16.1 kernel + vm_compute; harness generators/comparators and the Python->Coq literal printer; "

CLAIMED = {
    "C01": _c("Reference semantics of the program language in Gallina (coq/theories/ProgSem*.v: eval : prog -> option ndarr for the "
              "integer subset of the public API — indexing, transpose, elementwise with broadcasting, concat/stack, broadcast_to, flip, "
              "roll, take, repeat, diff, reshape, 9 reductions, scans; None exactly where NumPy raises) with theorems for ALL programs "
              "(coq/Properties/C01.v: well-formedness, advertised-shape rule = computed shape, every operation reads in bounds, rechunk is "
              "the identity, the pushdown laws slice/slice, slice/elemwise (with broadcasting), slice/transpose, slice/concat, slice/reduce, "
              "transpose/transpose, flip = negative-step slice); tied on every run: Coq checks by vm_compute that eval p = NumPy's result "
              "and pshape p = the shape dask_array advertises, for generated programs (and eval p = None for malformed ones); the whole "
              "API surface (core generator + 60 further API calls, harness/apicalls.py) is compared with NumPy by execution with shrinking "
              "(proof-partial: dtype, floats and the ops outside the subset are decided by execution only).",
              "5/C01", _TB + "NumPy is the oracle; programs outside the modelled fragment are checked by execution only.",
              "Coq reference semantics + laws, tied by vm_compute against NumPy and dask_array; differential execution over generated programs"),
    "C13": _c("Unbounded Coq theorems about Gallina models of normalize_slice, fuse_slice (scalar and tuple), _compose_slices, "
              "_slice_1d, new_blockdim (coq/Properties/C13.v: selection preserved; plan partitions the selected positions in "
              "order, pieces inside blocks, chunk sizes = piece lengths; for all axis lengths, chunkings incl. zero-length "
              "chunks, both step signs); " + _TIE + ".",
              "5/C13", _TB + "CPython slice.indices/range transcription (PyBase.v) is validated by the correspondence. "
              "Basic indices only (no list/bool fancy indices); N-D lifting of fuse_slice with None/int entries is checked "
              "by correspondence, proved element-wise.",
              "Coq proof over Gallina model + differential correspondence (vm_compute) against the Python helpers"),
    "C15": _c("Coq theorems about a Gallina model of plan_rechunk and the old->new crosswalk (coq/Properties/C15.v): every "
              "returned plan is a list of layouts of the shape ending in the target, no step exceeds the block budget (for "
              "ALL values of the float-derived oracle choices), the crosswalk tiles every new block exactly (zero-size "
              "chunks included), and the boolean checker run on the implementation's crosswalk is sound; " + _TIE + ".",
              "5/C15", _TB + "float-derived choices (np.log sort key, ceil(log/log), round(..**..)) are recorded from the "
              "implementation run by shadowing sorted/round/math in the module namespace and passed to the model as oracle "
              "arguments; float floor/ceil assumed exact on the generated domain. 'plan_rechunk never raises' is checked, "
              "not proved.",
              "Coq proof over Gallina model of the planner (oracle arguments) + differential correspondence"),
    "C16": _c("Coq theorems about Gallina models of normalize_chunks/auto_chunks/blockdims_from_blockshape AND of the previous_chunks "
              "branch of auto_chunks (coq/theories/AutoPrev*.v: multiplier / proposal rounds on explicit fuel, float proposals as oracle "
              "arguments) (coq/Properties/C16.v, 24 obligations): every accepted spec yields a valid layout for all oracle values; uniform "
              "sizes; zero chunks only on empty axes unless written explicitly (refuted clause = known finding F4); auto byte limit under the "
              "explicit k-th-root oracle hypothesis; previous_chunks branch: valid layouts, fixed axes untouched, the byte bound limit x "
              "tolerance under a checkable condition on the recorded proposals (refuted for zero-size previous chunks: finding C16-P1), "
              "TERMINATION with an explicit fuel bound on safe inputs and a refutation for negative entries (the NaN multiplier never "
              "settles: findings C16-P2 / C14-F26); " + _TIE + " (every real call runs under a recorder with a pass cap and a time limit).",
              "5/C16", _TB + "the float `size` of auto_chunks and the per-pass proposals of the previous_chunks branch are oracle "
              "arguments recorded from the running code (sys.settrace); recorded complex / infinite floats are outside the model.",
              "Coq proof over Gallina model (incl. termination) + differential correspondence"),
    "C17": _c("Coq theorems about Gallina models of common_blockdim, coarse_blockdim, moved_fraction AND the per-index decision "
              "procedure of unify_chunks_expr (coq/theories/UnifyDecide.v: policy selection, cost-aware refusal of merges, realignment "
              "of interleaved layouts, size guard; float cost comparisons and set order are oracle arguments) (coq/Properties/C17.v): the "
              "refine layout is the finest common refinement, only splits and never grows a block; every decided layout is an operand's "
              "layout or the common refinement (never invented) and has the axis length; under ANY policy with a non-zero limit no "
              "operand's largest block grows beyond max(limit, its own largest block) (limit 0 refuted: finding C17-L0); the realignment "
              "choice is not stable under reversal (refuted: root cause of finding F33); " + _TIE + "; the real unify_chunks_expr is "
              "compared exactly with the model on exhaustive small + generated operand sets x 3 policies x limits.",
              "5/C17", _TB + "float costs are modelled as exact rationals (cases within 1e-9 of a tie are skipped: 0 so far); nan chunk "
              "sizes are modelled in UnknownChunks.v (C28), not here.",
              "Coq proof over Gallina models of the helpers and of the decision layer + exact differential correspondence"),
}


def _is_placeholder(pid):
    import re
    path = os.path.join(HERE, "coq", "Properties", pid + ".v")
    if not os.path.exists(path):
        return True
    names = re.findall(r"^\s*(?:Theorem|Lemma|Corollary|Example)\s+(\w+)", open(path).read(), flags=re.M)
    return bool(names) and all("placeholder" in n for n in names)


_EXEC = "differential execution of generated programs (harness/progs.py) against NumPy / the implementation's own raw form"
CLAIMED.update({
    "C02": _c("Expression calculus in Coq (coq/theories/NdArray.v, ExprRules.v): an `expr` type mirroring the real expression classes with "
              "a denotation into N-d arrays (index functions, setoid equality aeq) and 28 executable rule functions, each PROVED sound for "
              "all expressions (aeq (den before) (den after), advertised shape preserved, chunks preserved where the rule promises it; "
              "coq/Properties/C02.v, 48 obligations): slice/rechunk/transpose pushdowns through elemwise (incl. where=/out=), transpose, "
              "expand_dims, concatenate, stack, creation ops, broadcast_to, FromArray/Arange (rechunk-into-IO), nested-op fusion, "
              "Elemwise._lower (chunk unification; the unified layout is an oracle argument) and Rechunk._lower. Every rewrite the real "
              "optimizer fires is captured as (rule, before, after) objects from the harness process; instances of modelled rules are "
              "reified into Coq and checked `rule before = Some after` by vm_compute (translation validation); ALL instances are also "
              "validated by executing both sides un-optimized; raw/simplified/lowered/fused forms are compared by value on "
              "position-coded data over the core generator and the API-surface family.",
              "5/C02", _TB + "the raw expression lowered without simplify is the reference semantics (compared with NumPy by C01); rules not "
              "yet modelled (Reshape/MapOverlap/reduction lowerings, sliding-window kernels, shuffle pushdowns, generic Blockwise slice "
              "pushdown) are validated by execution only; partial results of contraction Blockwise nodes are compared as sums over "
              "their block-indexed axes.",
              "Coq rule-soundness theorems + translation validation of every fired rewrite (Coq for modelled rules, execution for all)"),
    "C03": _c("Every advertised key of generated programs is executed and each block's shape/dtype compared with .chunks/.dtype "
              "(optimize-graph on and off); Coq: per-axis theorems that slice chunks equal produced piece lengths (C13) and rechunk "
              "blocks have the requested sizes (C15).", "5/C03", _TB + "N-d and non-slice/rechunk ops are checked by execution only.",
              "Coq per-axis chunk theorems + block-by-block execution check"),
    "C04": _c("Coq-verified graph checker (graph_check_b / keys_okN_b with soundness AND completeness theorems, coq/Properties/C04.v) is "
              "run inside Coq on the reified real task graphs (keys + dependencies, Python topological order as an untrusted certificate); "
              "key grid, definedness, closedness, acyclicity, name stability also checked in Python on every generated program.",
              "5/C04", _TB + "harness/graphs.py reifier (dask GraphNode.dependencies); name equality is a string check in Python.",
              "Coq-verified checker (translation validation of real graphs) + generated programs"),
    "C05": _c("7 entry points x generated programs x follow-on operation compared exactly with x.compute(); name/chunks/dtype preservation "
              "of persisted and dask-optimized collections.", "5/C05", _TB + "protocol model pending in Coq (see evidence level).",
              "differential execution across entry points (Coq protocol model in progress)"),
    "C06": _c("All expression nodes (raw/simplified/lowered/fused) and all executed graph keys of ~1200 programs built in one process over a "
              "shared source pool are registered by name/key with metadata and value fingerprints; a name or key with two fingerprints is "
              "a violation.", "5/C06", _TB + "hash injectivity (tokenize) is assumed.", "in-process name/key collision search (Coq naming model in progress)"),
    "C07": _c("Programs are rebuilt in-process, in fresh interpreters with different PYTHONHASHSEED, and through cloudpickle; name, keys, full "
              "optimized key set, chunks, dtype, Frisky output keys and values compared.", "5/C07", _TB + "untokenizable sources are out of scope.",
              "cross-process / pickle determinism check (Coq naming model in progress)"),
    "C08": _c("Programs that compute from their raw form must simplify/lower/fuse under a watchdog without error; simplify/lower/fuse/optimize "
              "applied twice must keep the name; adversarial rechunk/concat/slice towers.", "5/C08", _TB + "termination measure theorems pending.",
              "watchdog + idempotence check over generated programs"),
    "C09": _c("Histories of build/compute/drop over programs sharing subtrees with planner options switched at every step; values compared with "
              "the history-free NumPy value; Coq: the configuration-dependent planners are value-neutral for every configuration/oracle "
              "(plan steps are layouts of the shape, unified layouts are layouts of the axis).", "5/C09", _TB, "Coq planner-neutrality theorems + history/config exploration"),
    "C10": _c("Coq theorems (coq/Properties/C10.v): for pure tasks every topological order — and every Start/Finish interleaving — computes the "
              "same store; under the per-task premise 'writes only buffers it allocated' sources and dependency values never change and the "
              "heap semantics refines the pure one.  The premise is OBSERVED on the real code for every executed task (fingerprints of all "
              "dependency values and source arrays around each task) in 5 topological orders + a thread pool.", "5/C10",
              _TB + "interleavings inside NumPy kernels are not modelled; the premise is observed, not proved about NumPy.",
              "Coq reduction theorem (confluence/non-interference) + observed per-task premise"),
    "C11": _c("Histories of derivations, assignments (7 key kinds x scalar/array/dask values), ufunc out=, computes: after every step the target "
              "equals the NumPy result, every other live collection its value at derivation, the source ndarray its original.", "5/C11",
              _TB + "identity-returning derivations count as the target (DESIGN F9).", "mutation-history exploration (Coq history model in progress)"),
    "C12": _c("Coq theorems (coq/Properties/C12.v, 49 obligations) about a Gallina model of normalize_index / replace_ellipsis / check_index / "
              "SliceSlicesIntegers layer and chunks, built on C13's per-axis theorems, AND of one-axis integer-list indexing / da.take "
              "(TakeModel.v: bounds check + negative entries, route error / empty slice / identity / Shuffle, grouping into output chunks via "
              "Shuffle._new_chunks, per output block the ordered (input block, local offset) pairs, split tasks): normalisation accepts exactly "
              "NumPy's range, the plan read in output order is [arr[i] for i in idx] for ALL chunkings (zero-size chunks incl.) and index lists, "
              "pairs in bounds, advertised chunks = group sizes summing to len(idx), each output chunk between 1 and the largest input chunk; "
              "'each group ends in one chunk' (shuffle docstring) refuted. " + _TIE + " (basic: layer interpreted; take: route, indexer, "
              "_new_chunks, chunks and the plan read back from the real Shuffle layer compared exactly in Coq); other fancy paths (masks, dask "
              "indices, vindex, blocks) by value against NumPy. fam_element_kinds (scalar index kinds vs NumPy), fam_blocks_multi_list (several list-like block indices must be refused).", "49/C12", _TB + "no array-value model for masks / dask-array indices / "
              "vindex; the merge step's argsort of the take layer is replayed in the harness, not modelled.",
              "Coq proof over Gallina models (basic indexing + take) + exact plan correspondence"),
    "C20": _c("A recording block function placed by map_blocks between generated programs below and 0-3 ops above: every invocation's "
              "chunk-location/array-location/chunk-shape/shape/num-chunks and received block shape compared with the layout at call time.",
              "5/C20", _TB, "instrumented user function over generated programs (Coq block_info model in progress)"),
    "C21": _c("Real __frisky_graph__ records are executed by an in-process executor and compared block by block with __dask_graph__; "
              "completeness, declared deps, shared-seen groups, __frisky_records_chunks__.", "5/C21",
              _TB + "native layers absent: only the generic translation is exercised.", "records executor vs dask graph (Coq flattening model in progress)"),
    "C23": _c("Distributions x generator kinds x chunkings: recompute, rebuild, pickle, and derived programs compared with the same NumPy "
              "function of the one realization.", "5/C23", _TB + "NumPy bit generators are an oracle.", "realization-consistency exploration (Coq seed model in progress)"),
    "C25": _c("Coq theorems about a Gallina model of store's per-block write indices (fuse_slice of region and block slice), one-assignment "
              "equivalence, frame condition, order independence, read-back (coq/Properties/C25.v); " + _TIE + " (recorded writes of a "
              "recording target vs the model).", "5/C25", _TB + "NumPy __setitem__ semantics transcribed and validated by correspondence; "
              "N-d values by execution.", "Coq proof over Gallina model + differential correspondence"),
    "C26": _c("The import graph of /repo/dask_array is REGENERATED from source on every run (translator/importgraph.py -> coq/Generated/"
              "ImportGraph.v) and the closure theorems re-proved: no module runs registration code at import, the manager module is "
              "reachable from no other module (coq/Properties/C26.v); fresh-interpreter import-order matrix observes the chunk manager "
              "after every import and register().", "5/C26", _TB + "translator (Python ast; import-time = module body through if/try/with/"
              "class, not def bodies; refuses dynamic imports); Python import semantics.", "translator-generated Coq model + closure proof + subprocess matrix"),
    "C28": _c("Data-dependent selections: values, compute_chunk_sizes exactness block by block, follow-on operations either raise or equal "
              "NumPy.", "5/C28", _TB, "exploration against NumPy (Coq unknown-size model in progress)"),
    "C29": _c("Recording non-NumPy sources and recording block functions under construction and all metadata accessors / optimize / explain.",
              "5/C29", _TB, "instrumented sources and functions (Coq meta model in progress)"),
})

CLAIMED.update({
    "C18": _c("Coq theorems (coq/Properties/C18.v): partition_all groups are a valid ordered partition; the tree depth reaches a single "
              "block for every admissible log oracle; level-by-level tree evaluation with any fan-in equals the flat fold (1-D: any monoid, "
              "associativity only; N-d grids: commutative monoids / the actual combine-aggregate of sum, prod, mean); per-reduction "
              "homomorphism theorems (sum, prod, min, max, any, all, count_nonzero, mean, NaN variants); single-axis argmin/argmax are "
              "chunking independent; slice-through-reduction index mapping; refuted clauses = known findings; " + _TIE + ".",
              "5/C18", _TB + "exact carriers (Z / Q / option for NaN): IEEE rounding inside a block is outside the model; var/moment positive "
              "theorem not proved (validated by correspondence within 1e-9).", "Coq proof over Gallina model + differential correspondence"),
    "C24": _c("Coq theorems (coq/Properties/C24.v): region chains select exactly NumPy's composed indexing, per-block read requests are "
              "contiguous, disjoint, in bounds and tile the region (N-d cover/uniqueness), storage-aligned read layouts are valid and their "
              "interior boundaries lie on the storage grid; " + _TIE + " through a recording non-NumPy source (every logged request).",
              "5/C24", _TB + "harness/recsrc.py recorder; NaN targets / non-integer storage grids outside the model.",
              "Coq proof over Gallina model + differential correspondence via recording source"),
    "C27": _c("Coq theorems (coq/Properties/C27.v, 74 obligations): moved_fraction in [0,1], zero for identical layouts and pure splits; "
              "per-axis stage quantities and the N-d combination give 0 <= min <= max; same-layout rechunk moves nothing; EVERY class that "
              "overrides transfer_bytes has a Gallina transcription proved well-formed for all non-negative chunkings: rechunk (sum over the "
              "plan's stages), P2P, slice, PartialReduce, Blockwise, the ArrayExpr default, OverlapInternal, Shuffle, Stack, CumReduction, "
              "CumReductionBlelloch, SlidingWindowReduction, MovingWindowReduction (with the zero cases: single block / no exchange / one "
              "source per output chunk; one clause refuted at the model level outside the public API); " + _TIE + "; every node of raw / "
              "optimized / lowered / materialized forms of generated programs and directed streams is compared exactly with the model of "
              "the class that owns its estimate and checked against the property.", "5/C27",
              _TB + "plan stages of plan_rechunk and the shuffle grouping are oracle arguments; CumReduction's max 2(k-1)/k is an exact "
              "rational compared with relative tolerance 2^-36.",
              "Coq proof over Gallina models of every transfer_bytes override + exact differential correspondence + node walk"),
})

CLAIMED.update({
    "C03": _c("Coq (coq/Properties/C03.v, 21 obligations): the ADVERTISED-CHUNKS RULE `pchunks : oracle -> prog -> option layout` of the "
              "reference-semantics programs (ProgChunks.v: slicing = new_blockdim per axis, transpose, expand/squeeze, broadcast_to, flip, "
              "roll, repeat, diff, reductions, cumulative, explicit rechunk, Elemwise / where / stack / concatenate with the unified layout "
              "as a per-node oracle only where operands disagree) is proved to be a layout of the advertised AND of the computed shape for "
              "ALL programs and well-formed oracles, with per-operation exactness lemmas (slice = piece lengths, transpose, concat, flip; "
              "'flip = reversed chunks' refuted for zero-size chunks); plus the earlier per-axis theorems (C13/C15) and rewrite-keeps-chunks. "
              "Tie: for every node of every generated program Coq checks pchunks = the chunks dask_array advertises (the real .chunks of "
              "every node are the oracle table, checked well-formed in Coq); every advertised key of generated + directed + API-surface "
              "programs is executed and each block's shape/dtype compared with .chunks/.dtype. fam_dtype_rules: a dtype list x every percentile / quantile / nanquantile method x the reductions and ufuncs whose advertised dtype is a rule, and expand_dims with axis tuples in every order: blocks executed vs .chunks / .dtype.",
              "21/C03", _TB + "take, reshape, implicit rechunk specs and repeat > 3 are outside pchunks (checked by execution only); nested "
              "concatenation-like nodes over arrays WITHOUT elements are outside the tie (the implementation's all-parts-empty path drops "
              "zero-size chunks on the other axes, the model's concatenate rule keeps them: counted, blocks still executed); the unified "
              "layout is an oracle here (its decision layer is C17's model).", "Coq advertised-chunks rule for all programs + per-node tie + block-by-block execution check"),
    "C05": _c("Coq (coq/Properties/C05.v, 17 obligations): a model of FromGraph's key location (expected key / own key / unique covering "
              "name / error) never maps a block to another block; persist rebuild keeps name/chunks/dtype; RootAlias pins (raw, b) to "
              "(optimized, b) bijectively; all entry points equal execution of the pinned graph.  Tie: synthetic and real persisted layers "
              "go through the real FromGraph / RootAlias classes and are compared with the model in Coq; 7 entry points x generated "
              "programs x follow-on operation compared with x.compute().", "5/C05",
              _TB + "dask's generic optimizer (dask.optimize, known finding F7) is outside the model; chunk SIZES are not modelled "
              "(findings C05-A/B live there).", "Coq protocol model + differential correspondence + entry-point differential"),
    "C06": _c("Coq (coq/Properties/C06.v): a model of how every expression class builds its name/token (stock tokenizer, classes that omit "
              "operands, hand-built Rechunk / FromArray region / Random names, pins); under injective hash hypotheses equal names imply "
              "equal content, the omitted operands are content-irrelevant, and name-keyed caches (registry, lowering cache, graph merge) "
              "never return a different computation for any history.  Tie: every node of all forms of generated programs + operand "
              "probes is reified and Coq checks the model reproduces the equality pattern of real names/tokens; in-process name/key "
              "collision search with value fingerprints.", "5/C06", _TB + "hash injectivity (H_injective) and leaf tokenization are assumed.",
              "Coq naming model (injectivity under hash hypotheses) + correspondence of equality patterns"),
    "C07": _c("Coq (coq/Properties/C07.v): names are functions of tokenizable inputs only (identity-tokenized operands are the documented "
              "exception), __reduce__ round trip keeps name/token.  Tie + exploration: rebuild in-process, in fresh interpreters with "
              "different PYTHONHASHSEED, cloudpickle round trips loaded here and in a fresh interpreter, per-node pickles checked against "
              "the model; name, keys, optimized key set, chunks, dtype, Frisky keys, values compared.", "5/C07", _TB, "Coq naming model + cross-process / pickle determinism check"),
    "C08": _c("Coq (coq/Properties/C08.v, 28 obligations): a linear measure mu strictly decreases for the 18 modelled simplify rules with "
              "monotonicity in every child; lifted to the whole REWRITE SYSTEM (Rewrite.v: rstep = a rule at any position): every step "
              "decreases mu, every rewrite sequence from e is shorter than mu e, rstep is well-founded, `applicable` decides reducibility, "
              "`all_steps` is sound and complete, `simplify_model` (outermost-first sweeps, fuel mu e) only takes steps, always ends in a "
              "normal form and is idempotent; confluence is REFUTED by an API-reachable critical pair (same array, two names).  Tie "
              "(fam_normal_forms): the reified REAL simplify() fixpoint of generated programs must be a model normal form (a model rule that "
              "still applies must be explained by one of the implementation's own gates, replayed: no-block-culled / shared-child / "
              "grid-contract), real rewrite and sweep counts <= mu, real result in `normal_forms raw`.  Exploration: programs that compute "
              "from their raw form must simplify/lower/fuse under a watchdog without error and be idempotent (simplify, lower, fuse, "
              "optimize), incl. rechunk/concat/slice towers, nested unification above view-like nodes, empty selections, API-surface calls. fam_demanding_kernels: window kernels that raise on blocks shorter than their window under map_overlap (one- and two-sided depths, every boundary kind): a slice that computes unoptimized must compute optimized, to the same values.",
              "28/C08", _TB + "the three non-measure-decreasing rules (slice into FromArray, Transpose through Elemwise, Rechunk through "
              "Concatenate), lowering and fusion are covered by the watchdog / idempotence exploration only; the model strategy is not an exact "
              "mirror of Expr.simplify_once (normal forms are compared, not traces).",
              "Coq termination + normal-form theorems for the modelled rewrite system + normal-form tie + watchdog/idempotence exploration"),
    "C09": _c("Coq (coq/Properties/C09.v): for every history of build/materialize/drop and every configuration, cache entries denote what "
              "their name denotes provided lowering preserves denotation (discharged for the rechunk planner and chunk unification by "
              "C15/C17 theorems); the stronger 'lowered FORM is a function of the name' is refuted (= F5).  Tie: the real _LOWER_CACHE "
              "request stream of generated histories is replayed through the model; values of histories with options switched at every "
              "step compared with the history-free NumPy value.", "5/C09", _TB + "traversal order and planners enter as oracles.",
              "Coq cache-invariant theorem + replay of the real lowering cache + history/config exploration"),
    "C11": _c("Coq (coq/Properties/C11.v, 26 obligations): (1) a mutation-history model (collections = pointers to immutable expressions + "
              "derived caches): after any op sequence caches are coherent, no op changes another collection's expression, derived "
              "collections keep the expression captured at derivation, identity-returning derivations alias; 1-D denotation of slice "
              "assignment.  (2) the PER-BLOCK PLAN of setitem_array_expr (SetitemPlan.v: a transcription of normalize_index + "
              "parse_assignment_indices + parse_and_validate_assignment + the block loop, for slices of either sign, integers and one 1-D "
              "integer list, broadcast values): per-axis theorems (a block is untouched iff no indexed position lies in it; else the local "
              "index is in bounds, the value sub-slice [pre, pre+size) is in bounds and local position q is indexed iff loc0+q is; list "
              "entries: last write wins consistently), N-d FRAME for every parsed index (untouched blocks contain no indexed position, "
              "touched ones do, blocks are disjoint), parse yields well-formed indices; the full N-d denotation is proved for untouched "
              "blocks (`_partial`) and DECIDED inside Coq (`den_ok_b`, element-wise NumPy spec) on every agreeing generated case.  Tie: "
              "real histories are replayed (object identity, cache sets, names) against the model; the seven outputs of the real "
              "parse_and_validate_assignment (or its exception) and the Alias / setitem-task arguments of the real SetItem layer are "
              "compared exactly with `parse` / `plan_obs`; after every step the target is compared with NumPy, every other collection "
              "with its value at derivation (masked values included), keys with the current name. out_where_family: ufunc out= / where= with expression operands (fused node), masks broadcasting through size-1 axes.", "26/C11",
              _TB + "the N-d lift of the denotation for touched blocks and the raw-to-parsed slice bridge are not proved (decided per case); "
              "boolean / dask-array indices are outside the plan model (histories compare them with NumPy).",
              "Coq mutation-history model + setitem plan model + exact plan correspondence + history exploration vs NumPy"),
    "C14": _c("Coq (coq/Properties/C14.v, 26 obligations): executing the modelled task-rechunk graph yields blocks whose concatenation is the "
              "input and block j is exactly segment j of the new layout (1-D, any layouts incl. zero-size; rank-2 product version), "
              "single-source blocks are aliases, multi-step plans compose, Rechunk.chunks = normalize_chunks of the merged spec and is a "
              "valid layout for all oracles, balance preserves sums, _validate_rechunk accepts iff shapes agree (nan-aware); " + _TIE + "; "
              "real TasksRechunk layers compared piece by piece.", "5/C14", _TB + "N-d values beyond rank 2 by execution; auto_chunks with "
              "previous_chunks is an oracle.", "Coq proof over Gallina model + differential correspondence"),
    "C20": _c("Coq (coq/Properties/C20.v, 29 obligations): the block_info/block_id payload model (incl. drop_axis/new_axis/chunks=) describes "
              "exactly the grid of the layout at call time (array-location tiles the axis, chunk-shape = interval lengths, block given = "
              "block described); ChunksFreeze lowering restores the frozen layout or refuses; the grid-preservation gate accepts only "
              "chunk-preserving pushdowns; " + _TIE + " (real ArrayValuesDep payloads, ChunksFreeze.lower_once, _preserve_grid_contract); "
              "a recording block function checks every invocation under rewrites above/below.", "5/C20", _TB, "Coq proof over Gallina model + differential correspondence + instrumented function"),
    "C21": _c("Coq (coq/Properties/C21.v, 47 obligations): (1) a compiler-correctness proof of the generic records flattening "
              "(_Flattener/_records): declared deps are exactly the embedded refs, lifted sub-keys are fresh, evaluating the flattened "
              "records equals evaluating the source graph for every topological order, completeness iff the source graph is closed, "
              "shared-seen walks emit each layer once and their union equals one walk; (2) a model of the pure-Python "
              "FusedBlockwiseLayer fast paths (coq/theories/FusedFast.v: probe blocks, the probe-only independence test, analytical / "
              "uniform / site-based / seed-lifting derivations): each fast path is SOUND when the per-block task really is shared with "
              "affine slots / templated seeds for every block, the probe test is INCOMPLETE (refuted: a ragged interior block no probe "
              "sees = finding C21-A), the set of positions the probes cover is characterised exactly and the test is proved sufficient "
              "when every block-dependent literal takes on the covered positions all the values it takes.  Tie: real layers are reified "
              "and Coq checks flatten(input) = real records structurally; for every FusedBlockwise node the real probes, the derivation "
              "results and the set of blocks whose fast record differs from the slow one are compared with the model; real records are "
              "executed and compared block by block with __dask_graph__.", "5/C21",
              _TB + "native Rust layers absent (generic translation + the pure-Python fused layer only); _walk_sites is an observed "
              "field (hypothesis fuse_wf, checked as a boolean on real families).",
              "Coq compiler-correctness proof + fast-path model + structural correspondence + records executor"),
    "C23": _c("Coq (coq/Properties/C23.v): RNG seed-derivation state machine: a node's per-block seeds are fixed at construction, derived "
              "programs are functions of that realization, successive arrays get disjoint seeds, pickle carries the seeds.  Tie: real "
              "per-block SeedSequences compared with the model; recompute / rebuild / pickle / derived programs compared with the same "
              "NumPy function of the one realization.", "5/C23", _TB + "NumPy bit generators are an oracle; RandomState path on the Python side only.",
              "Coq seed-derivation model + correspondence + realization-consistency exploration"),
    "C28": _c("Coq (coq/Properties/C28.v, 38 obligations): nan-aware models of _validate_rechunk, old_to_new on unknown axes, the blockdim "
              "functions, the slicing guard and ChunksOverride: guards refuse or preserve 'advertised known sizes are true sizes'; "
              "compute_chunk_sizes is exact; " + _TIE + "; data-dependent selections and follow-on operations compared with NumPy.",
              "5/C28", _TB, "Coq proof over Gallina model + differential correspondence + exploration vs NumPy"),
    "C29": _c("Coq (coq/Properties/C29.v, 19 obligations): meta_from_array requests an empty selection for every shape with ndim >= 1 (one "
              "element for 0-d sources: refuted clause = F31), compute_meta calls the function once on empty arguments under stated "
              "hypotheses; " + _TIE + " (recorded requests of recording array-likes/functions); recording sources and block functions "
              "under construction, all metadata accessors, optimize, explain.", "5/C29", _TB + "the parametricity statement is about a toy "
              "metadata language (true by construction, said so).", "Coq meta model + differential correspondence + instrumented sources"),
})

CLAIMED.update({
    "C19": _c("Coq (coq/Properties/C19.v, 38 obligations, no bounds): sequential and Blelloch block scans equal the scan of the concatenated "
              "blocks for every monoid and every block count (the general up-sweep/down-sweep invariant is proved), native sliding-window "
              "and moving-window banded kernels equal the NumPy window definition for every supported (chunks, window) (associative + "
              "commutative op: a hypothesis the proof forced, true of every reducer in the table), sliding chunks are a valid layout, "
              "ensure_minimum_chunksize contract, overlap blocks are windows of the padded array, trim is the inverse, map_overlap of a "
              "radius-r stencil equals the global stencil for all five boundary kinds (1-D); " + _TIE + " (block plans, chunks, Blelloch "
              "wiring read back from the real layer).  DIFF / GRADIENT (DiffGrad.v): da.diff (repeated r[1:] - r[:-1] with prepend/append) "
              "= the NumPy definition = the signed-binomial closed form, with length max(0, len - n); the gradient PLAN (guard on every "
              "chunk >= edge_order + 1, map_overlap depth 1 boundary none, per-block np.gradient kernel, trim) = numpy.gradient of the whole "
              "array, proved generically over the kernels and instantiated for unit spacing (integers, twice the gradient), scalar spacing "
              "h in Q and coordinate arrays (NumPy's non-uniform second-order formulas in Q), edge_order 1 and 2; the guard only rejects "
              "(without it the pipeline still equals NumPy wherever NumPy is defined); array_locs coordinate windows = block + halo.  Tie: "
              "real MapOverlap node (depth, boundary, chunks), block ids / kwargs recorded by wrapping _gradient_kernel, extended and trimmed "
              "blocks and exact values compared with the model inside Coq; sliced results and several axes by value. fam_sliced_results (a slice of a windowed / scan result = that slice of the full result; directed near both ends for every boundary kind), fam_overlap_2d (depths on either / both axes, a boundary kind per axis, NumPy padded oracle), fam_sliding_multi_axis (several axes, repeated axis), fam_scan_variants (nancumsum / nancumprod, masked cumsum / cumprod).", "38/C19",
              _TB + "models are per axis (N-d = lanes along the axis); NumPy's shortcut for equally spaced coordinate arrays and the "
              "edge_order / varargs validation are not modelled; non-power-of-two spacings are compared within 1e-9 of the exact Q value.", "Coq proof over Gallina model + differential correspondence"),
})

NOT_APPLICABLE = {
    "C22": "native Rust layers cannot be built or run here (pyo3 0.29 and build crates absent from the offline cargo cache, no prebuilt _rust*.so), so no model of them can be tied to the code",
}

PENDING_REASON = "check not built yet in this session (planned in DESIGN.md section 5); not claimed until its Coq model, theorems and correspondence exist"


def main():
    ids = [json.loads(l)["id"] for l in open(os.path.join(HERE, "properties.jsonl"))]
    checks = []
    for pid in ids:
        if pid in CLAIMED:
            c = CLAIMED[pid]
            checks.append({
                "property_id": pid,
                "quick_cmd": f"./check {pid} --tier quick",
                "thorough_cmd": f"./check {pid} --tier thorough",
                "evidence_file": f"/verif/evidence/{pid}.json",
                "replay_cmd_template": f"./check {pid} --replay {{path}}",
                "engine": "coq+correspondence",
                "level_claimed": {"category": "exploration" if _is_placeholder(pid) else "proof", "text": c["text"], "design_ref": c["design"]},
                "level_note": c["note"],
                "technique": c["technique"],
            })
    na = []
    for pid in ids:
        if pid in CLAIMED:
            continue
        na.append({"property_id": pid, "reason": NOT_APPLICABLE.get(pid, PENDING_REASON)})
    m = {
        "version": 1,
        "setup_cmd": "./setup.sh",
        "hooks": {
            "guard": "DASK_ARRAY_VERIF",
            "enable": "no source hooks are needed: all instrumentation wraps dask_array objects from the harness process (checks export DASK_ARRAY_VERIF=1 for uniformity)",
            "baseline_off_cmd": "cd /repo && /venv/bin/python -m pytest -ra -q -p no:cacheprovider --timeout=900 --continue-on-collection-errors",
            "source_commits": [],
            "add_only": True,
        },
        "engines": [{
            "name": "coq+correspondence",
            "path": "/verif/check",
            "serves_properties": sorted(CLAIMED),
            "kind_free_text": "Coq 8.16.1 development (coq/) with one Properties/<id>.v per property; harness/<id>.py runs the implementation and the Gallina model (vm_compute inside coqc) on the same inputs and the implementation against NumPy",
        }],
        "checks": checks,
        "not_applicable": na,
        "notes": "fix: commits in /repo are listed in known_findings.json (status=fixed). See DESIGN.md.",
    }
    with open(os.path.join(HERE, "MANIFEST.json"), "w") as f:
        json.dump(m, f, indent=1)
    print("claimed", len(checks), "not_applicable", len(na))


if __name__ == "__main__":
    main()
