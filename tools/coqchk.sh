#!/bin/bash
# tools/coqchk.sh: re-check every compiled property file and everything it depends on with Coq's independent checker and
# print the axioms they rely on (about 2-3 minutes, ~2 GB).  Output is kept in coq/coqchk.txt.
cd "$(dirname "$0")/../coq" || exit 2
make -j"$(nproc)" >/dev/null 2>&1 || { echo "build failed"; exit 1; }
timeout 3000 coqchk -silent -o -R theories DA -R Properties DA.Properties -R Generated DA.Generated \
  $(ls Properties/*.v | sed 's#Properties/\(.*\)\.v#DA.Properties.\1#') 2>&1 | tee coqchk.txt
