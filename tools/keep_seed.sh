#!/bin/bash
# keep_seed.sh <worktree> <k> <name> "<detected-by text>"
WT=$1; K=$2; NAME=$3; DET=$4
D=/verif/seeded/$NAME; mkdir -p $D
cp $WT/seed${K}.diff $D/patch.diff; cp $WT/seed${K}_demo.py $D/demo.py
python3 - "$WT/seed${K}_meta.json" "$D/meta.json" "$DET" <<'PY'
import json,sys
m=json.load(open(sys.argv[1])); m["confirmed"]="demo exits 0 on the unchanged tree and non-zero with the patch (tools/try_seed.sh); existing test suite passes with the patch (run by the authoring agent)"; m["checks"]=sys.argv[3]
json.dump(m,open(sys.argv[2],"w"),indent=1)
PY
