#!/bin/bash
# run every claimed check once (quick tier) and validate evidence files
cd "$(dirname "$0")/.."
TIER=${1:-quick}
for id in $(python3 -c "import json; print(' '.join(c['property_id'] for c in json.load(open('MANIFEST.json'))['checks']))"); do
  s=$(date +%s)
  out=$(./check $id --tier $TIER 2>&1); rc=$?
  e=$(date +%s)
  seen=$(echo "$out" | grep '^KNOWN-FINDING' | sed -E 's/^KNOWN-FINDING: property=[A-Z0-9]+ ([^ ]+) .*/\1/' | sort -u | tr '\n' ' ')
  unseen=$(python3 -c "
import json,sys
k=json.load(open('known_findings.json')); L=k['findings'] if isinstance(k,dict) else k
seen=set(sys.argv[2].split())
print(' '.join(sorted({f['id'] for f in L if f['property']==sys.argv[1] and f['status']=='known'}-seen)))" $id "$seen")
  echo "$id rc=$rc $((e-s))s $(echo "$out" | grep -c '^KNOWN-FINDING') known; $(echo "$out" | grep -E '^VIOLATION' | head -2 | tr '\n' ' ')${unseen:+ listed-known-not-seen-this-run: $unseen}"
done
python3-vt - <<'PY'
import json, jsonschema, glob
sch = json.load(open('/root/.vp/EVIDENCE.schema.json'))
m = json.load(open('MANIFEST.json'))
jsonschema.validate(m, json.load(open('/root/.vp/MANIFEST.schema.json')))
for c in m['checks']:
    try:
        jsonschema.validate(json.load(open(c['evidence_file'])), sch)
    except Exception as e:
        print("EVIDENCE INVALID", c['property_id'], str(e)[:200])
print("validated")
PY
