#!/bin/bash
# recheck_seed.sh <seed-name> [check ids...]: apply seeded/<name>/patch.diff to /repo, run the checks (default: the seed's property), undo.
NAME=$1; shift; IDS=${@:-${NAME%%-*}}
cd /verif; git -C /repo apply /verif/seeded/$NAME/patch.diff || { echo "$NAME: patch does not apply"; exit 2; }
SAVE=$(mktemp -d /var/tmp/verif-evidence-save.XXXXXX)
for id in $IDS; do cp evidence/$id.json $SAVE/ 2>/dev/null; out=$(timeout 2400 ./check $id 2>&1); rc=$?; echo "$NAME $id rc=$rc $(echo "$out" | grep -c '^VIOLATION') violation line(s) $(echo "$out" | grep -o 'no-failing-input-found' | head -1) | $(echo "$out" | tail -1 | cut -c1-150)"; done
git -C /repo checkout -q -- .; cp $SAVE/*.json evidence/ 2>/dev/null; rm -rf $SAVE
