#!/usr/bin/env python3
"""integrate.py <agent-verif-dir> <PID> [<PID>...]: copy the new coq files named in the agent's _CoqProject,
the harness modules of the given properties (+ extra harness files given as --harness a.py,b.py), and merge known findings."""
import json, os, shutil, sys
src = sys.argv[1]
pids = [a for a in sys.argv[2:] if not a.startswith("--")]
extra = [a.split("=", 1)[1].split(",") for a in sys.argv[2:] if a.startswith("--harness=")]
extra = extra[0] if extra else []
V = "/verif"
mine = [l.strip() for l in open(f"{V}/coq/_CoqProject") if l.strip()]
theirs = [l.strip() for l in open(f"{src}/coq/_CoqProject") if l.strip()]
new = [l for l in theirs if l not in mine and not l.startswith("-")]
for l in new:
    os.makedirs(os.path.dirname(f"{V}/coq/{l}"), exist_ok=True)
    shutil.copy(f"{src}/coq/{l}", f"{V}/coq/{l}")
# property files may be replaced (placeholders)
for p in pids:
    f = f"coq/Properties/{p}.v"
    if os.path.exists(f"{src}/{f}"):
        shutil.copy(f"{src}/{f}", f"{V}/{f}")
    h = f"harness/{p.lower()}.py"
    if os.path.exists(f"{src}/{h}"):
        shutil.copy(f"{src}/{h}", f"{V}/{h}")
for h in extra:
    shutil.copy(f"{src}/harness/{h}", f"{V}/harness/{h}")
# theories before Properties: insert new theory lines before the first Properties line
props = [l for l in new if l.startswith("Properties/")]
ths = [l for l in new if not l.startswith("Properties/")]
out = []
inserted = False
for l in mine:
    if l.startswith("Properties/") and not inserted:
        out += ths
        inserted = True
    out.append(l)
if not inserted:
    out += ths
out += props
open(f"{V}/coq/_CoqProject", "w").write("\n".join(out) + "\n")
a = json.load(open(f"{src}/known_findings.json"))
d = json.load(open(f"{V}/known_findings.json"))
have = {json.dumps(e.get("match"), sort_keys=True) + e["property"] for e in d["findings"]}
ids = {e["id"] for e in d["findings"]}
for e in a["findings"]:
    if e["property"] in pids and json.dumps(e.get("match"), sort_keys=True) + e["property"] not in have:
        if e["id"] in ids and not any(x["id"] == e["id"] and x["property"] == e["property"] for x in d["findings"]) \
                and not e["id"].startswith(e["property"]) and e["id"] not in ("F10", "F11", "F13", "F17"):
            e["id"] = e["property"] + "-" + e["id"]
        d["findings"].append(e)
        print("finding", e["id"], e["property"], e.get("match"))
json.dump(d, open(f"{V}/known_findings.json", "w"), indent=1)
print("new coq files:", new)
