#!/usr/bin/env python3
"""Mutation sweep (evaluation tool, not a registered check).

  mutants.py gen  <out.json> [--per N] [--seed S]    single-token mutants of the anchored functions (TARGETS)
  mutants.py run  <mutants.json> <results.jsonl> <worker-dir> <i> <n>   worker i of n: applies mutant k (k % n == i) to the
                  worker's OWN copy of the repository (<worker-dir>/repo) and runs `./check <ID>` of the worker's own copy
                  of /verif (<worker-dir>/verif) with VERIF_REPO pointing at the repo copy; one JSON line per mutant
  mutants.py tests <mutants.json> <results.jsonl> <worker-dir>           for the survivors: run the anchored file's own tests

Nothing here touches /repo or /verif/evidence: workers live under /var/tmp and are removed afterwards."""
import ast
import io
import json
import os
import random
import subprocess
import sys
import tokenize

REPO = os.environ.get("VERIF_REPO", "/repo")
CAP = 16

# file -> [(function / class.method names or "*" , [property ids])]
TARGETS = {
    "dask_array/_rechunk.py": [(["plan_rechunk", "find_merge_rechunk", "find_split_rechunk", "_bound_degree", "_max_overlap", "merge_to_number",
                                 "divide_to_width", "_largest_block_size", "_number_of_blocks", "estimate_graph_size"], ["C15"]),
                               (["old_to_new", "_intersect_1d", "_breakpoints", "intersect_chunks"], ["C15", "C14"]),
                               (["_compute_rechunk", "_validate_rechunk", "_choose_rechunk_method"], ["C14"]),
                               (["_rechunk_stage_transfer"], ["C27"])],
    "dask_array/slicing/_utils.py": [(["normalize_index", "_slice_1d", "new_blockdim", "fuse_slice", "normalize_slice", "check_index",
                                        "posify_index", "_sanitize_index_element", "sanitize_index"], ["C13", "C12"])],
    "dask_array/slicing/_basic.py": [(["_compose_slices", "slice_slices_and_integers", "slice_array", "slice_wrap_lists", "take"], ["C13", "C12"])],
    "dask_array/_core_utils.py": [(["normalize_chunks", "auto_chunks", "_calculate_new_chunksizes", "round_to", "_convert_int_chunk_to_tuple",
                                     "blockdims_from_blockshape"], ["C16"]),
                                  (["common_blockdim"], ["C17", "C28"])],
    "dask_array/_expr.py": [(["unify_chunks_expr", "coarse_blockdim", "moved_fraction"], ["C17"])],
    "dask_array/reductions/_reduction.py": [(["_build_tree_reduce_expr", "_normalize_split_every", "PartialReduce._layer", "PartialReduce.chunks",
                                               "_accept_slice_impl"], ["C18"])],
    "dask_array/reductions/_common.py": [(["mean_combine", "moment_combine", "mean_agg", "moment_agg", "moment_chunk", "mean_chunk"], ["C18"])],
    "dask_array/reductions/_sliding_window.py": [(["*"], ["C19"])],
    "dask_array/reductions/_cumulative.py": [(["*"], ["C19"])],
    "dask_array/_overlap.py": [(["trim_internal", "_trim", "boundaries", "periodic", "reflect", "nearest", "constant", "_get_overlap_rechunked_chunks",
                                  "ensure_minimum_chunksize", "coerce_depth", "coerce_boundary", "OverlapInternal._layer", "OverlapInternal.chunks"], ["C19"])],
    "dask_array/io/_store.py": [(["store", "load_store_chunk", "load_chunk", "insert_to_ooc"], ["C25"])],
    "dask_array/io/_from_array.py": [(["FromArray._accept_slice", "FromArray._layer", "FromArray._accept_rechunk", "FromArray._source_storage_chunks",
                                        "FromArray._with_chunks", "FromArray.chunks"], ["C24"])],
    "dask_array/_map_blocks.py": [(["map_blocks", "_pass_extra_kwargs", "block_info_dict", "_get_block_info"], ["C20"])],
    "dask_array/_frisky/graph_records.py": [(["*"], ["C21"])],
    "dask_array/_frisky/collect.py": [(["_walk_records", "_walk_record_chunks", "_check_complete"], ["C21"])],
    "dask_array/random/_expr.py": [(["Random._info", "_spawn_bitgens", "_apply_random", "Random._layer"], ["C23"])],
    "dask_array/slicing/_setitem.py": [(["setitem_array_expr", "parse_and_validate_assignment"], ["C11"])],
}

SWAPS = {"<": ["<="], "<=": ["<"], ">": [">="], ">=": [">"], "==": ["!="], "!=": ["=="], "+": ["-"], "-": ["+"],
         "and": ["or"], "or": ["and"], "min": ["max"], "max": ["min"], "True": ["False"], "False": ["True"],
         "0": ["1"], "1": ["0", "2"], "2": ["1", "3"], "//": ["%"], "*": ["+"], "is": [], "not": [],
         "any": ["all"], "all": ["any"], "+=": ["-="], "-=": ["+="]}


def spans(path, names):
    src = open(path).read()
    tree = ast.parse(src)
    out = []
    for node in ast.walk(tree):
        if isinstance(node, (ast.FunctionDef, ast.AsyncFunctionDef)):
            q = node.name
            out.append((q, node))
        if isinstance(node, ast.ClassDef):
            for sub in node.body:
                if isinstance(sub, (ast.FunctionDef, ast.AsyncFunctionDef)):
                    out.append((f"{node.name}.{sub.name}", sub))
    res = []
    for q, node in out:
        if "*" in names or q in names or q.split(".")[-1] in [n for n in names if "." not in n] and "." not in q:
            # skip the docstring
            body0 = node.body[0]
            start = node.lineno
            if isinstance(body0, ast.Expr) and isinstance(getattr(body0, "value", None), ast.Constant) and isinstance(body0.value.value, str):
                start = body0.end_lineno + 1
            res.append((q, start, node.end_lineno, node.lineno))
    return res


def gen(out, per, seed):
    rng = random.Random(seed)
    muts = []
    for rel, groups in TARGETS.items():
        path = os.path.join(REPO, rel)
        if not os.path.exists(path):
            print("missing", rel)
            continue
        src = open(path).read()
        toks = list(tokenize.generate_tokens(io.StringIO(src).readline))
        for names, pids in groups:
            sp = [x for x in spans(path, names) if x[0].split(".")[-1] not in ("_meta", "transfer_bytes", "__dask_tokenize__", "_name", "__init__", "_info_str")]
            group = []
            for q, lo, hi, defline in sp:
                cands = []
                for t in toks:
                    if t.start[0] < lo or t.start[0] > hi:
                        continue
                    if t.type in (tokenize.OP, tokenize.NAME, tokenize.NUMBER) and SWAPS.get(t.string):
                        # skip decorators / default args / annotations on the def line
                        if t.start[0] <= defline:
                            continue
                        cands.append(t)
                rng.shuffle(cands)
                for t in cands[:per]:
                    new = rng.choice(SWAPS[t.string])
                    group.append({"file": rel, "func": q, "line": t.start[0], "col": t.start[1], "old": t.string, "new": new, "pids": pids,
                                 "text": src.splitlines()[t.start[0] - 1].strip()[:120]})
            rng.shuffle(group)
            muts.extend(sorted(group[:CAP], key=lambda m: (m["line"], m["col"])))
    for i, m in enumerate(muts):
        m["k"] = i
    json.dump(muts, open(out, "w"), indent=0)
    print(len(muts), "mutants")


def apply(repo, m):
    path = os.path.join(repo, m["file"])
    lines = open(path).read().split("\n")
    l = lines[m["line"] - 1]
    assert l[m["col"]:m["col"] + len(m["old"])] == m["old"], (m, l)
    lines[m["line"] - 1] = l[:m["col"]] + m["new"] + l[m["col"] + len(m["old"]):]
    open(path, "w").write("\n".join(lines))


def run(mfile, results, wdir, i, n):
    muts = json.load(open(mfile))
    repo, verif = f"{wdir}/repo", f"{wdir}/verif"
    done = set()
    if os.path.exists(results):
        done = {json.loads(l)["k"] for l in open(results)}
    env = dict(os.environ, VERIF_REPO=repo)
    for m in muts:
        if m["k"] % n != i or m["k"] in done:
            continue
        subprocess.run(["git", "-C", repo, "checkout", "-q", "--", "."], check=True)
        apply(repo, m)
        ok = subprocess.run(["/venv/bin/python", "-m", "py_compile", os.path.join(repo, m["file"])], capture_output=True).returncode == 0
        rec = dict(m)
        if not ok:
            rec["outcome"] = "syntax"
        else:
            rec["checks"] = {}
            for pid in m["pids"]:
                try:
                    p = subprocess.run(["./check", pid], cwd=verif, env=env, capture_output=True, text=True, timeout=1500)
                    last = (p.stdout.strip().splitlines() or [""])[-1][:200]
                    rec["checks"][pid] = {"rc": p.returncode, "last": last, "viol": p.stdout.count("\nVIOLATION") + p.stdout.startswith("VIOLATION"),
                                          "nfi": "no-failing-input-found" in p.stdout}
                except subprocess.TimeoutExpired:
                    rec["checks"][pid] = {"rc": "timeout", "last": "", "viol": 0, "nfi": False}
                if rec["checks"][pid]["rc"] not in (0,):
                    break
            rec["outcome"] = "caught" if any(c["rc"] != 0 for c in rec["checks"].values()) else "survived"
        with open(results, "a") as f:
            f.write(json.dumps(rec) + "\n")
    subprocess.run(["git", "-C", repo, "checkout", "-q", "--", "."], check=True)


def tests(mfile, results, wdir):
    """for survivors: does the repository's own test suite (the files that mention the module, else everything) kill the mutant?"""
    repo = f"{wdir}/repo"
    recs = [json.loads(l) for l in open(results)]
    out = results.replace(".jsonl", "") + ".tests.jsonl"
    done = set()
    if os.path.exists(out):
        done = {json.loads(l)["k"] for l in open(out)}
    for r in recs:
        if r["outcome"] != "survived" or r["k"] in done:
            continue
        subprocess.run(["git", "-C", repo, "checkout", "-q", "--", "."], check=True)
        apply(repo, r)
        p = subprocess.run(["/venv/bin/python", "-m", "pytest", "-q", "-p", "no:cacheprovider", "-x", "-n", "8", "--timeout=900",
                            "--deselect", "dask_array/tests/test_xarray.py"], cwd=repo, env=dict(os.environ, PYTHONPATH=repo),
                           capture_output=True, text=True)
        tail = (p.stdout.strip().splitlines() or [""])[-1][:200]
        with open(out, "a") as f:
            f.write(json.dumps({"k": r["k"], "tests_rc": p.returncode, "tail": tail, **{x: r[x] for x in ("file", "func", "line", "old", "new", "text", "pids")}}) + "\n")
    subprocess.run(["git", "-C", repo, "checkout", "-q", "--", "."], check=True)


if __name__ == "__main__":
    cmd = sys.argv[1]
    if cmd == "gen":
        per = int(sys.argv[sys.argv.index("--per") + 1]) if "--per" in sys.argv else 3
        seed = int(sys.argv[sys.argv.index("--seed") + 1]) if "--seed" in sys.argv else 0
        gen(sys.argv[2], per, seed)
    elif cmd == "run":
        run(sys.argv[2], sys.argv[3], sys.argv[4], int(sys.argv[5]), int(sys.argv[6]))
    elif cmd == "tests":
        tests(sys.argv[2], sys.argv[3], sys.argv[4])
