#!/bin/bash
# try_seed.sh <worktree> <k> <ID> [more IDs...]: confirm seed k of a scratch worktree (demo passes on clean, fails with patch),
# then apply it to a scratch CLONE of /repo (VERIF_REPO), run the given checks against it, and remove the clone (use this one while other jobs read /repo).
WT=$1; K=$2; shift 2
cd $WT || exit 2
git checkout -q -- . 
echo "== demo on unchanged worktree"; PYTHONPATH=$WT /venv/bin/python seed${K}_demo.py >/tmp/seed_demo_clean.log 2>&1; echo "exit=$? $(tail -1 /tmp/seed_demo_clean.log)"
git apply seed${K}.diff || { echo "patch does not apply in worktree"; exit 2; }
echo "== demo on changed worktree"; PYTHONPATH=$WT /venv/bin/python seed${K}_demo.py >/tmp/seed_demo_changed.log 2>&1; echo "exit=$? $(tail -1 /tmp/seed_demo_changed.log | cut -c1-200)"
git checkout -q -- .
R=/var/tmp/seedrepo; rm -rf $R; git clone -q /repo $R; git -C $R apply $WT/seed${K}.diff || { echo "patch does not apply to the clone of /repo"; exit 2; }; export VERIF_REPO=$R
cd /verif
SAVE=$(mktemp -d /var/tmp/verif-evidence-save.XXXXXX)
for id in "$@"; do
  cp evidence/$id.json $SAVE/ 2>/dev/null     # evidence must describe runs on the UNCHANGED tree: put it back afterwards
  out=$(./check $id 2>&1); rc=$?
  echo "== check $id rc=$rc: $(echo "$out" | grep -E '^VIOLATION' | head -2 | tr '\n' ' ') $(echo "$out" | tail -1)"
  echo "$out" | grep "violation classes" | cut -c1-400
done
rm -rf $R
cp $SAVE/*.json evidence/ 2>/dev/null; rm -rf $SAVE

