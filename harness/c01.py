"""C01 — array programs compute what NumPy computes (any chunking)."""
from __future__ import annotations

import json
import warnings

import numpy as np

import progs
from common import Check


def compute(da_arr):
    return da_arr.compute(scheduler="sync")


CORPUS = [
    # F2: slice pushed through a generic (non-pointwise) map_blocks function
    ("F2", ("slice", ("map_blocks", "reverse", ("rechunk", ("src", 0), ((5, 5, 5, 5),)), ((5, 5, 5, 5),)), (slice(None, 3, None),)),
     [(np.arange(20, dtype="int64"), ((5, 5, 5, 5),))]),
]


def run_one(chk, da, prog, sources, want, tag=None):
    ops = progs.ops_in(prog)
    for o in ops:
        chk.count("op:" + o)
    nontrivial = len(progs.all_nodes(prog)) > 1
    chk.case(("prog", progs.show(prog), repr([(s[0].shape, s[1]) for s in sources])), nontrivial=nontrivial,
             sample=progs.describe(prog, sources) if len(progs.all_nodes(prog)) <= 6 else None)

    def attempt(q):
        w = progs.eval_np(q, sources)
        with warnings.catch_warnings():
            warnings.simplefilter("ignore")
            arr = progs.build(q, da, sources)
            got = compute(arr)
        problems = []
        ok, why = progs.values_equal(got, w)
        if not ok:
            problems.append(why)
        if tuple(arr.shape) != tuple(np.shape(w)):
            problems.append(f"advertised shape {arr.shape} != NumPy {np.shape(w)}")
        wd = np.asarray(w).dtype
        if arr.dtype != wd and not (arr.dtype.kind == wd.kind and arr.dtype.kind in "iu" and q[0] in ("reduce",) ):
            problems.append(f"dtype {arr.dtype} != NumPy {wd}")
        return problems, got, w

    def fails(q):
        try:
            return bool(attempt(q)[0])
        except Exception:  # noqa: BLE001
            return True

    try:
        problems, got, w = attempt(prog)
        exc = None
    except Exception as e:  # noqa: BLE001
        problems, exc = [f"raised {type(e).__name__}: {str(e)[:200]}"], e
    if problems:
        small = progs.shrink(prog, sources, fails)
        try:
            sp, sgot, sw = attempt(small)
        except Exception as e:  # noqa: BLE001
            sp, sgot, sw = [f"raised {type(e).__name__}: {str(e)[:200]}"], None, progs.eval_np(small, sources)
        # does the unoptimized graph agree with NumPy?  (localises the fault to the optimizer)
        import dask
        unopt = None
        try:
            with dask.config.set({"array.optimize-graph": False}), warnings.catch_warnings():
                warnings.simplefilter("ignore")
                from dask_array import _materialize
                _materialize._LOWER_CACHE.clear()
                unopt = progs.values_equal(compute(progs.build(small, da, sources, memo={})), sw)[0]
        except Exception:  # noqa: BLE001
            unopt = None
        nonpointwise = any(n[0] == "map_blocks" and n[1] in ("reverse", "plus_blocksum") for n in progs.all_nodes(small))
        cls = "slice-through-nonpointwise-map_blocks" if (nonpointwise and unopt) else ("raises" if "raised" in sp[0] else "wrong-value")
        chk.violation("program result differs from NumPy: " + "; ".join(sp),
                      {**progs.describe(small, sources), "got": np.asarray(sgot).tolist() if sgot is not None and np.size(sgot) <= 64 else None,
                       "want": np.asarray(sw).tolist() if np.size(sw) <= 64 else None, "unoptimized_graph_agrees_with_numpy": unopt,
                       "ops": sorted(progs.ops_in(small))},
                      signature={"class": cls, "root_op": small[0] if small[0] != "reduce" else "reduce:" + small[1]})
    else:
        chk.traces_validated += 1


def replay(path):
    r = json.load(open(path))
    print(json.dumps(r, indent=1))
    print("(programs are printed in S-expression form; re-run ./check with the recorded seed to reproduce)")


def run(chk: Check):
    import dask_array as da
    chk.rule = ("seeded generator of programs over the public API (creation, elemwise+broadcast, transpose, basic/step/negative "
                "slicing, None, rechunk, concatenate/stack, expand/squeeze, reductions incl. arg* and split_every, cumulative "
                "(both methods), map_blocks, broadcast_to, flip, roll, take, sliding_window_view(+reduction), where, repeat, "
                "diff, reshape, astype, map_overlap, boolean mask) with shared subtrees; each is built with dask_array, "
                "computed, and compared (values, shape, dtype) with NumPy on the same integer data; failures are shrunk to "
                "the smallest failing sub-program; non-trivial = more than one node; distinct by printed program + source layouts")
    chk.assumptions = ["NumPy is the oracle; float-producing ops compared with rtol 1e-9"]
    chk.run_proofs()
    for tag, prog, sources in CORPUS:
        run_one(chk, da, prog, sources, progs.eval_np(prog, sources), tag=tag)
    n = 12000 if chk.tier == "thorough" else 500
    for prog, sources, want in progs.gen_programs(chk.rng, n):
        run_one(chk, da, prog, sources, want)
