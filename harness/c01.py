"""C01 — array programs compute what NumPy computes (any chunking)."""
from __future__ import annotations

import json
import warnings

import numpy as np

import progs
from common import Check


def compute(da_arr):
    return da_arr.compute(scheduler="sync")


def _src(shape, chunks, mul=7, add=0, mod=23, off=5, dtype="int64"):
    n = int(np.prod(shape))
    return ((np.arange(n, dtype="int64").reshape(shape) * mul + add) % mod - off).astype(dtype), chunks


S = slice
CORPUS = [
    # F2: slice pushed through a generic (non-pointwise) map_blocks function
    ("F2", ("slice", ("map_blocks", "reverse", ("rechunk", ("src", 0), ((5, 5, 5, 5),)), ((5, 5, 5, 5),)), (S(None, 3, None),)),
     [(np.arange(20, dtype="int64"), ((5, 5, 5, 5),))]),
    # F10: argmax(axis=None) tie-breaking depends on the block grid / tree shape
    ("F10", ("reduce", "argmax", ("src", 0), None, False, 2),
     [((np.arange(16).reshape(4, 4) % 7 - 3).astype("int64"), ((2, 2), (1, 1, 1, 1)))]),
    # F13: sliding-window reduction over an array that has a zero-length axis elsewhere raises
    ("F13", ("swv", ("src", 0), 1, 0, "sum"), [_src((1, 4, 0), ((1,), (2, 1, 1), (0,)))]),
    # F14: sliding-window reduction of a sliding-window reduction raises at lowering (adjust_chunks mismatch)
    ("F11a", ("swv", ("swv", ("src", 0), 2, 0, "max"), 1, 0, "max"),
     [(np.array([[0, 7, 14, -2, 5, 12], [-4, 3, 10, 17, 1, 8]], dtype="int64"), ((1, 1), (5, 1)))]),
    # F15: repeat over take over stack raises at lowering (adjust_chunks mismatch)
    ("F11b", ("repeat", ("take", ("stack", (("src", 0), ("src", 1)), 0), (-1, 3, 3, -4), 2), 2, 2),
     [_src((5, 4), ((3, 2), (1, 1, 1, 1)), add=2), _src((5, 4), ((2, 3), (1, 3)), mul=5, add=2, mod=13, off=6)]),
    # F16: integer-list index (take) of a broadcast_to raises
    ("F16", ("take", ("broadcast_to", ("src", 0), (1, 5)), (0, 1), 1), [(np.array([-1, 6, 13, -3, 4], dtype="int64"), ((2, 3),))]),
    # F17: two stacked sliding-window reductions over different axes compute WRONG VALUES after optimization
    ("F17", ("swv", ("swv", ("elem", "multiply", ("src", 0), ("const", 1)), 3, 0, "min"), 3, 1, "max"),
     [(np.array([[[0], [7], [14], [-2], [5], [12]], [[-4], [3], [10], [17], [1], [8]], [[15], [-1], [6], [13], [-3], [4]]], dtype="int64"),
       ((3,), (5, 1), (1,)))]),
    # F18: reshape over a sliding-window reduction over a reshape raises after optimization
    ("F18", ("reshape", ("swv", ("reshape", ("src", 0), (-1,)), 53, 0, "min"), (1, 12)), [_src((8, 8), ((4, 1, 3), (5, 2, 1)), add=4)]),
    # F19: repeat of an empty array raises
    ("F19", ("repeat", ("src", 0), 3, 0), [(np.zeros((0,), dtype="int64"), ((0,),))]),
    # F20: broadcast_to over a sliding-window reduction: graph misses dependencies (advertised vs produced block grid)
    ("F20", ("broadcast_to", ("swv", ("src", 0), 4, 1, "min"), (2, 5, 1)), [_src((5, 4), ((1, 2, 2), (4,)), add=4)]),
    # F25: reduction of an empty negative-step slice computes a wrongly shaped (1,0) result, advertised/NumPy (0,1)
    ("F25", ("reduce", "max", ("slice", ("src", 0), (S(None), S(None, 2, -2), S(None))), (0,), False, None),
     [(np.array([[[-1], [6]]], dtype="int64"), ((1,), (1, 1), (1,)))]),
    # F20 (silent): broadcast_to over a node whose chunks a rewrite changes -> wrong values
    ("F20w", ("diff", ("elem", "abs", ("broadcast_to", ("diff", ("src", 0), 0), (3, 4))), 1),
     [(np.array([-2, 5, 12, -4, 3], dtype="int64"), ((1, 1, 3),))]),
    # F32: repeat over a zero-size chunk
    ("F32", ("repeat", ("slice", ("src", 0), (S(None, -3, 3),)), 2, 0), [(np.array([-1, 6, 13, -3, 4, 11], dtype="int64"), ((2, 4),))]),
    # F33: consumers that pin their child's advertised grid (sliding-window reduction kernel, low-level reshape) over an elemwise of
    # differently chunked inputs whose unified chunks change when a slice is pushed through it
    ("F33a", ("swv", ("astype", ("flip", ("elem", "maximum", ("T", ("src", 0), (2, 0, 1)), ("src", 1)), 2), "float64"), 2, 0, "max"),
     [_src((6, 4, 3), (6, (1, 3), 3), mul=7, mod=19, off=3), _src((3, 6, 4), (3, 6, (2, 2)), mul=3, add=1, mod=11, off=4)]),
    ("F33b", ("reshape", ("slice", ("where_out", "multiply", ("elem", "multiply", ("src", 0), ("const", 1)), ("src", 0), ("src", 1), ("src", 2)),
                          (S(None, 7, 1),)), (1, 7)),
     [_src((16,), ((15, 1),), mod=19, off=3), (np.arange(16) % 3 > 0, ((16,),)), (np.arange(16, dtype="int64") % 5 - 50, ((1, 15),))]),
    # F33c (C03): view keeps the grid its child advertised; the block values are right, the block SHAPES are not the advertised ones
    ("F33c", ("view", ("where", ("elem", "greater", ("flip", ("diff", ("src", 0), 0), 0), ("const", 0)), ("flip", ("diff", ("src", 0), 0), 0),
                       ("flip", ("diff", ("src", 0), 0), 0)), "uint64", "C"),
     [(np.array([-1, 6, 13, -3, 4, 11, -5, 2], dtype="int64"), ((2, 2, 2, 2),))]),
    # F34: squeeze of a length-1 axis whose layout carries a zero-size chunk
    ("F34", ("squeeze", ("src", 0), 1), [(np.ones((3, 1), dtype="int64"), ((3,), (0, 1)))]),
    # F33d: the tree of an arg reduction is laid out at construction for the advertised block count; a slice pushed through the
    # elemwise below gives MORE blocks and the single PartialReduce(split_every=2) silently drops the rest
    ("F33d", ("reduce", "argmin", ("slice", ("elem", "maximum", ("src", 0), ("src", 1)), (S(1, None, None),)), None, False, 2),
     [(np.array([3, 1, 4, 1, 5, 9, 2], dtype="int64"), ((1, 6),)), (np.array([-2, 7, -1, 8, -2, -8, 10], dtype="int64"), ((2, 1, 4),))]),
    # F37: reshape_blockwise of an all-ones shape keeps its rank
    ("F37", ("call", "reshape_blockwise_merge", (), (("src", 0),)), [(np.array([[[-3]]], dtype="int64"), ((1,), (1,), (1,)))]),
    # F35: pad wider than the axis (wrap / symmetric) is cut short
    ("F35", ("call", "pad", (2, "wrap"), (("src", 0),)), [(np.array([[5]], dtype="int64"), ((1,), (1,)))]),
    # F21: diff over repeat over a concatenate raises NotImplementedError
    ("F21", ("diff", ("repeat", ("concat", (("reduce", "all", ("src", 0), (0,), True, None), ("src", 1)), 0), 2, 0), 0),
     [(np.array([-1, 6, 13], dtype="int64"), ((1, 2),)), (np.array([True, True]), ((1, 1),))]),
]


def unstable_chunks_below(da, prog, sources):
    """does a proper sub-program advertise chunks that optimising it (alone) changes?  (the trigger of finding F33: consumers
    that pinned the advertised grid of such a child break when a later pushdown re-chunks the child)"""
    for q in progs.all_nodes(prog)[1:]:
        if q[0] in ("src", "const", "nparray"):
            continue
        try:
            with warnings.catch_warnings():
                warnings.simplefilter("ignore")
                arr = progs.build(q, da, sources, memo={})
                if hasattr(arr, "expr") and tuple(arr.chunks) != tuple(arr.expr.optimize().chunks):
                    return True
        except Exception:  # noqa: BLE001
            continue
    return False


def run_one(chk, da, prog, sources, want, tag=None):
    ops = progs.ops_in(prog)
    for o in ops:
        chk.count("op:" + o)
    nontrivial = len(progs.all_nodes(prog)) > 1
    chk.case(("prog", progs.show(prog), repr([(s[0].shape, s[1]) for s in sources])), nontrivial=nontrivial,
             sample=progs.describe(prog, sources) if len(progs.all_nodes(prog)) <= 6 else None)

    def attempt(q):
        w = progs.eval_np(q, sources)
        with warnings.catch_warnings():
            warnings.simplefilter("ignore")
            arr = progs.build(q, da, sources)
            got = compute(arr)
        problems = []
        ok, why = progs.values_equal(got, w)
        if not ok:
            problems.append(why)
        if tuple(arr.shape) != tuple(np.shape(w)):
            problems.append(f"advertised shape {arr.shape} != NumPy {np.shape(w)}")
        wd = np.asarray(w).dtype
        if arr.dtype != wd and not (arr.dtype.kind == wd.kind and arr.dtype.kind in "iu" and q[0] in ("reduce",) ):
            problems.append(f"dtype {arr.dtype} != NumPy {wd}")
        return problems, got, w

    def fails(q):
        try:
            return bool(attempt(q)[0])
        except Exception:  # noqa: BLE001
            return True

    try:
        problems, got, w = attempt(prog)
        exc = None
    except Exception as e:  # noqa: BLE001
        problems, exc = [f"raised {type(e).__name__}: {str(e)[:200]}"], e
    if problems:
        small = progs.shrink(prog, sources, fails)
        try:
            sp, sgot, sw = attempt(small)
        except Exception as e:  # noqa: BLE001
            sp, sgot, sw = [f"raised {type(e).__name__}: {str(e)[:200]}"], None, progs.eval_np(small, sources)
        # does the unoptimized graph agree with NumPy?  (localises the fault to the optimizer)
        import dask
        unopt = None
        try:
            with dask.config.set({"array.optimize-graph": False}), warnings.catch_warnings():
                warnings.simplefilter("ignore")
                from dask_array import _materialize
                _materialize._LOWER_CACHE.clear()
                unopt = progs.values_equal(compute(progs.build(small, da, sources, memo={})), sw)[0]
        except Exception:  # noqa: BLE001
            unopt = None
        nonpointwise = any(n[0] == "map_blocks" and n[1] in ("reverse", "plus_blocksum") for n in progs.all_nodes(small))
        cls = "slice-through-nonpointwise-map_blocks" if nonpointwise else ("raises" if "raised" in sp[0] else "wrong-value")
        opname = lambda q: q[0] if q[0] != "reduce" else "reduce:" + q[1]  # noqa: E731
        sig = {"class": cls, "root_op": opname(small), "child_ops": sorted({opname(q) for q in progs.subprograms(small)})}
        sig["has_broadcast_to"] = any(q[0] == "broadcast_to" for q in progs.all_nodes(small))
        sig["zero_length_result"] = bool(np.size(sw) == 0)
        sig["swv_reduction_below_root"] = any(q[0] == "swv" and q[4] is not None for q in progs.all_nodes(small)[1:])
        if small[0] == "call":
            sig["call"] = progs.call_tag(small, sources)
        sig["unoptimized_ok"] = bool(unopt)
        sig["arg_reduction_split_every"] = small[0] == "reduce" and "arg" in small[1] and small[5] is not None
        sig["unstable_chunks_below_root"] = unstable_chunks_below(da, small, sources)
        if cls == "raises":
            import re as _re
            sig["error"] = _re.sub(r"[0-9(),\[\]'-]+", "#", sp[0][len("raised "):])[:36]
        chk.violation("program result differs from NumPy: " + "; ".join(sp),
                      {**progs.describe(small, sources), "got": np.asarray(sgot).tolist() if sgot is not None and np.size(sgot) <= 64 else None,
                       "want": np.asarray(sw).tolist() if np.size(sw) <= 64 else None, "unoptimized_graph_agrees_with_numpy": unopt,
                       "ops": sorted(progs.ops_in(small))},
                      signature=sig)
    else:
        chk.traces_validated += 1


# --------------------------------------------------------------------------
# fam_semantics: the Gallina reference semantics (coq/theories/ProgSem.v) tied to NumPy and to dask_array
SEM_OPS = ["elem2", "elem1", "scalar", "T", "slice", "rechunk", "concat", "stack", "expand", "squeeze", "reduce", "reduce", "reduce",
           "cum", "broadcast_to", "flip", "roll", "take", "where", "repeat", "diff", "reshape"]
SEM_EFUN = {"add": "EAdd", "subtract": "ESub", "multiply": "EMul", "maximum": "EMaximum", "minimum": "EMinimum",
            "negative": "ENeg", "abs": "EAbs", "square": "ESquare", "less": "ELt", "less_equal": "ELe", "greater": "EGt",
            "greater_equal": "EGe", "equal": "EEq", "not_equal": "ENe", "logical_and": "ELogAnd", "logical_or": "ELogOr",
            "logical_not": "ELogNot", "clip": "EClip"}
SEM_RED = {"sum": "RSum", "prod": "RProd", "min": "RMin", "max": "RMax", "any": "RAny", "all": "RAll",
           "count_nonzero": "RCount", "argmin": "RArgmin", "argmax": "RArgmax"}
SEM_HEADER = "From DA Require Import ProgSem.\nOpen Scope Z_scope.\n"
SEM_CASE_TYPE = "nat * prog * list Z * list Z * option (list Z)"
# kind 0: eval p = NumPy's (shape, data) and pshape p = the advertised shape (when dask_array built the program);
# kind 1 / 2: the two halves separately (used to classify a mismatch); kind 3: NumPy raises, eval p = None
SEM_CHECK = ("Definition chk (c : nat * prog * list Z * list Z * option (list Z)) : bool :=\n"
             "  let '(k, p, s, d, adv) := c in\n"
             "  let sh := match adv with Some a => pshape_is p a | None => true end in\n"
             "  match k with O => eval_is p s d && sh | 1 => eval_is p s d | 2 => sh | _ => eval_raises p end%nat.\n")


class OutOfSubset(Exception):
    pass


def _cnats(xs):
    from common import clist, cnat
    return clist(xs, cnat)


def _cpidx(i):
    from common import cz, cslice
    if i is None:
        return "INone"
    if isinstance(i, slice):
        return f"(ISlice {cslice(i)})"
    return f"(IInt {cz(i)})"


def to_coq(prog, sources, npmemo):
    """the program as a ProgSem.prog literal; OutOfSubset when it leaves the integer subset"""
    from common import clist, cz, cnat, cbool

    def val(q):
        return progs.eval_np(q, sources, npmemo)

    def kind(q):
        if q[0] == "const":
            return "pyint"
        return np.asarray(val(q)).dtype.kind

    def nat(a, what="axis"):
        if not isinstance(a, (int, np.integer)) or a < 0:
            raise OutOfSubset(f"negative {what}")
        return cnat(a)

    def rec(q):
        t = q[0]
        if t in ("src", "nparray"):
            data = np.asarray(sources[q[1]][0])
            if data.dtype.kind not in "iub" or data.size > 600:
                raise OutOfSubset("source dtype/size")
            return f"(PSrc {clist(data.shape)} {clist(data.astype('int64').ravel().tolist())})"
        if t == "ones":
            return f"(POnes {clist(q[1])})"
        if t == "arange":
            return f"(PArange {cz(q[1])})"
        if t == "const":
            if not isinstance(q[1], (int, np.integer)) or isinstance(q[1], bool):
                raise OutOfSubset("non-integer scalar")
            return f"(PConst {cz(q[1])})"
        if t == "elem":
            f, args = q[1], q[2:]
            if f not in SEM_EFUN:
                raise OutOfSubset("ufunc " + f)
            kinds = [kind(a) for a in args]
            if any(k not in ("i", "u", "b", "pyint") for k in kinds):
                raise OutOfSubset("float operand")
            name = SEM_EFUN[f]
            if all(k == "b" for k in kinds):
                # NumPy resolves the overloaded ufuncs by dtype: on booleans + is OR and * is AND
                name = {"add": "ELogOr", "multiply": "ELogAnd"}.get(f, name)
                if f in ("subtract", "negative"):
                    raise OutOfSubset("boolean subtract")
            return f"(PElem {name} {clist(args, rec)})"
        if t == "where":
            return f"(PElem EWhere {clist(q[1:], rec)})"
        if t == "T":
            return f"(PT {clist(q[2], nat)} {rec(q[1])})"
        if t == "slice":
            idx = q[2] if isinstance(q[2], tuple) else (q[2],)
            if any(not (i is None or isinstance(i, (int, np.integer, slice))) for i in idx):
                raise OutOfSubset("fancy index")
            return f"(PSlice {clist(idx, _cpidx)} {rec(q[1])})"
        if t == "rechunk":
            ch = q[2]
            ok = isinstance(ch, tuple) and all(isinstance(c, tuple) for c in ch)
            return f"(PRechunk {clist(ch, clist) if ok else '[]'} {rec(q[1])})"
        if t in ("concat", "stack"):
            return f"({'PConcat' if t == 'concat' else 'PStack'} {nat(q[2])} {clist(q[1], rec)})"
        if t == "expand":
            return f"(PExpand {nat(q[2])} {rec(q[1])})"
        if t == "squeeze":
            return f"(PSqueeze {nat(q[2])} {rec(q[1])})"
        if t == "broadcast_to":
            return f"(PBroadcast {clist(q[2])} {rec(q[1])})"
        if t == "flip":
            return f"(PFlip {nat(q[2])} {rec(q[1])})"
        if t == "roll":
            return f"(PRoll {cz(q[2])} {nat(q[3])} {rec(q[1])})"
        if t == "take":
            return f"(PTake {clist(q[2])} {nat(q[3])} {rec(q[1])})"
        if t == "repeat":
            return f"(PRepeat {cz(q[2])} {nat(q[3])} {rec(q[1])})"
        if t == "diff":
            if kind(q[1]) == "b":
                raise OutOfSubset("boolean diff")     # np.diff on booleans is xor
            return f"(PDiff {nat(q[2])} {rec(q[1])})"
        if t == "reshape":
            return f"(PReshape {clist(q[2])} {rec(q[1])})"
        if t == "reduce":
            _, f, sub, axis, keepdims, _se = q
            if f not in SEM_RED:
                raise OutOfSubset("reduction " + f)
            if axis is None:
                ax = "None"
            else:
                ax = "(Some " + clist(axis if isinstance(axis, tuple) else (axis,), nat) + ")"
            return f"(PReduce {SEM_RED[f]} {ax} {cbool(bool(keepdims))} {rec(sub)})"
        if t == "cum":
            _, f, sub, axis, _method = q
            return f"(PCum {'CSum' if f == 'cumsum' else 'CProd'} {nat(axis)} {rec(sub)})"
        raise OutOfSubset("op " + t)

    return rec(prog)


def _np_literal(w):
    from common import clist
    w = np.asarray(w)
    return clist(w.shape), clist(w.astype("int64").ravel().tolist())


def gen_malformed(rng, prog, v):
    """one INVALID operation on top of a valid program of value v (NumPy must raise)"""
    nd = v.ndim
    shape = v.shape
    kinds = ["T", "slice_many", "slice_int", "slice_step0", "expand", "squeeze", "broadcast", "axis", "take", "repeat",
             "reshape", "reduce_axis", "reduce_dup", "reduce_empty", "concat", "stack", "elem"]
    k = rng.choice(kinds)
    other = ("ones", tuple(n + 1 + rng.randint(0, 1) for n in shape) or (2,), None)
    if k == "T" and nd >= 1:
        axes = list(range(nd))
        if rng.random() < 0.5:
            axes[rng.randrange(nd)] = (axes[0] + 1) % max(nd, 2) if nd > 1 else 1
        else:
            axes = axes + [nd]
        if sorted(axes) == list(range(nd)):
            axes = axes[:-1] if nd > 1 else [1]
        return ("T", prog, tuple(axes))
    if k == "slice_many":
        return ("slice", prog, tuple([slice(None)] * nd + [rng.choice([0, slice(None)])]))
    if k == "slice_int" and nd >= 1:
        ax = rng.randrange(nd)
        idx = [slice(None)] * nd
        idx[ax] = rng.choice([shape[ax], shape[ax] + 2, -shape[ax] - 1])
        return ("slice", prog, tuple(idx))
    if k == "slice_step0" and nd >= 1:
        idx = [slice(None)] * nd
        idx[rng.randrange(nd)] = slice(None, None, 0)
        return ("slice", prog, tuple(idx))
    if k == "expand":
        return ("expand", prog, nd + 1 + rng.randint(0, 1))
    if k == "squeeze" and nd >= 1:
        bad = [i for i, n in enumerate(shape) if n != 1] + [nd]
        return ("squeeze", prog, rng.choice(bad))
    if k == "broadcast":
        tgt = list(shape)
        if nd and rng.random() < 0.6:
            i = rng.randrange(nd)
            tgt[i] = shape[i] + 1 if shape[i] != 1 else 0 if False else shape[i] + 1
            if shape[i] == 1:
                tgt = tgt[1:] if nd > 1 else [-2]
        else:
            tgt = tgt[1:] if nd > 1 else [-1]
        return ("broadcast_to", prog, tuple(tgt))
    if k == "axis":
        op = rng.choice(["flip", "roll", "cum", "diff", "repeat", "take"])
        ax = nd + rng.randint(0, 1)
        return {"flip": ("flip", prog, ax), "roll": ("roll", prog, 1, ax), "cum": ("cum", "cumsum", prog, ax, "sequential"),
                "diff": ("diff", prog, ax), "repeat": ("repeat", prog, 2, ax), "take": ("take", prog, (0,), ax)}[op]
    if k == "take" and nd >= 1:
        ax = rng.randrange(nd)
        return ("take", prog, (0, rng.choice([shape[ax], -shape[ax] - 1]))[::rng.choice([1, -1])] if shape[ax] else (0,), ax)
    if k == "repeat" and nd >= 1:
        return ("repeat", prog, -rng.randint(1, 2), rng.randrange(nd))
    if k == "reshape":
        n = int(v.size)
        return ("reshape", prog, rng.choice([(n + 1,), (2, -1) if n % 2 else (3, -1) if n % 3 else (n + 1, -1), (-1, -1), (0, -1)]))
    if k == "reduce_axis":
        f = rng.choice(["sum", "max", "any", "argmax", "prod"])
        return ("reduce", f, prog, nd + rng.randint(0, 1), False, None)
    if k == "reduce_dup" and nd >= 1:
        a = rng.randrange(nd)
        return ("reduce", rng.choice(["sum", "min", "all"]), prog, (a, a), False, None)
    if k == "reduce_empty" and nd >= 1:
        ax = rng.randrange(nd)
        idx = [slice(None)] * nd
        idx[ax] = slice(shape[ax], None)
        f = rng.choice(["max", "min", "argmax", "argmin"])
        return ("reduce", f, ("slice", prog, tuple(idx)), ax if f.startswith("arg") else (ax,), False, None)
    if k == "concat" and nd >= 1:
        if rng.random() < 0.3:
            return ("concat", (prog, prog), nd)
        ax = rng.randrange(nd)
        if nd == 1 or rng.random() < 0.3:
            return ("concat", (prog, ("ones", shape + (1,), None)), ax)
        return ("concat", (prog, other)[::rng.choice([1, -1])], ax)
    if k == "stack":
        if rng.random() < 0.3:
            return ("stack", (prog, prog), nd + 1)
        return ("stack", (prog, other)[::rng.choice([1, -1])], rng.randint(0, nd))
    if k == "elem" and nd >= 1 and all(n not in (1,) for n in shape):
        bad = ("ones", tuple(n + 2 for n in shape), None)
        return ("elem", rng.choice(["add", "maximum", "multiply"]), *((prog, bad)[::rng.choice([1, -1])]))
    return None


def fam_semantics(chk, da):
    """the Gallina evaluator `eval` and shape rule `pshape` (ProgSem.v) against NumPy and dask_array"""
    from common import coq_eval_cases, clist
    thorough = chk.tier == "thorough"
    cases, meta = [], []

    def skip(why):
        chk.count("sem:skipped:" + why.split(" ")[0])

    pool = []
    for prog, sources, want in progs.gen_programs(chk.rng, 4000 if thorough else 360, ops=SEM_OPS):
        npmemo = {}
        w = np.asarray(want)
        if w.dtype.kind not in "iub":
            skip("float")
            continue
        try:
            lit = to_coq(prog, sources, npmemo)
        except OutOfSubset as e:
            skip(str(e))
            continue
        if len(lit) > 40000:
            skip("large")
            continue
        for o in progs.ops_in(prog):
            chk.count("sem:op:" + o)
        chk.count("sem:programs")
        shp, dat = _np_literal(w)
        if len(pool) < (600 if thorough else 120) and len(lit) < 4000:
            pool.append((prog, sources, w, lit))
        # dask_array: the shape it ADVERTISES before computing anything (C03) against pshape, then its computed result
        try:
            with warnings.catch_warnings():
                warnings.simplefilter("ignore")
                arr = progs.build(prog, da, sources)
                adv = tuple(int(n) for n in arr.shape)
                got = compute(arr)
            agree = progs.values_equal(got, w)[0] and tuple(np.shape(got)) == w.shape
        except Exception:  # noqa: BLE001
            arr, adv, agree = None, None, False
        cases.append(f"(0%nat, {lit}, {shp}, {dat}, {'None' if adv is None else '(Some ' + clist(adv) + ')'})")
        meta.append(("eval-vs-numpy+pshape-vs-advertised", prog, sources, w, adv, (lit, shp, dat)))
        if adv is not None:
            chk.count("sem:advertised_shape_checked")
            if adv != w.shape:
                chk.count("sem:advertised_shape_differs_from_numpy")
        if agree:
            # NumPy's result is also dask_array's: the Coq check of case 0 covers both
            chk.count("sem:dask_agrees")
            chk.traces_validated += 1
            chk.case(("sem", progs.show(prog), repr([(s[0].shape, s[1]) for s in sources])), nontrivial=len(progs.all_nodes(prog)) > 1)
        else:
            # dask_array disagrees with NumPy (or raises): the existing comparison shrinks and reports it (C01 violation / known finding)
            chk.count("sem:dask_disagrees")
            run_one(chk, da, prog, sources, want)
    # malformed programs: one invalid operation on top of a valid program; NumPy raises <-> eval is None
    n_bad = 0
    for prog, sources, w, _lit in pool:
        for _ in range(2):
            bad = gen_malformed(chk.rng, prog, w)
            if bad is None:
                continue
            try:
                with np.errstate(all="ignore"):
                    progs.eval_np(bad, sources, {})
                chk.count("sem:malformed:numpy_accepts")     # the mutation happened to be valid
                continue
            except (ValueError, IndexError, TypeError) as e:
                kind = type(e).__name__
            try:
                lit = to_coq(bad, sources, {})
            except OutOfSubset as e:
                skip("malformed-" + str(e))
                continue
            cases.append(f"(3%nat, {lit}, [], [], None)")
            meta.append(("eval-none-vs-numpy-raises", bad, sources, kind, None, (lit, "[]", "[]")))
            chk.count("sem:malformed:" + bad[0])
            n_bad += 1
            try:
                with warnings.catch_warnings():
                    warnings.simplefilter("ignore")
                    barr = progs.build(bad, da, sources, memo={})
                    bgot = compute(barr)
                opname = bad[0] if bad[0] != "reduce" else "reduce:" + bad[1]
                chk.count("sem:malformed:dask_accepts:" + opname)
                if tuple(np.shape(bgot)) != tuple(barr.shape):
                    # NumPy raises, dask_array computes something whose shape is not even the one it advertised
                    chk.violation(f"NumPy raises {kind}; dask_array computes shape {np.shape(bgot)} but advertised {tuple(barr.shape)}",
                                  {**progs.describe(bad, sources), "numpy": kind, "advertised": list(barr.shape),
                                   "computed_shape": list(np.shape(bgot))},
                                  signature={"class": "numpy-raises-dask-misshapen", "root_op": opname,
                                             "zero_length_result": bool(np.size(bgot) == 0)})
            except Exception:  # noqa: BLE001
                chk.count("sem:malformed:dask_raises")
            chk.case(("sem-bad", progs.show(bad), repr([(s[0].shape, s[1]) for s in sources])), nontrivial=True)
    mism, _log = coq_eval_cases(SEM_HEADER, SEM_CASE_TYPE, SEM_CHECK, cases, chunk=400 if thorough else 150)
    chk.count("sem:coq_cases", len(cases))
    # classify the (rare) mismatches: which half of a combined case failed
    again, again_meta = [], []
    for i in mism:
        kind, prog, sources, w, adv, (lit, shp, dat) = meta[i]
        if kind.startswith("eval-vs-numpy"):
            again.append(f"(1%nat, {lit}, {shp}, {dat}, None)")
            again_meta.append(("eval-vs-numpy", i))
            if adv is not None:
                again.append(f"(2%nat, {lit}, [], [], (Some {clist(adv)}))")
                again_meta.append(("pshape-vs-advertised", i))
        else:
            chk.tie_break("ProgSem." + kind, {**progs.describe(prog, sources), "coq": cases[i][:3000], "numpy": w})
    bad2, _log = coq_eval_cases(SEM_HEADER, SEM_CASE_TYPE, SEM_CHECK, again, chunk=50)
    for j in bad2:
        what, i = again_meta[j]
        kind, prog, sources, w, adv, _lits = meta[i]
        if what == "pshape-vs-advertised":
            # the advertised shape is not the reference semantics' (= NumPy's) shape
            chk.violation("advertised shape differs from the reference semantics' shape",
                          {**progs.describe(prog, sources), "advertised": list(adv), "numpy_shape": list(w.shape)},
                          signature={"class": "advertised-shape", "root_op": prog[0] if prog[0] != "reduce" else "reduce:" + prog[1]})
        else:
            chk.tie_break("ProgSem.eval-vs-numpy", {**progs.describe(prog, sources), "coq": again[j][:3000],
                                                    "numpy": {"shape": list(w.shape), "data": w.ravel().tolist()[:200]}})
    chk.extra["semantics_family"] = {"programs": chk.hist.get("sem:programs", 0), "malformed": n_bad, "coq_cases": len(cases),
                                     "model_mismatches": len(mism)}


def replay(path):
    r = json.load(open(path))
    print(json.dumps(r, indent=1))
    print("(programs are printed in S-expression form; re-run ./check with the recorded seed to reproduce)")


def run(chk: Check):
    import dask_array as da
    chk.rule = ("seeded generator of programs over the public API (creation, elemwise+broadcast, transpose, basic/step/negative "
                "slicing, None, rechunk, concatenate/stack, expand/squeeze, reductions incl. arg* and split_every, cumulative "
                "(both methods), map_blocks, broadcast_to, flip, roll, take, sliding_window_view(+reduction), where, repeat, "
                "diff, reshape, astype, map_overlap, boolean mask) with shared subtrees; each is built with dask_array, "
                "computed, and compared (values, shape, dtype) with NumPy on the same integer data; failures are shrunk to "
                "the smallest failing sub-program; non-trivial = more than one node; distinct by printed program + source layouts.  "
                "fam_semantics: programs of the integer subset are printed as ProgSem.prog literals and Coq checks by vm_compute that "
                "eval p = Some (NumPy's shape, data) (= dask_array's computed result when the comparison above passes), that "
                "pshape p is the shape dask_array advertises before computing, and that eval is None on malformed programs where "
                "NumPy raises")
    chk.assumptions = ["NumPy is the oracle; float-producing ops compared with rtol 1e-9"]
    chk.run_proofs()
    for tag, prog, sources in CORPUS:
        run_one(chk, da, prog, sources, progs.eval_np(prog, sources), tag=tag)
    for fam in (progs.misaligned_take, progs.diag_equal_counts, progs.arange_fftfreq, progs.slice_chain):
        for _ in range(300 if chk.tier == "thorough" else 30):
            prog, sources, want = fam(chk.rng)
            run_one(chk, da, prog, sources, want)
    n = 12000 if chk.tier == "thorough" else 1500
    for prog, sources, want in progs.gen_programs(chk.rng, n):
        run_one(chk, da, prog, sources, want)
    # the wider API surface (harness/apicalls.py: outer/tensordot/einsum, reshape_blockwise, TSQR, quantiles, pad, topk,
    # histogram, insert/delete, block, coarsen, apply_along_axis, periodic map_overlap + slice, ...), round-robin over the table
    import random as _random
    api_rng = _random.Random(f"{chk.pid}-api-family-{chk.seed}")      # own stream: the families above keep theirs
    for prog, sources, want in progs.gen_api_programs(api_rng, 6000 if chk.tier == "thorough" else 600):
        chk.count("api-call:" + next(q[1] for q in progs.all_nodes(prog) if q[0] == "call"))
        run_one(chk, da, prog, sources, want)
    fam_semantics(chk, da)
