"""C01 — array programs compute what NumPy computes (any chunking)."""
from __future__ import annotations

import json
import warnings

import numpy as np

import progs
from common import Check


def compute(da_arr):
    return da_arr.compute(scheduler="sync")


def _src(shape, chunks, mul=7, add=0, mod=23, off=5, dtype="int64"):
    n = int(np.prod(shape))
    return ((np.arange(n, dtype="int64").reshape(shape) * mul + add) % mod - off).astype(dtype), chunks


S = slice
CORPUS = [
    # F2: slice pushed through a generic (non-pointwise) map_blocks function
    ("F2", ("slice", ("map_blocks", "reverse", ("rechunk", ("src", 0), ((5, 5, 5, 5),)), ((5, 5, 5, 5),)), (S(None, 3, None),)),
     [(np.arange(20, dtype="int64"), ((5, 5, 5, 5),))]),
    # F10: argmax(axis=None) tie-breaking depends on the block grid / tree shape
    ("F10", ("reduce", "argmax", ("src", 0), None, False, 2),
     [((np.arange(16).reshape(4, 4) % 7 - 3).astype("int64"), ((2, 2), (1, 1, 1, 1)))]),
    # F13: sliding-window reduction over an array that has a zero-length axis elsewhere raises
    ("F13", ("swv", ("src", 0), 1, 0, "sum"), [_src((1, 4, 0), ((1,), (2, 1, 1), (0,)))]),
    # F14: sliding-window reduction of a sliding-window reduction raises at lowering (adjust_chunks mismatch)
    ("F11a", ("swv", ("swv", ("src", 0), 2, 0, "max"), 1, 0, "max"),
     [(np.array([[0, 7, 14, -2, 5, 12], [-4, 3, 10, 17, 1, 8]], dtype="int64"), ((1, 1), (5, 1)))]),
    # F15: repeat over take over stack raises at lowering (adjust_chunks mismatch)
    ("F11b", ("repeat", ("take", ("stack", (("src", 0), ("src", 1)), 0), (-1, 3, 3, -4), 2), 2, 2),
     [_src((5, 4), ((3, 2), (1, 1, 1, 1)), add=2), _src((5, 4), ((2, 3), (1, 3)), mul=5, add=2, mod=13, off=6)]),
    # F16: integer-list index (take) of a broadcast_to raises
    ("F16", ("take", ("broadcast_to", ("src", 0), (1, 5)), (0, 1), 1), [(np.array([-1, 6, 13, -3, 4], dtype="int64"), ((2, 3),))]),
    # F17: two stacked sliding-window reductions over different axes compute WRONG VALUES after optimization
    ("F17", ("swv", ("swv", ("elem", "multiply", ("src", 0), ("const", 1)), 3, 0, "min"), 3, 1, "max"),
     [(np.array([[[0], [7], [14], [-2], [5], [12]], [[-4], [3], [10], [17], [1], [8]], [[15], [-1], [6], [13], [-3], [4]]], dtype="int64"),
       ((3,), (5, 1), (1,)))]),
    # F18: reshape over a sliding-window reduction over a reshape raises after optimization
    ("F18", ("reshape", ("swv", ("reshape", ("src", 0), (-1,)), 53, 0, "min"), (1, 12)), [_src((8, 8), ((4, 1, 3), (5, 2, 1)), add=4)]),
    # F19: repeat of an empty array raises
    ("F19", ("repeat", ("src", 0), 3, 0), [(np.zeros((0,), dtype="int64"), ((0,),))]),
    # F20: broadcast_to over a sliding-window reduction: graph misses dependencies (advertised vs produced block grid)
    ("F20", ("broadcast_to", ("swv", ("src", 0), 4, 1, "min"), (2, 5, 1)), [_src((5, 4), ((1, 2, 2), (4,)), add=4)]),
    # F25: reduction of an empty negative-step slice computes a wrongly shaped (1,0) result, advertised/NumPy (0,1)
    ("F25", ("reduce", "max", ("slice", ("src", 0), (S(None), S(None, 2, -2), S(None))), (0,), False, None),
     [(np.array([[[-1], [6]]], dtype="int64"), ((1,), (1, 1), (1,)))]),
    # F20 (silent): broadcast_to over a node whose chunks a rewrite changes -> wrong values
    ("F20w", ("diff", ("elem", "abs", ("broadcast_to", ("diff", ("src", 0), 0), (3, 4))), 1),
     [(np.array([-2, 5, 12, -4, 3], dtype="int64"), ((1, 1, 3),))]),
    # F32: repeat over a zero-size chunk
    ("F32", ("repeat", ("slice", ("src", 0), (S(None, -3, 3),)), 2, 0), [(np.array([-1, 6, 13, -3, 4, 11], dtype="int64"), ((2, 4),))]),
    # F33: consumers that pin their child's advertised grid (sliding-window reduction kernel, low-level reshape) over an elemwise of
    # differently chunked inputs whose unified chunks change when a slice is pushed through it
    ("F33a", ("swv", ("astype", ("flip", ("elem", "maximum", ("T", ("src", 0), (2, 0, 1)), ("src", 1)), 2), "float64"), 2, 0, "max"),
     [_src((6, 4, 3), (6, (1, 3), 3), mul=7, mod=19, off=3), _src((3, 6, 4), (3, 6, (2, 2)), mul=3, add=1, mod=11, off=4)]),
    ("F33b", ("reshape", ("slice", ("where_out", "multiply", ("elem", "multiply", ("src", 0), ("const", 1)), ("src", 0), ("src", 1), ("src", 2)),
                          (S(None, 7, 1),)), (1, 7)),
     [_src((16,), ((15, 1),), mod=19, off=3), (np.arange(16) % 3 > 0, ((16,),)), (np.arange(16, dtype="int64") % 5 - 50, ((1, 15),))]),
    # F33c (C03): view keeps the grid its child advertised; the block values are right, the block SHAPES are not the advertised ones
    ("F33c", ("view", ("where", ("elem", "greater", ("flip", ("diff", ("src", 0), 0), 0), ("const", 0)), ("flip", ("diff", ("src", 0), 0), 0),
                       ("flip", ("diff", ("src", 0), 0), 0)), "uint64", "C"),
     [(np.array([-1, 6, 13, -3, 4, 11, -5, 2], dtype="int64"), ((2, 2, 2, 2),))]),
    # F34: squeeze of a length-1 axis whose layout carries a zero-size chunk
    ("F34", ("squeeze", ("src", 0), 1), [(np.ones((3, 1), dtype="int64"), ((3,), (0, 1)))]),
    # F33d: the tree of an arg reduction is laid out at construction for the advertised block count; a slice pushed through the
    # elemwise below gives MORE blocks and the single PartialReduce(split_every=2) silently drops the rest
    ("F33d", ("reduce", "argmin", ("slice", ("elem", "maximum", ("src", 0), ("src", 1)), (S(1, None, None),)), None, False, 2),
     [(np.array([3, 1, 4, 1, 5, 9, 2], dtype="int64"), ((1, 6),)), (np.array([-2, 7, -1, 8, -2, -8, 10], dtype="int64"), ((2, 1, 4),))]),
    # F35: pad wider than the axis (wrap / symmetric) is cut short
    ("F35", ("call", "pad", (2, "wrap"), (("src", 0),)), [(np.array([[5]], dtype="int64"), ((1,), (1,)))]),
    # F21: diff over repeat over a concatenate raises NotImplementedError
    ("F21", ("diff", ("repeat", ("concat", (("reduce", "all", ("src", 0), (0,), True, None), ("src", 1)), 0), 2, 0), 0),
     [(np.array([-1, 6, 13], dtype="int64"), ((1, 2),)), (np.array([True, True]), ((1, 1),))]),
]


def unstable_chunks_below(da, prog, sources):
    """does a proper sub-program advertise chunks that optimising it (alone) changes?  (the trigger of finding F33: consumers
    that pinned the advertised grid of such a child break when a later pushdown re-chunks the child)"""
    for q in progs.all_nodes(prog)[1:]:
        if q[0] in ("src", "const", "nparray"):
            continue
        try:
            with warnings.catch_warnings():
                warnings.simplefilter("ignore")
                arr = progs.build(q, da, sources, memo={})
                if hasattr(arr, "expr") and tuple(arr.chunks) != tuple(arr.expr.optimize().chunks):
                    return True
        except Exception:  # noqa: BLE001
            continue
    return False


def run_one(chk, da, prog, sources, want, tag=None):
    ops = progs.ops_in(prog)
    for o in ops:
        chk.count("op:" + o)
    nontrivial = len(progs.all_nodes(prog)) > 1
    chk.case(("prog", progs.show(prog), repr([(s[0].shape, s[1]) for s in sources])), nontrivial=nontrivial,
             sample=progs.describe(prog, sources) if len(progs.all_nodes(prog)) <= 6 else None)

    def attempt(q):
        w = progs.eval_np(q, sources)
        with warnings.catch_warnings():
            warnings.simplefilter("ignore")
            arr = progs.build(q, da, sources)
            got = compute(arr)
        problems = []
        ok, why = progs.values_equal(got, w)
        if not ok:
            problems.append(why)
        if tuple(arr.shape) != tuple(np.shape(w)):
            problems.append(f"advertised shape {arr.shape} != NumPy {np.shape(w)}")
        wd = np.asarray(w).dtype
        if arr.dtype != wd and not (arr.dtype.kind == wd.kind and arr.dtype.kind in "iu" and q[0] in ("reduce",) ):
            problems.append(f"dtype {arr.dtype} != NumPy {wd}")
        return problems, got, w

    def fails(q):
        try:
            return bool(attempt(q)[0])
        except Exception:  # noqa: BLE001
            return True

    try:
        problems, got, w = attempt(prog)
        exc = None
    except Exception as e:  # noqa: BLE001
        problems, exc = [f"raised {type(e).__name__}: {str(e)[:200]}"], e
    if problems:
        small = progs.shrink(prog, sources, fails)
        try:
            sp, sgot, sw = attempt(small)
        except Exception as e:  # noqa: BLE001
            sp, sgot, sw = [f"raised {type(e).__name__}: {str(e)[:200]}"], None, progs.eval_np(small, sources)
        # does the unoptimized graph agree with NumPy?  (localises the fault to the optimizer)
        import dask
        unopt = None
        try:
            with dask.config.set({"array.optimize-graph": False}), warnings.catch_warnings():
                warnings.simplefilter("ignore")
                from dask_array import _materialize
                _materialize._LOWER_CACHE.clear()
                unopt = progs.values_equal(compute(progs.build(small, da, sources, memo={})), sw)[0]
        except Exception:  # noqa: BLE001
            unopt = None
        nonpointwise = any(n[0] == "map_blocks" and n[1] in ("reverse", "plus_blocksum") for n in progs.all_nodes(small))
        cls = "slice-through-nonpointwise-map_blocks" if nonpointwise else ("raises" if "raised" in sp[0] else "wrong-value")
        opname = lambda q: q[0] if q[0] != "reduce" else "reduce:" + q[1]  # noqa: E731
        sig = {"class": cls, "root_op": opname(small), "child_ops": sorted({opname(q) for q in progs.subprograms(small)})}
        sig["has_broadcast_to"] = any(q[0] == "broadcast_to" for q in progs.all_nodes(small))
        sig["zero_length_result"] = bool(np.size(sw) == 0)
        sig["swv_reduction_below_root"] = any(q[0] == "swv" and q[4] is not None for q in progs.all_nodes(small)[1:])
        if small[0] == "call":
            sig["call"] = progs.call_tag(small, sources)
        sig["unoptimized_ok"] = bool(unopt)
        sig["arg_reduction_split_every"] = small[0] == "reduce" and "arg" in small[1] and small[5] is not None
        sig["unstable_chunks_below_root"] = unstable_chunks_below(da, small, sources)
        if cls == "raises":
            import re as _re
            sig["error"] = _re.sub(r"[0-9(),\[\]'-]+", "#", sp[0][len("raised "):])[:36]
        chk.violation("program result differs from NumPy: " + "; ".join(sp),
                      {**progs.describe(small, sources), "got": np.asarray(sgot).tolist() if sgot is not None and np.size(sgot) <= 64 else None,
                       "want": np.asarray(sw).tolist() if np.size(sw) <= 64 else None, "unoptimized_graph_agrees_with_numpy": unopt,
                       "ops": sorted(progs.ops_in(small))},
                      signature=sig)
    else:
        chk.traces_validated += 1


def replay(path):
    r = json.load(open(path))
    print(json.dumps(r, indent=1))
    print("(programs are printed in S-expression form; re-run ./check with the recorded seed to reproduce)")


def run(chk: Check):
    import dask_array as da
    chk.rule = ("seeded generator of programs over the public API (creation, elemwise+broadcast, transpose, basic/step/negative "
                "slicing, None, rechunk, concatenate/stack, expand/squeeze, reductions incl. arg* and split_every, cumulative "
                "(both methods), map_blocks, broadcast_to, flip, roll, take, sliding_window_view(+reduction), where, repeat, "
                "diff, reshape, astype, map_overlap, boolean mask) with shared subtrees; each is built with dask_array, "
                "computed, and compared (values, shape, dtype) with NumPy on the same integer data; failures are shrunk to "
                "the smallest failing sub-program; non-trivial = more than one node; distinct by printed program + source layouts")
    chk.assumptions = ["NumPy is the oracle; float-producing ops compared with rtol 1e-9"]
    chk.run_proofs()
    for tag, prog, sources in CORPUS:
        run_one(chk, da, prog, sources, progs.eval_np(prog, sources), tag=tag)
    for fam in (progs.misaligned_take, progs.diag_equal_counts, progs.arange_fftfreq, progs.slice_chain):
        for _ in range(300 if chk.tier == "thorough" else 30):
            prog, sources, want = fam(chk.rng)
            run_one(chk, da, prog, sources, want)
    n = 12000 if chk.tier == "thorough" else 1500
    for prog, sources, want in progs.gen_programs(chk.rng, n):
        run_one(chk, da, prog, sources, want)
    # the wider API surface (harness/apicalls.py: outer/tensordot/einsum, reshape_blockwise, TSQR, quantiles, pad, topk,
    # histogram, insert/delete, block, coarsen, apply_along_axis, periodic map_overlap + slice, ...), round-robin over the table
    import random as _random
    api_rng = _random.Random(f"{chk.pid}-api-family-{chk.seed}")      # own stream: the families above keep theirs
    for prog, sources, want in progs.gen_api_programs(api_rng, 6000 if chk.tier == "thorough" else 600):
        chk.count("api-call:" + next(q[1] for q in progs.all_nodes(prog) if q[0] == "call"))
        run_one(chk, da, prog, sources, want)
