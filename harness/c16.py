"""C16 — chunk normalization produces valid layouts within the byte limit."""
from __future__ import annotations

import itertools
import math
from fractions import Fraction

import numpy as np

from common import Check, clist, copt, coq_eval_cases, coq_eval_expr, ctuple, cz
from c13 import rand_chunks

HEADER = "From DA Require Import PyBase NormChunks.\nOpen Scope Z_scope.\n"


def cspec(sp):
    if sp is None:
        return "AFull"
    if sp == "auto":
        return "AAuto"
    if isinstance(sp, tuple):
        return f"(ATuple {clist(sp)})"
    return f"(AInt {cz(sp)})"


def cres(out):
    if isinstance(out, str):
        return f"(Err {out})"
    return "(Ok " + clist(out, lambda c: clist(c)) + ")"


def oracle_sizes(specs, shape, limit, itemsize):
    """The float `size` of each auto_chunks recursion level, recomputed the way
    the implementation does (float arithmetic), returned as exact rationals."""
    specs = [s if not (sp is None or sp == -1) else s for sp, s in zip(specs, shape)] if False else list(specs)
    specs = [shape[i] if (sp is None or (isinstance(sp, int) and sp == -1)) else sp for i, sp in enumerate(specs)]
    sizes = []
    limit = max(1, limit)
    for _ in range(len(specs) + 1):
        autos = [i for i, sp in enumerate(specs) if sp == "auto"]
        if not autos:
            break
        try:
            largest = math.prod((sp if not isinstance(sp, tuple) else max(sp)) for sp in specs if sp != "auto")
            size = (limit / itemsize / largest) ** (1 / len(autos))
        except (ZeroDivisionError, ValueError, TypeError, OverflowError):
            break
        if isinstance(size, complex) or size != size or size in (float('inf'), float('-inf')):
            break
        fr = Fraction(size)
        sizes.append((fr.numerator, fr.denominator))
        small = [i for i in autos if shape[i] < size]
        if not small:
            break
        for i in small:
            specs[i] = (shape[i],)
    return sizes


def gen_case(rng):
    rank = rng.choice([1, 1, 2, 2, 3, 4])
    shape = tuple(rng.choice([0, 1, 2, 3, 5, 7, 10, 16, 33, 100, 200]) for _ in range(rank))
    specs = []
    malformed = rng.random() < 0.15
    for n in shape:
        r = rng.random()
        if r < 0.3:
            c = rng.randint(1, max(n, 1) + 2)
            specs.append(c)
        elif r < 0.5:
            specs.append(rand_chunks(rng, n, allow_zero=rng.random() < 0.1))
        elif r < 0.6:
            specs.append(rng.choice([None, -1]))
        elif r < 0.9:
            specs.append("auto")
        else:
            specs.append(max(n, 1))
        if malformed and rng.random() < 0.5:
            k = rng.random()
            if k < 0.3:
                specs[-1] = rng.choice([0, -2, -3, -n - 1])
            elif k < 0.6 and n > 0:
                cs = list(rand_chunks(rng, n))
                cs[rng.randrange(len(cs))] += rng.choice([-1, 1, -n - 1])
                specs[-1] = tuple(cs)
            elif k < 0.8 and n > 1:
                specs[-1] = (n + 1, -1)
            else:
                specs[-1] = ()
    dtype = rng.choice(["u1", "i4", "f8", "c16", "S3"])
    limit = rng.choice([1, 7, 64, 1000, 4096, 10 ** 5, 2 ** 20, 2 ** 30])
    return tuple(specs), shape, dtype, limit


def fam_normalize(chk, NC, tier):
    rng = chk.rng
    inputs = []
    # exhaustive small: rank 1 and 2, axes <= 6 (quick) / 9 (thorough), int/-1/None specs
    top = 9 if tier == "thorough" else 6
    for n in range(0, top + 1):
        for c in list(range(-3, n + 3)) + [None]:
            inputs.append(((c,), (n,), "f8", 10 ** 6))
    for n, m in itertools.product(range(0, 4 if tier == "quick" else 6), repeat=2):
        for c, d in itertools.product([None, -1, 1, 2, 3, "auto"], repeat=2):
            inputs.append(((c, d), (n, m), "i4", rng.choice([4, 16, 64])))
    # corpus: design-phase findings F3, F4
    inputs += [((-3,), (10,), "f8", 100), (((11, -1),), (10,), "f8", 100), (((5, 5, 0),), (10,), "f8", 100)]
    for _ in range(30000 if tier == "thorough" else 2500):
        inputs.append(gen_case(rng))
    cases, kept = [], []
    for specs, shape, dtype, limit in inputs:
        dt = np.dtype(dtype)
        try:
            out = NC(specs, shape=shape, limit=limit, dtype=dt)
            err = None
        except ZeroDivisionError:
            out, err = None, "EZeroDiv"
        except (ValueError, TypeError) as e:
            out, err = None, "EValue"
        has_auto = any(s == "auto" for s in specs)
        chk.count(("auto" if has_auto else "explicit") + (":raises" if err else ""))
        chk.case(("nc", specs, shape, dtype, limit), nontrivial=(err is None and out != tuple((s,) for s in shape)),
                 sample={"fn": "normalize_chunks", "chunks": specs, "shape": shape, "dtype": dtype, "limit": limit,
                         "impl": out if err is None else err})
        if err is None:
            problems = []
            if len(out) != len(shape):
                problems.append("wrong number of axes")
            else:
                for ax, (c, n) in enumerate(zip(out, shape)):
                    if len(c) == 0 or any(x < 0 for x in c) or sum(c) != n:
                        problems.append(f"axis {ax}: {c} is not a layout of length {n}")
                    elif n > 0 and any(x == 0 for x in c):
                        problems.append(f"axis {ax}: zero-size chunk on a non-empty axis {c}")
                    sp = specs[ax]
                    if isinstance(sp, int) and sp > 0 and n > 0:
                        want = (sp,) * (n // sp) + ((n % sp,) if n % sp else ())
                        if tuple(c) != want:
                            problems.append(f"axis {ax}: uniform size {sp} gave {c}")
                if has_auto and not problems:
                    fixed = math.prod(max(c) for c, sp in zip(out, specs) if sp != "auto")
                    block = math.prod(max(c) for c in out)
                    lim = max(1, limit)
                    if block * dt.itemsize > lim and fixed * dt.itemsize <= lim \
                            and any(max(c) > 1 for c, sp in zip(out, specs) if sp == "auto"):
                        problems.append(f"auto block of {block * dt.itemsize} bytes exceeds limit {lim} (fixed axes need {fixed * dt.itemsize})")
            if problems:
                explicit_zero = all("zero-size chunk" in p for p in problems) and \
                    any(isinstance(sp, tuple) and 0 in sp for sp in specs)
                chk.violation("; ".join(problems),
                              {"fn": "normalize_chunks", "chunks": specs, "shape": shape, "dtype": dtype, "limit": limit, "impl": out},
                              signature={"fn": "normalize_chunks", "class": "explicit-zero-chunk" if explicit_zero else "invalid-layout"})
        # model correspondence (specs the model covers: per-axis int/tuple/None/auto)
        if any(isinstance(sp, tuple) and len(sp) == 0 for sp in specs) and len(shape) == 1:
            pass
        if len(shape) == 1 and isinstance(specs[0], tuple) is False and False:
            continue
        sizes = oracle_sizes(specs, shape, limit, dt.itemsize) if has_auto else []
        if any(max(abs(a), abs(b)) > 10 ** 60 for a, b in sizes):
            continue
        cases.append(ctuple(clist(sizes, lambda p: ctuple(cz(p[0]), cz(p[1]))), clist(specs, cspec), clist(shape),
                            cres(err if err else out)))
        kept.append((specs, shape, dtype, limit, out, err, sizes))
    mism, _ = coq_eval_cases(
        HEADER, "list (Z * Z) * list aspec * list Z * res (list (list Z))",
        "Definition chk (c : list (Z * Z) * list aspec * list Z * res (list (list Z))) : bool := let '(sz, sp, sh, o) := c in\n"
        "  match normalize_chunks sz sp sh, o with\n"
        "  | Ok a, Ok b => zlist2_eqb a b && layout_ok a sh\n"
        "  | Err _, Err _ => true\n"
        "  | _, _ => false end.",
        cases)
    for i in mism[:5]:
        specs, shape, dtype, limit, out, err, sizes = kept[i]
        model = coq_eval_expr(HEADER, [f"normalize_chunks {clist(sizes, lambda p: ctuple(cz(p[0]), cz(p[1])))} {clist(specs, cspec)} {clist(shape)}"])[0]
        chk.tie_break("correspondence:normalize_chunks (or the Coq checker layout_ok rejected an accepted output)",
                      {"chunks": specs, "shape": shape, "dtype": dtype, "limit": limit, "impl": out if err is None else err, "model": model})
    chk.traces_validated += len(cases) - len(mism)


def fam_previous(chk, NC, tier):
    """auto with previous_chunks: not modelled; property-level checks only"""
    rng = chk.rng
    import dask
    import random as _random
    drng = _random.Random(f"C16-previous-directed-{chk.seed}")
    for _ in range(6000 if tier == "thorough" else 900):
        rank = rng.choice([1, 2, 2, 3])
        shape = tuple(rng.choice([1, 2, 5, 10, 16, 33, 100, 200, 1000]) for _ in range(rank))
        prev = tuple(rand_chunks(rng, n) for n in shape)
        specs = tuple(rng.choice(["auto", "auto", None, rng.randint(1, n)]) for n in shape)
        dtype = np.dtype(rng.choice(["u1", "i4", "f8"]))
        limit = rng.choice([8, 64, 1000, 4096, 10 ** 5, 2 ** 20])
        style = drng.random()
        if style < 0.3:
            # a dominant small previous chunk size m (the mode) plus one oversized chunk; the limit asks for a non-integral
            # multiple of m (the proposal is rounded to a multiple of m: it must be rounded DOWN)
            rank = drng.choice([1, 1, 2])
            m = drng.choice([2, 3, 5, 10])
            k = drng.randint(3, 8)
            big = m * drng.randint(4, 12)
            shape = tuple(m * k + big for _ in range(rank))
            prev = tuple((m,) * k + (big,) for _ in range(rank))
            specs = ("auto",) * rank
            dtype = np.dtype(drng.choice(["u1", "i4"]))
            mult = drng.choice([1.3, 1.5, 1.6, 1.7, 2.4, 2.6, 2.8, 3.5, 3.7])
            limit = max(1, int((m * mult) ** rank * dtype.itemsize))
        elif style < 0.6:
            # several 'auto' axes whose previous chunks sit between tolerance**(1/n) and tolerance times the ideal size
            rank = drng.choice([2, 2, 3])
            dtype = np.dtype(drng.choice(["u1", "i4", "f8"]))
            side = drng.choice([8, 10, 16, 20])
            limit = side ** rank * dtype.itemsize
            f = drng.choice([1.0, 1.05, 1.1, 1.15, 1.2, 1.24])
            c = max(1, int(round(side * f)))
            reps = drng.randint(2, 4)
            tail = drng.randint(0, c - 1)
            shape = tuple(c * reps + tail for _ in range(rank))
            prev = tuple((c,) * reps + ((tail,) if tail else ()) for _ in range(rank))
            specs = ("auto",) * rank
        if "auto" not in specs:
            continue
        try:
            out = NC(specs, shape=shape, limit=limit, dtype=dtype, previous_chunks=prev)
        except Exception as e:  # noqa: BLE001
            chk.count("previous:raises")
            chk.case(("prev", specs, shape, prev, str(dtype), limit), nontrivial=False)
            continue
        chk.count("previous")
        chk.case(("prev", specs, shape, prev, str(dtype), limit), nontrivial=True,
                 sample={"fn": "normalize_chunks", "chunks": specs, "shape": shape, "previous_chunks": prev, "dtype": str(dtype), "limit": limit, "impl": out})
        problems = []
        for ax, (c, n) in enumerate(zip(out, shape)):
            if len(c) == 0 or any(x <= 0 for x in c) or sum(c) != n:
                problems.append(f"axis {ax}: {c} is not a layout of length {n}")
        if not problems:
            tol = dask.config.get("array.chunk-size-tolerance")
            fixed = math.prod(max(c) for c, sp in zip(out, specs) if sp != "auto")
            block = math.prod(max(c) for c in out)
            # the previous_chunks branch promises the limit only up to the configured tolerance
            if block * dtype.itemsize > limit * tol and fixed * dtype.itemsize <= limit \
                    and any(max(c) > 1 for c, sp in zip(out, specs) if sp == "auto"):
                problems.append(f"auto block of {block * dtype.itemsize} bytes exceeds limit {limit} x tolerance {tol}")
        if problems:
            chk.violation("; ".join(problems), {"fn": "normalize_chunks", "chunks": specs, "shape": shape, "previous_chunks": prev,
                                                "dtype": str(dtype), "limit": limit, "impl": out},
                          signature={"fn": "normalize_chunks", "class": "previous_chunks"})


def replay(path):
    import json
    from dask_array._core_utils import normalize_chunks
    r = json.load(open(path))
    print(json.dumps(r, indent=1))
    d = r.get("data", {})
    if d.get("fn") == "normalize_chunks":
        fix = lambda s: tuple(tuple(x) if isinstance(x, list) else x for x in s)  # noqa: E731
        kw = {}
        if "previous_chunks" in d:
            kw["previous_chunks"] = fix(d["previous_chunks"])
        try:
            print("impl now:", normalize_chunks(fix(d["chunks"]), shape=tuple(d["shape"]), limit=d["limit"], dtype=np.dtype(d["dtype"]), **kw))
        except Exception as e:  # noqa: BLE001
            print("impl now raises:", repr(e))


def run(chk: Check):
    from dask_array._core_utils import normalize_chunks
    chk.rule = ("exhaustive small (rank<=2) + generated specs (int, tuple, -1, None, 'auto', malformed stream) x shapes incl. 0/1 "
                "x dtypes x limits; impl vs Gallina model normalize_chunks (auto `size` float passed as exact-rational oracle) "
                "and impl vs the property (valid layout, uniform sizes, byte limit); previous_chunks branch: property checks only; "
                "non-trivial = accepted and not the single-chunk layout")
    chk.assumptions = ["the k-th-root float `size` of auto_chunks is an oracle argument of the model (recomputed by the harness with the same float expression)"]
    chk.run_proofs()
    fam_normalize(chk, normalize_chunks, chk.tier)
    fam_previous(chk, normalize_chunks, chk.tier)
