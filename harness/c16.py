"""C16 — chunk normalization produces valid layouts within the byte limit."""
from __future__ import annotations

import itertools
import os
import math
from fractions import Fraction

import numpy as np

from common import Check, cbool, clist, copt, coq_eval_cases, coq_eval_expr, ctuple, cz
from c13 import rand_chunks

HEADER = "From DA Require Import PyBase NormChunks.\nOpen Scope Z_scope.\n"


def cspec(sp):
    if sp is None:
        return "AFull"
    if sp == "auto":
        return "AAuto"
    if isinstance(sp, tuple):
        return f"(ATuple {clist(sp)})"
    return f"(AInt {cz(sp)})"


def cres(out):
    if isinstance(out, str):
        return f"(Err {out})"
    return "(Ok " + clist(out, lambda c: clist(c)) + ")"


def oracle_sizes(specs, shape, limit, itemsize):
    """The float `size` of each auto_chunks recursion level, recomputed the way
    the implementation does (float arithmetic), returned as exact rationals."""
    specs = [s if not (sp is None or sp == -1) else s for sp, s in zip(specs, shape)] if False else list(specs)
    specs = [shape[i] if (sp is None or (isinstance(sp, int) and sp == -1)) else sp for i, sp in enumerate(specs)]
    sizes = []
    limit = max(1, limit)
    for _ in range(len(specs) + 1):
        autos = [i for i, sp in enumerate(specs) if sp == "auto"]
        if not autos:
            break
        try:
            largest = math.prod((sp if not isinstance(sp, tuple) else max(sp)) for sp in specs if sp != "auto")
            size = (limit / itemsize / largest) ** (1 / len(autos))
        except (ZeroDivisionError, ValueError, TypeError, OverflowError):
            break
        if isinstance(size, complex) or size != size or size in (float('inf'), float('-inf')):
            break
        fr = Fraction(size)
        sizes.append((fr.numerator, fr.denominator))
        small = [i for i in autos if shape[i] < size]
        if not small:
            break
        for i in small:
            specs[i] = (shape[i],)
    return sizes


def gen_case(rng):
    rank = rng.choice([1, 1, 2, 2, 3, 4])
    shape = tuple(rng.choice([0, 1, 2, 3, 5, 7, 10, 16, 33, 100, 200]) for _ in range(rank))
    specs = []
    malformed = rng.random() < 0.15
    for n in shape:
        r = rng.random()
        if r < 0.3:
            c = rng.randint(1, max(n, 1) + 2)
            specs.append(c)
        elif r < 0.5:
            specs.append(rand_chunks(rng, n, allow_zero=rng.random() < 0.1))
        elif r < 0.6:
            specs.append(rng.choice([None, -1]))
        elif r < 0.9:
            specs.append("auto")
        else:
            specs.append(max(n, 1))
        if malformed and rng.random() < 0.5:
            k = rng.random()
            if k < 0.3:
                specs[-1] = rng.choice([0, -2, -3, -n - 1])
            elif k < 0.6 and n > 0:
                cs = list(rand_chunks(rng, n))
                cs[rng.randrange(len(cs))] += rng.choice([-1, 1, -n - 1])
                specs[-1] = tuple(cs)
            elif k < 0.8 and n > 1:
                specs[-1] = (n + 1, -1)
            else:
                specs[-1] = ()
    dtype = rng.choice(["u1", "i4", "f8", "c16", "S3"])
    limit = rng.choice([1, 7, 64, 1000, 4096, 10 ** 5, 2 ** 20, 2 ** 30])
    return tuple(specs), shape, dtype, limit


def fam_normalize(chk, NC, tier):
    rng = chk.rng
    inputs = []
    # exhaustive small: rank 1 and 2, axes <= 6 (quick) / 9 (thorough), int/-1/None specs
    top = 9 if tier == "thorough" else 6
    for n in range(0, top + 1):
        for c in list(range(-3, n + 3)) + [None]:
            inputs.append(((c,), (n,), "f8", 10 ** 6))
    for n, m in itertools.product(range(0, 4 if tier == "quick" else 6), repeat=2):
        for c, d in itertools.product([None, -1, 1, 2, 3, "auto"], repeat=2):
            inputs.append(((c, d), (n, m), "i4", rng.choice([4, 16, 64])))
    # corpus: design-phase findings F3, F4
    inputs += [((-3,), (10,), "f8", 100), (((11, -1),), (10,), "f8", 100), (((5, 5, 0),), (10,), "f8", 100)]
    for _ in range(30000 if tier == "thorough" else 2500):
        inputs.append(gen_case(rng))
    cases, kept = [], []
    for specs, shape, dtype, limit in inputs:
        dt = np.dtype(dtype)
        try:
            out = NC(specs, shape=shape, limit=limit, dtype=dt)
            err = None
        except ZeroDivisionError:
            out, err = None, "EZeroDiv"
        except (ValueError, TypeError) as e:
            out, err = None, "EValue"
        has_auto = any(s == "auto" for s in specs)
        chk.count(("auto" if has_auto else "explicit") + (":raises" if err else ""))
        chk.case(("nc", specs, shape, dtype, limit), nontrivial=(err is None and out != tuple((s,) for s in shape)),
                 sample={"fn": "normalize_chunks", "chunks": specs, "shape": shape, "dtype": dtype, "limit": limit,
                         "impl": out if err is None else err})
        if err is None:
            problems = []
            if len(out) != len(shape):
                problems.append("wrong number of axes")
            else:
                for ax, (c, n) in enumerate(zip(out, shape)):
                    if len(c) == 0 or any(x < 0 for x in c) or sum(c) != n:
                        problems.append(f"axis {ax}: {c} is not a layout of length {n}")
                    elif n > 0 and any(x == 0 for x in c):
                        problems.append(f"axis {ax}: zero-size chunk on a non-empty axis {c}")
                    sp = specs[ax]
                    if isinstance(sp, int) and sp > 0 and n > 0:
                        want = (sp,) * (n // sp) + ((n % sp,) if n % sp else ())
                        if tuple(c) != want:
                            problems.append(f"axis {ax}: uniform size {sp} gave {c}")
                if has_auto and not problems:
                    fixed = math.prod(max(c) for c, sp in zip(out, specs) if sp != "auto")
                    block = math.prod(max(c) for c in out)
                    lim = max(1, limit)
                    if block * dt.itemsize > lim and fixed * dt.itemsize <= lim \
                            and any(max(c) > 1 for c, sp in zip(out, specs) if sp == "auto"):
                        problems.append(f"auto block of {block * dt.itemsize} bytes exceeds limit {lim} (fixed axes need {fixed * dt.itemsize})")
            if problems:
                explicit_zero = all("zero-size chunk" in p for p in problems) and \
                    any(isinstance(sp, tuple) and 0 in sp for sp in specs)
                chk.violation("; ".join(problems),
                              {"fn": "normalize_chunks", "chunks": specs, "shape": shape, "dtype": dtype, "limit": limit, "impl": out},
                              signature={"fn": "normalize_chunks", "class": "explicit-zero-chunk" if explicit_zero else "invalid-layout"})
        # model correspondence (specs the model covers: per-axis int/tuple/None/auto)
        if any(isinstance(sp, tuple) and len(sp) == 0 for sp in specs) and len(shape) == 1:
            pass
        if len(shape) == 1 and isinstance(specs[0], tuple) is False and False:
            continue
        sizes = oracle_sizes(specs, shape, limit, dt.itemsize) if has_auto else []
        if any(max(abs(a), abs(b)) > 10 ** 60 for a, b in sizes):
            continue
        cases.append(ctuple(clist(sizes, lambda p: ctuple(cz(p[0]), cz(p[1]))), clist(specs, cspec), clist(shape),
                            cres(err if err else out)))
        kept.append((specs, shape, dtype, limit, out, err, sizes))
    mism, _ = coq_eval_cases(
        HEADER, "list (Z * Z) * list aspec * list Z * res (list (list Z))",
        "Definition chk (c : list (Z * Z) * list aspec * list Z * res (list (list Z))) : bool := let '(sz, sp, sh, o) := c in\n"
        "  match normalize_chunks sz sp sh, o with\n"
        "  | Ok a, Ok b => zlist2_eqb a b && layout_ok a sh\n"
        "  | Err _, Err _ => true\n"
        "  | _, _ => false end.",
        cases)
    for i in mism[:5]:
        specs, shape, dtype, limit, out, err, sizes = kept[i]
        model = coq_eval_expr(HEADER, [f"normalize_chunks {clist(sizes, lambda p: ctuple(cz(p[0]), cz(p[1])))} {clist(specs, cspec)} {clist(shape)}"])[0]
        chk.tie_break("correspondence:normalize_chunks (or the Coq checker layout_ok rejected an accepted output)",
                      {"chunks": specs, "shape": shape, "dtype": dtype, "limit": limit, "impl": out if err is None else err, "model": model})
    chk.traces_validated += len(cases) - len(mism)


# --------------------------------------------------------------------------
# previous_chunks branch of auto_chunks: recorder for the float oracle, time limit, Coq literals
HEADER_PREV = "From DA Require Import PyBase NormChunks AutoPrev.\nOpen Scope Z_scope.\n"
PREV_FUEL = 64          # loop rounds the model is given; the recorder aborts the real call when it starts round 65


class Hang(BaseException):
    pass


class time_limit:
    """turns a non-terminating call into an exception (SIGALRM; main thread only)"""

    def __init__(self, seconds):
        self.seconds = seconds

    def __enter__(self):
        import signal

        def handler(signum, frame):
            raise Hang()
        self.old = signal.signal(signal.SIGALRM, handler)
        signal.setitimer(signal.ITIMER_REAL, self.seconds)

    def __exit__(self, *a):
        import signal
        signal.setitimer(signal.ITIMER_REAL, 0)
        signal.signal(signal.SIGALRM, self.old)


class AutoTrace:
    """Records, for every pass of `while multiplier_remaining:` in auto_chunks (previous_chunks branch), the floats
    `proposed` and `max_chunk_size` of every axis visited — the oracle arguments of the Gallina model — by tracing
    the frame of auto_chunks (sys.settrace, line events at two anchor lines).  Aborts the call (Hang) when the
    loop starts pass number max_rounds + 1."""

    anchors = None

    @classmethod
    def find_anchors(cls):
        if cls.anchors is None:
            import inspect
            from dask_array import _core_utils as CU
            src, start = inspect.getsourcelines(CU.auto_chunks)

            def line(txt):
                hits = [i for i, ln in enumerate(src) if ln.strip().startswith(txt)]
                if len(hits) != 1:
                    raise RuntimeError(f"auto_chunks: anchor line {txt!r} found {len(hits)} times")
                return start + hits[0]
            cls.anchors = (CU.auto_chunks.__code__, line("last_autos = set(autos)"), line("if proposed > shape[a]:"))
        return cls.anchors

    def __init__(self, max_rounds):
        self.code, self.l_round, self.l_prop = self.find_anchors()
        self.rounds = []
        self.mults = []           # `multiplier` at the start of every pass
        self.calls = 0
        self.max_rounds = max_rounds

    def __call__(self, frame, event, arg):
        if frame.f_code is self.code and event == "call":
            self.calls += 1
            return self.local
        return None

    def local(self, frame, event, arg):
        if event == "line":
            ln = frame.f_lineno
            if ln == self.l_round:
                if len(self.rounds) >= self.max_rounds:
                    raise Hang()
                self.rounds.append({})
                self.mults.append(frame.f_locals["multiplier"])
            elif ln == self.l_prop:
                loc = frame.f_locals
                self.rounds[-1][loc["a"]] = (loc["proposed"], loc["max_chunk_size"])
        return self.local


def traced(fn, max_rounds=PREV_FUEL, seconds=10):
    """run fn() under the recorder and a time limit -> (kind, value, trace); kind in ok / EZeroDiv / EValue / hang / timeout"""
    import sys
    import warnings
    tr = AutoTrace(max_rounds)
    old = sys.gettrace()
    try:
        with warnings.catch_warnings():
            warnings.simplefilter("ignore")
            try:
                with time_limit(seconds):
                    sys.settrace(tr)
                    try:
                        out = fn()
                    finally:
                        sys.settrace(old)
                return "ok", out, tr
            except Hang:
                return ("hang" if len(tr.rounds) >= max_rounds else "timeout"), None, tr
            except ZeroDivisionError:
                return "EZeroDiv", None, tr
            except (ValueError, TypeError, IndexError, OverflowError, KeyError):
                return "EValue", None, tr
    finally:
        sys.settrace(old)


def fval_of(x):
    """a recorded float -> 'FNan' | (num, den) | None (complex / infinite: outside the model)"""
    if isinstance(x, (complex, np.complexfloating)):
        return None
    x = float(x)
    if x != x:
        return "FNan"
    if x in (float("inf"), float("-inf")):
        return None
    fr = Fraction(x)
    return (fr.numerator, fr.denominator)


def cfval(v):
    return "FNan" if v == "FNan" else f"(FQ {cz(v[0])} {cz(v[1])})"


def cprev(prev):
    return clist(prev, lambda p: clist(p) if isinstance(p, tuple) else clist((p,)))


def coq_eval_multi(header, case_type, check_defs, names, cases, chunk=120, timeout=900):
    """coq_eval_cases for several checkers over the SAME case literals (parsed once per chunk): `check_defs` defines the
    functions `names` : case_type -> bool; returns one sorted list of mismatch indices per name."""
    import re
    import shutil
    import tempfile
    from concurrent.futures import ThreadPoolExecutor
    from common import COQ_ARGS, SCRATCH_ROOT, sh
    if not cases:
        return [[] for _ in names]
    d = tempfile.mkdtemp(prefix="verif-cases-", dir=SCRATCH_ROOT)
    try:
        files = []
        for k in range(0, len(cases), chunk):
            path = os.path.join(d, f"cases_{k // chunk}.v")
            with open(path, "w") as f:
                f.write(header + "\n" + check_defs + "\n")
                f.write(f"Definition cases : list ({case_type}) :=\n [ " + ";\n   ".join(cases[k:k + chunk]) + " ].\n")
                for nm in names:
                    f.write(f"Eval vm_compute in (mismatches {nm} cases).\n")
            files.append((k, path))

        def run(item):
            k, path = item
            rc, out = sh(["timeout", str(timeout), "coqc", *COQ_ARGS, path], timeout=timeout + 30)
            return k, rc, out
        with ThreadPoolExecutor(max_workers=min(12, os.cpu_count() or 8)) as ex:
            results = list(ex.map(run, files))
        res = [[] for _ in names]
        for k, rc, out in results:
            if rc != 0:
                raise RuntimeError("coqc failed on generated cases file:\n" + out[-2000:])
            found = re.findall(r"=\s*(\[.*?\])\s*:\s*list nat", out, flags=re.S)
            if len(found) != len(names):
                raise RuntimeError("cannot parse coqc output:\n" + out[-2000:])
            for j, txt in enumerate(found):
                res[j] += [k + int(num) for num in re.findall(r"\d+", txt)]
        return [sorted(r) for r in res]
    finally:
        shutil.rmtree(d, ignore_errors=True)


def prev_inputs(chk, tier):
    """(origin, specs, shape, prev, dtype-str, limit) — corpus first, then the generated + directed families, then the
    malformed stream (expected: both raise)"""
    rng = chk.rng
    import random as _random
    drng = _random.Random(f"C16-previous-directed-{chk.seed}")
    erng = _random.Random(f"C16-previous-extra-{chk.seed}")
    inputs = [
        # corpus (findings): zero-size previous chunks -> block of 2x / 4x the limit (tolerance 1.25)
        ("corpus", ("auto", "auto"), (1, 100), ((0, 1), (10,) * 10), "u1", 10),
        ("corpus", ("auto", "auto", "auto"), (1, 1, 100), ((0, 1), (0, 1), (10,) * 10), "u1", 10),
        # corpus (finding C14-F26): negative explicit entry next to two 'auto' axes -> the loop never ends
        ("malformed", (-2, "auto", "auto"), (5, 5, 2), ((1, 1, 1, 1, 1), (5,), (2,)), "i4", 2 ** 27),
        ("malformed", ("auto", "auto"), (5, 2), ((-5, -1), (2,)), "i4", 8),
        ("malformed", (-2, "auto"), (5, 5), ((1, 1, 1, 1, 1), (5,)), "i4", 2 ** 27),
        ("corpus", ("auto", None), (4, 0), ((1, 1, 1, 1), (0,)), "i4", 8),
        ("corpus", ("auto",), (100,), ((10,) * 10,), "u1", 25),
        ("corpus", ("auto",), (100,), ((10,) * 10,), "u1", 7),
        ("corpus", ("auto", "auto"), (100, 100), ((10,) * 10, (50, 50)), "u1", 2500),
        ("corpus", ("auto", "auto"), (5, 2), (5, 2), "i4", 8),
        ("corpus", ("auto", "auto"), (5, 2), ((5,), (2,), (3,)), "i4", 8),
        ("corpus", ("auto", "auto"), (0, 0), ((0,), (0,)), "i4", 8),
        ("corpus", ("auto", "auto", "auto", None), (38, 4707, 25, 41), ((15, 15, 8), (4707,), (21, 4), (31, 8, 2)), "u1", 4311433),
    ]
    for _ in range(6000 if tier == "thorough" else 900):
        rank = rng.choice([1, 2, 2, 3])
        shape = tuple(rng.choice([1, 2, 5, 10, 16, 33, 100, 200, 1000]) for _ in range(rank))
        prev = tuple(rand_chunks(rng, n) for n in shape)
        specs = tuple(rng.choice(["auto", "auto", None, rng.randint(1, n)]) for n in shape)
        dtype = np.dtype(rng.choice(["u1", "i4", "f8"]))
        limit = rng.choice([8, 64, 1000, 4096, 10 ** 5, 2 ** 20])
        style = drng.random()
        if style < 0.3:
            # a dominant small previous chunk size m (the mode) plus one oversized chunk; the limit asks for a non-integral
            # multiple of m (the proposal is rounded to a multiple of m: it must be rounded DOWN)
            rank = drng.choice([1, 1, 2])
            m = drng.choice([2, 3, 5, 10])
            k = drng.randint(3, 8)
            big = m * drng.randint(4, 12)
            shape = tuple(m * k + big for _ in range(rank))
            prev = tuple((m,) * k + (big,) for _ in range(rank))
            specs = ("auto",) * rank
            dtype = np.dtype(drng.choice(["u1", "i4"]))
            mult = drng.choice([1.3, 1.5, 1.6, 1.7, 2.4, 2.6, 2.8, 3.5, 3.7])
            limit = max(1, int((m * mult) ** rank * dtype.itemsize))
        elif style < 0.6:
            # several 'auto' axes whose previous chunks sit between tolerance**(1/n) and tolerance times the ideal size
            rank = drng.choice([2, 2, 3])
            dtype = np.dtype(drng.choice(["u1", "i4", "f8"]))
            side = drng.choice([8, 10, 16, 20])
            limit = side ** rank * dtype.itemsize
            f = drng.choice([1.0, 1.05, 1.1, 1.15, 1.2, 1.24])
            c = max(1, int(round(side * f)))
            reps = drng.randint(2, 4)
            tail = drng.randint(0, c - 1)
            shape = tuple(c * reps + tail for _ in range(rank))
            prev = tuple((c,) * reps + ((tail,) if tail else ()) for _ in range(rank))
            specs = ("auto",) * rank
        if "auto" not in specs:
            continue
        inputs.append(("generated", specs, shape, prev, str(dtype), limit))
    # directed families for the model tie
    for _ in range(4000 if tier == "thorough" else 500):
        k = erng.random()
        rank = erng.choice([1, 2, 3, 3, 4])
        shape = tuple(erng.randint(1, erng.choice([5, 50, 50, 300, 300, 2000])) for _ in range(rank))
        dtype = erng.choice(["u1", "i4", "f8"])

        def pc(n):
            q = erng.random()
            if q < 0.35:
                c = erng.randint(1, n)
                return (c,) * (n // c) + ((n % c,) if n % c else ())
            if q < 0.45:
                return (n,)
            return rand_chunks(erng, n, allow_zero=erng.random() < 0.2)
        prev = tuple(pc(n) for n in shape)
        specs = tuple(erng.choice(["auto", "auto", "auto", None, -1, erng.randint(1, n), rand_chunks(erng, n)]) for n in shape)
        limit = erng.randint(1, erng.choice([10, 1000, 10 ** 5, 10 ** 7]))
        origin = "directed"
        if k < 0.15:
            # previous chunks given as ints (h5py / zarr `.chunks`) or 1-tuples: expanded by blockdims_from_blockshape
            prev = tuple(erng.choice([erng.randint(1, n), (erng.randint(1, n),)]) if erng.random() < 0.7 else p for n, p in zip(shape, prev))
        elif k < 0.3:
            # zero-length axes
            shape = tuple(0 if erng.random() < 0.4 else n for n in shape)
            prev = tuple(((0,) if n == 0 else p) for n, p in zip(shape, prev))
            specs = tuple(("auto" if erng.random() < 0.7 else sp) if n == 0 else sp for n, sp in zip(shape, specs))
        elif k < 0.5:
            # all axes 'auto', small limit: the shrinking case iterates to a fixed point
            specs = ("auto",) * rank
            limit = erng.randint(1, 200)
        elif k < 0.6:
            # limit far above the array: every axis hits the shape boundary
            specs = tuple("auto" if erng.random() < 0.8 else sp for sp in specs)
            limit = 10 ** erng.randint(8, 12)
        elif k < 0.68:
            # shrinking case that hits the shape boundary in a later pass (result IS median_chunks there, so the axis is
            # counted twice in the recomputed multiplier): few previous chunks per axis, limit just below the whole array
            rank = erng.choice([2, 2, 3])
            shape = tuple(erng.choice([1, 2, 3, 4, 5, 7, 10, 12, 20, 50]) for _ in range(rank))
            prev = tuple((n,) if erng.random() < 0.6 else rand_chunks(erng, n) for n in shape)
            specs = ("auto",) * rank
            dtype = erng.choice(["u1", "u1", "i4"])
            limit = max(1, int(math.prod(shape) * np.dtype(dtype).itemsize * erng.uniform(0.4, 0.999)))
        elif k < 0.78:
            origin = "malformed"
            m = erng.random()
            if m < 0.35:
                specs = tuple(erng.choice([0, -2, -3, (n + 1, -1), ()]) if (sp != "auto" and erng.random() < 0.7) else sp for sp, n in zip(specs, shape))
            elif m < 0.6:
                j = erng.randrange(rank)
                p = list(prev[j])
                p[erng.randrange(len(p))] += erng.choice([-1, 1, 2, -shape[j] - 1])
                prev = prev[:j] + (tuple(p),) + prev[j + 1:]
            elif m < 0.7:
                prev = prev[:-1] if erng.random() < 0.5 else prev + ((3,),)
            elif m < 0.8:
                j = erng.randrange(rank)
                prev = prev[:j] + (erng.choice([(), 0, (0,), -2]),) + prev[j + 1:]
            elif m < 0.9:
                dtype = "S0"
            else:
                limit = erng.choice([0, -5])
        if "auto" not in specs:
            continue
        inputs.append((origin, specs, shape, prev, dtype, limit))
    return inputs


def fam_previous(chk, NC, tier):
    """auto with previous_chunks: the real normalize_chunks (and x.rechunk) under the oracle recorder and a time limit,
    checked against the property and compared exactly with the Gallina model AutoPrev.normalize_chunks_prev"""
    import dask
    tol = dask.config.get("array.chunk-size-tolerance")
    cases, kept = [], []
    inputs = prev_inputs(chk, tier)
    # the same branch reached through the public API: x.rechunk(spec, block_size_limit=...)
    import random as _random
    arng = _random.Random(f"C16-previous-api-{chk.seed}")
    import dask_array as da
    for _ in range(1200 if tier == "thorough" else 120):
        rank = arng.choice([1, 2, 3])
        shape = tuple(arng.choice([1, 2, 5, 10, 33, 100, 200]) for _ in range(rank))
        prev = tuple(rand_chunks(arng, n, allow_zero=arng.random() < 0.1) for n in shape)
        specs = tuple(arng.choice(["auto", "auto", -1, arng.randint(1, n)]) for n in shape)
        if "auto" not in specs:
            continue
        inputs.append(("api", specs, shape, prev, arng.choice(["u1", "i4", "f8"]), arng.choice([8, 64, 1000, 4096, 10 ** 5])))
    for origin, specs, shape, prev, dtype, limit in inputs:
        dt = np.dtype(dtype)
        if origin == "api":
            kind, out, tr = traced(lambda: da.ones(shape, chunks=prev, dtype=dt).rechunk(specs, block_size_limit=limit).chunks)
        else:
            kind, out, tr = traced(lambda: NC(specs, shape=shape, limit=limit, dtype=dt, previous_chunks=prev))
        canon = ("prev", origin == "api", specs, shape, prev, str(dt), limit)
        desc = {"fn": "normalize_chunks", "via_rechunk": origin == "api", "chunks": specs, "shape": shape, "previous_chunks": prev,
                "dtype": str(dt), "limit": limit, "impl": out if kind == "ok" else kind}
        malformed = origin == "malformed"
        if kind in ("hang", "timeout"):
            chk.count(f"previous:{origin}:hangs")
            chk.case(canon, nontrivial=True, sample=desc)
            chk.violation("normalize_chunks(..., previous_chunks=...) does not terminate: `while multiplier_remaining` in auto_chunks "
                          f"is still running after {len(tr.rounds)} passes",
                          desc, signature={"fn": "normalize_chunks", "class": "previous_chunks-hangs", "malformed_input": malformed})
        elif kind != "ok":
            chk.count(f"previous:{origin}:raises")
            chk.case(canon, nontrivial=False)
        else:
            chk.count("previous" if origin == "generated" else f"previous:{origin}")
            chk.case(canon, nontrivial=True, sample=desc)
            problems = []
            for ax, (c, n) in enumerate(zip(out, shape)):
                if len(c) == 0 or any(x < 0 for x in c) or (n > 0 and any(x <= 0 for x in c)) or sum(c) != n:
                    problems.append(f"axis {ax}: {c} is not a layout of length {n}")
            sig = {"fn": "normalize_chunks", "class": "previous_chunks"}
            if not problems:
                fixed = math.prod(max(c) for c, sp in zip(out, specs) if sp != "auto")
                block = math.prod(max(c) for c in out)
                # the previous_chunks branch promises the limit only up to the configured tolerance
                if block * dt.itemsize > max(1, limit) * tol and fixed * dt.itemsize <= limit \
                        and any(max(c) > 1 for c, sp in zip(out, specs) if sp == "auto"):
                    problems.append(f"auto block of {block * dt.itemsize} bytes exceeds limit {limit} x tolerance {tol}")
                    zero_prev = any(isinstance(p, tuple) and 0 in p for p, n in zip(prev, shape) if n > 0)
                    sig = {"fn": "normalize_chunks", "class": "previous_chunks-limit", "zero_size_previous_chunks": zero_prev}
            if problems:
                chk.violation("; ".join(problems), desc, signature=sig)
        # ---- model correspondence
        if kind == "timeout" or tr.calls > 1 or (isinstance(prev, tuple) and len(prev) == 0):
            chk.count("previous:tie-skipped")
            continue
        tbl, ok = [], True
        for rd in tr.rounds:
            row = []
            for a in sorted(rd):
                p, q = fval_of(rd[a][0]), fval_of(rd[a][1])
                if p is None or q is None:
                    ok = False
                    break
                row.append((a, p, q))
            tbl.append(row)
        mults = [fval_of(m) for m in tr.mults]
        if not ok or any(m is None for m in mults):
            chk.count("previous:complex-or-inf-oracle (outside the model)")
            continue
        if any(not isinstance(sp, (int, tuple, str, type(None))) for sp in specs):
            continue
        if sum(len(p) if isinstance(p, tuple) else 1 for p in prev) + (sum(len(c) for c in out) if kind == "ok" else 0) > 1200:
            chk.count("previous:tie-skipped (literal too large)")
            continue
        expected = "PFuel" if kind == "hang" else f"(PErr {kind})" if kind != "ok" else "(POk " + clist(out, lambda c: clist(c)) + ")"
        # instances of the theorems' hypotheses on this run: valid input (positive explicit entries, previous chunks a
        # layout of the shape) that was accepted; bnd = the byte bound limit x 5/4 holds on the real output
        valid = kind == "ok" and origin != "malformed"
        bnd = True
        if kind == "ok":
            bnd = math.prod(max(c) for c in out) * dt.itemsize * 4 <= 5 * max(1, limit)
        if origin != "malformed" and any(e[1] == "FNan" or e[2] == "FNan" for row in tbl for e in row):
            chk.violation("a NaN proposal on a well-formed input (auto_chunks with previous_chunks)", desc,
                          signature={"fn": "normalize_chunks", "class": "previous_chunks-nan", "malformed_input": False})
        cases.append(ctuple(clist(tbl, lambda row: clist(row, lambda e: ctuple(f"{e[0]}%nat", ctuple(cfval(e[1]), cfval(e[2]))))),
                            cz(limit), cz(dt.itemsize), clist(specs, cspec), clist(shape), cprev(prev), expected,
                            cbool(valid), cbool(bnd), cz(len(tr.rounds)), clist(mults, cfval)))
        kept.append((origin, specs, shape, prev, str(dt), limit, kind, out, tbl))
        chk.count(f"previous:tie:rounds={min(len(tr.rounds), 8)}{'+' if len(tr.rounds) >= 8 else ''}")
    ctype = "list (list (nat * (fval * fval))) * Z * Z * list aspec * list Z * list (list Z) * pres * bool * bool * Z * list fval"
    letc = "let '(tbl, lim, isz, sp, sh, pv, o, valid, bnd, rounds, ms) := c in"

    def describe(i, with_model=True):
        origin, specs, shape, prev, dtype, limit, kind, out, tbl = kept[i]
        d = {"origin": origin, "chunks": specs, "shape": shape, "previous_chunks": prev, "dtype": dtype, "limit": limit,
             "impl": out if kind == "ok" else kind}
        if with_model:
            lit = clist(tbl, lambda row: clist(row, lambda e: ctuple(f"{e[0]}%nat", ctuple(cfval(e[1]), cfval(e[2])))))
            d["model"] = coq_eval_expr(HEADER_PREV, [f"normalize_chunks_prev (orc_of_table {lit}) {PREV_FUEL} {cz(limit)} "
                                                     f"{cz(np.dtype(dtype).itemsize)} {clist(specs, cspec)} {clist(shape)} {cprev(prev)}"])[0]
        return d
    # (1) the tie: implementation == model, exactly (and the model's exact multiplier of every pass is the recorded float
    #     up to 2^-40)
    # (2) the hypotheses of the termination theorem hold on every accepted well-formed run (C16_prev_terminates: every
    #     pass sane; then the passes needed stay within reduce_fuel_bound), and the byte-bound theorem is consistent with
    #     the real output (C16_prev_limit: prev_acc 5 4 -> bound)
    # (3) coverage of the byte-bound theorem: on how many accepted well-formed runs is its accuracy hypothesis true
    defs = (
        f"Definition chk_tie (c : {ctype}) : bool := {letc}\n"
        f"  mults_close (prev_mults (orc_of_table tbl) {PREV_FUEL} lim isz sp sh pv) ms &&\n"
        f"  match normalize_chunks_prev (orc_of_table tbl) {PREV_FUEL} lim isz sp sh pv, o with\n"
        "  | POk a, POk b => zlist2_eqb a b && layout_ok a sh\n"
        "  | PErr _, PErr _ => true\n"
        "  | PFuel, PFuel => true\n"
        "  | _, _ => false end.\n"
        f"Definition chk_hyp (c : {ctype}) : bool := {letc}\n"
        f"  negb valid ||\n"
        f"  (prev_sane (orc_of_table tbl) {PREV_FUEL} lim isz sp sh pv &&\n"
        "   match prev_start lim isz sp sh pv with\n"
        "   | Some (true, cs, st0) => rounds <=? reduce_fuel_bound cs (ls_axes st0)\n"
        "   | _ => true end &&\n"
        f"   (negb (prev_acc 5 4 (orc_of_table tbl) {PREV_FUEL} lim isz sp sh pv) || bnd)).\n"
        f"Definition chk_acc (c : {ctype}) : bool := {letc}\n"
        f"  negb valid || prev_acc 5 4 (orc_of_table tbl) {PREV_FUEL} lim isz sp sh pv.")
    mism, mism2, mism3 = coq_eval_multi(HEADER_PREV, ctype, defs, ["chk_tie", "chk_hyp", "chk_acc"], cases)
    for i in mism[:5]:
        chk.tie_break("correspondence:normalize_chunks with previous_chunks (AutoPrev.normalize_chunks_prev)", describe(i))
    chk.traces_validated += len(cases) - len(mism)
    for i in mism2[:5]:
        chk.tie_break("assumption: a recorded pass is not sane (AutoPrev.round_sane) on a well-formed input, or the run needs more "
                      "passes than reduce_fuel_bound, or prev_acc 5 4 holds and the byte bound does not", describe(i, False))
    nvalid = sum(1 for k in kept if k[6] == "ok" and k[0] != "malformed")
    chk.count("previous:theorem C16_prev_limit applies (prev_acc 5 4)", nvalid - len(mism3))
    chk.count("previous:theorem C16_prev_limit does not apply", len(mism3))
    chk.count("previous:theorem C16_prev_terminates hypotheses hold", nvalid - len(mism2))


def replay(path):
    import json
    from dask_array._core_utils import normalize_chunks
    r = json.load(open(path))
    print(json.dumps(r, indent=1))
    d = r.get("data", {})
    if d.get("fn") == "normalize_chunks":
        fix = lambda s: tuple(tuple(x) if isinstance(x, list) else x for x in s)  # noqa: E731
        kw = {}
        if "previous_chunks" in d:
            kw["previous_chunks"] = fix(d["previous_chunks"])
        try:
            with time_limit(20):
                print("impl now:", normalize_chunks(fix(d["chunks"]), shape=tuple(d["shape"]), limit=d["limit"], dtype=np.dtype(d["dtype"]), **kw))
        except Hang:
            print("impl now: does not return within 20 s")
        except Exception as e:  # noqa: BLE001
            print("impl now raises:", repr(e))


def run(chk: Check):
    from dask_array._core_utils import normalize_chunks
    chk.rule = ("exhaustive small (rank<=2) + generated specs (int, tuple, -1, None, 'auto', malformed stream) x shapes incl. 0/1 "
                "x dtypes x limits; impl vs Gallina model normalize_chunks (auto `size` float passed as exact-rational oracle) "
                "and impl vs the property (valid layout, uniform sizes, byte limit); previous_chunks branch: corpus + generated + "
                "directed families (dominant mode, tolerance band, int previous chunks, zero-length axes, shrinking case incl. the "
                "shape boundary, huge limits, malformed stream) through normalize_chunks and x.rechunk, each call under a pass "
                "limit (64) and a time limit: impl vs the property and impl == Gallina model AutoPrev.normalize_chunks_prev exactly "
                "(floats `proposed`/`max_chunk_size` recorded from the running code as exact rationals = the model's oracle; the "
                "model's exact multiplier of every pass within 2^-40 of the recorded float); the hypotheses of C16_prev_terminates "
                "(every pass sane) are evaluated on every accepted well-formed run; non-trivial = accepted and not the single-chunk layout")
    chk.assumptions = ["the k-th-root float `size` of auto_chunks is an oracle argument of the model (recomputed by the harness with the same float expression)",
                       "previous_chunks branch: the floats `proposed` and `max_chunk_size` of every loop pass are oracle arguments of the model "
                       "(recorded by tracing auto_chunks); C16_prev_limit assumes the last pass accurate (prev_acc), C16_prev_terminates "
                       "assumes every pass sane (prev_sane) when the first multiplier is < 1 — both evaluated on the recorded runs",
                       "runs whose recorded floats are complex or infinite (negative multiplier that is a Python float, not np.float64) are "
                       "outside the model and only checked against the property"]
    chk.run_proofs()
    fam_normalize(chk, normalize_chunks, chk.tier)
    fam_previous(chk, normalize_chunks, chk.tier)
