"""C08 — optimization terminates and is idempotent; it never turns a computable program into one that raises."""
from __future__ import annotations

import re
import signal
import warnings

import numpy as np

import exprs
import progs
from common import Check


class Timeout(Exception):
    pass


def _alarm(signum, frame):
    raise Timeout()


def err_sig(e):
    return re.sub(r"[0-9(),\[\]'-]+", "#", f"{type(e).__name__}: {e}")[:36]


def run_program(chk, da, prog, sources, budget=20):
    from dask_array import _materialize
    _materialize._LOWER_CACHE.clear()
    for o in progs.ops_in(prog):
        chk.count("op:" + o)
    desc = progs.describe(prog, sources)
    try:
        with warnings.catch_warnings():
            warnings.simplefilter("ignore")
            arr = progs.build(prog, da, sources, memo={})
            expr = arr.expr
            ref = exprs.eval_expr(expr)          # computable without optimization?
    except Exception:  # noqa: BLE001
        chk.count("skipped:not-computable-unoptimized")
        chk.case(("prog", progs.show(prog)), nontrivial=False)
        return
    chk.case(("prog", progs.show(prog), repr([(s[0].shape, s[1]) for s in sources])), nontrivial=len(progs.all_nodes(prog)) > 1,
             sample=desc if len(progs.all_nodes(prog)) <= 5 else None)
    nodes = progs.all_nodes(prog)
    leaves = [repr(q) for q in progs.all_leaf_uses(prog)]
    feats = {"swv_reduction": any(q[0] == "swv" and q[4] is not None for q in nodes), "root_op": prog[0],
             "overlap_below": any(q[0] == "map_overlap" or (q[0] == "call" and "overlap" in q[1]) for q in nodes),
             "shared_leaf": len(leaves) != len(set(leaves)) or any(q[0] in ("diff", "where", "roll", "map_overlap", "cum", "setitem", "where_out") for q in nodes),
             # API calls that consume their operand several times (sharing made inside the call): da.pad
             "api_shared_operand": any(q[0] == "call" and q[1] == "pad" for q in nodes)}
    old = signal.signal(signal.SIGALRM, _alarm)
    signal.alarm(budget)
    try:
        with warnings.catch_warnings():
            warnings.simplefilter("ignore")
            s1 = expr.simplify()
            s2 = s1.simplify()
            l1 = s1.lower_completely()
            l2 = l1.lower_completely()
            f1 = l1.fuse()
            f2 = f1.fuse()
            o1 = expr.optimize()
            o2 = o1.optimize()
            val = exprs.eval_lowered(f1)
    except Timeout:
        chk.violation(f"simplify/lower/fuse did not finish within {budget}s", desc, signature={"class": "timeout", **feats})
        return
    except Exception as e:  # noqa: BLE001
        chk.violation(f"optimization turned a computable program into one that raises: {type(e).__name__}: {str(e)[:150]}", desc,
                      signature={"class": "raises", "error": err_sig(e), **feats})
        return
    finally:
        signal.alarm(0)
        signal.signal(signal.SIGALRM, old)
    problems = []
    if s2._name != s1._name:
        problems.append("simplify is not idempotent")
    if l2._name != l1._name:
        problems.append("lower_completely is not idempotent")
    if f2._name != f1._name:
        problems.append("fuse is not idempotent")
    if o2._name != o1._name:
        problems.append("optimize(optimize(e)) has a different name than optimize(e)")
    ok, why = exprs.same(val, ref)
    if problems:
        chk.violation("; ".join(problems), {**desc, "forms": {"simplified": exprs.tree(s1), "resimplified": exprs.tree(s2)}},
                      signature={"class": "not-idempotent", "what": problems[0][:20], **feats})
    else:
        chk.traces_validated += 1
    if not ok:
        chk.count("optimized-value-differs(C02)")


def towers(rng):
    """adversarial rechunk / concat / slice towers for the self-declining lowering fixpoints"""
    g = progs.Gen(rng, ops=["rechunk", "concat", "slice", "rechunk", "concat", "T", "elem2"], sources=[])
    p, v = g.program(rng.choice([4, 6, 8, 10]))
    return p, g.sources, v


def fam_normal_forms(chk, da):
    """MODEL CORRESPONDENCE for the rewrite SYSTEM (coq/theories/Rewrite.v): the reified result of the real expr.simplify() is a
    normal form of the model system, the real rewrite / sweep counts are bounded by mu, simplify_model against the real
    result, confluence of the raw expression (harness/c08_nf.py)"""
    import c08_nf
    c08_nf.fam_normal_forms(chk, da)


def fam_demanding_kernels(chk, da):
    """Block functions that DEMAND what the unoptimized program gives them (a whole window per block under map_overlap / map_blocks,
    a non-empty block): "optimization never turns a computable program into one that raises".  For slices of the result near the
    ends and the block seams, the program must compute without optimization (else the case is skipped) and then also with it, to
    the same values."""
    import random as _random
    import dask
    rng = _random.Random(f"C08-demanding-{chk.seed}")
    for it in range(300 if chk.tier == "thorough" else 45):
        d_l, d_r = rng.choice([(1, 1), (2, 2), (2, 2), (3, 3), (2, 0), (0, 3), (1, 2)])
        window = d_l + d_r + 1
        csize = rng.choice([window + 1, window + 3, 10])
        nblocks = rng.choice([2, 3, 4])
        n = csize * nblocks
        kind = rng.choice(["none", "none", "reflect", "periodic", "nearest"])
        if kind != "none" and d_l != d_r:
            d_r = d_l
            window = 2 * d_l + 1

        def kernel(b, _w=window, _l=d_l, _r=d_r):
            if b.shape[0] < _w:
                raise ValueError(f"block of {b.shape[0]} rows is smaller than the window ({_w})")
            c = np.concatenate([np.zeros((1,) + b.shape[1:]), np.cumsum(b, axis=0)], axis=0)
            m = b.shape[0]
            lo = np.maximum(np.arange(m) - _l, 0)
            hi = np.minimum(np.arange(m) + _r + 1, m)
            return c[hi] - c[lo]
        arr = np.arange(float(n * 3)).reshape(n, 3) % 11
        x = da.from_array(arr, chunks=((csize,) * nblocks, (3,)))
        depth0 = d_l if d_l == d_r else (d_l, d_r)
        try:
            with warnings.catch_warnings():
                warnings.simplefilter("ignore")
                r = da.map_overlap(kernel, x, depth={0: depth0, 1: 0}, boundary={0: kind, 1: "none"}, trim=True, dtype="float64")
                full = np.asarray(r.compute(scheduler="sync"))
        except Exception:  # noqa: BLE001
            chk.count("demanding:full-program-raises")
            continue
        edges = sorted({0, 1, 2, d_l, d_l + 1, n - d_r - 1, n - d_r, n - 2, n - 1, n, csize - 1, csize, csize + 1, csize + d_r + 1})
        edges = [e for e in edges if 0 <= e <= n]
        for _ in range(6):
            lo = rng.choice(edges)
            hi = rng.choice([e for e in edges if e > lo] or [n])
            if hi <= lo:
                continue
            desc = {"program": f"map_overlap(window kernel {window}, depth=({d_l},{d_r}), boundary={kind})[{lo}:{hi}]", "chunks": (csize,) * nblocks}
            chk.count("demanding:" + kind)
            chk.case(("demanding", kind, d_l, d_r, csize, nblocks, lo, hi, it), nontrivial=True)
            try:
                with warnings.catch_warnings(), dask.config.set({"array.optimize-graph": False}):
                    warnings.simplefilter("ignore")
                    ref = np.asarray(r[lo:hi].compute(scheduler="sync"))
            except Exception:  # noqa: BLE001
                chk.count("demanding:not-computable-unoptimized")
                continue
            try:
                with warnings.catch_warnings():
                    warnings.simplefilter("ignore")
                    y = r[lo:hi]
                    y.expr.optimize()
                    got = np.asarray(y.compute(scheduler="sync"))
            except Exception as e:  # noqa: BLE001
                chk.violation(f"optimization turns a computable program into one that raises: {type(e).__name__}: {str(e)[:90]}", desc,
                              signature={"class": "optimized-raises", "fn": "map_overlap", "boundary": kind, "error": type(e).__name__})
                continue
            keep = np.ones(hi - lo, dtype=bool) if kind != "none" else np.array([d_l <= p < n - d_r for p in range(lo, hi)], dtype=bool)
            if got.shape != ref.shape or not np.array_equal(got[keep], ref[keep]):
                chk.violation("the optimized program computes other values than the unoptimized one", {**desc, "got": got.tolist(), "want": ref.tolist()},
                              signature={"class": "optimized-value", "fn": "map_overlap", "boundary": kind})
            else:
                chk.traces_validated += 1


def replay(path):
    print(open(path).read())


def run(chk: Check):
    import dask_array as da
    chk.rule = ("generated programs + adversarial rechunk/concat/slice towers; a program that computes from its raw (lowered-only) form "
                "must simplify, lower and fuse without error under a watchdog, and simplify/lower/fuse/optimize applied twice must "
                "return the same name; non-trivial = more than one node")
    chk.rule += ("; MODEL CORRESPONDENCE (fam_normal_forms, harness/c08_nf.py): raw expression and the REAL expr.simplify() result of "
                 "generated programs are reified (the reifier of c02_rules; unmodelled classes are opaque leaves) and Coq evaluates "
                 "Rewrite.applicable on the real fixpoint (must be false: the real fixpoint is a normal form of the 18-rule system; "
                 "where a model rule still applies the implementation's gate that declined it is identified by replaying the hook: "
                 "guard-gap:<rule>:<gate>), mu raw against the number of fired real rewrites / sweeps, simplify_model raw against "
                 "the real result, and normal_forms raw (confluence; the real result must be among them)")
    chk.assumptions = ["fam_normal_forms: the model rules transcribe _accept_slice / Rechunk._pushdown; the gates in front of them in "
                       "ArrayExpr._slice_pushdown / _rechunk_pushdown (another consumer of the child, no whole block culled, grid contract) "
                       "are not part of the rules: a real fixpoint in which a model rule applies is explained by the gate (counted), "
                       "anything else is a tie break",
                       "fam_normal_forms: bounds (ii) and the comparison with simplify_model are made on programs whose fired simplify "
                       "rewrites are all instances of the 18 rules (slice-into-FromArray, Transpose-through-Elemwise and "
                       "Rechunk-through-Concatenate are not measure-decreasing and are outside the system) and whose raw expression "
                       "has no opaque inner node"]
    chk.run_proofs()
    fam_normal_forms(chk, da)
    fam_demanding_kernels(chk, da)
    import c01
    for tag, prog, sources in c01.CORPUS:
        if tag in ("F11a", "F11b", "F18", "F20"):
            run_program(chk, da, prog, sources)
    for tag, prog, sources in progs.corpus_cases("C08"):
        run_program(chk, da, prog, sources)
    prog = ("broadcast_to", ("flip", ("diff", ("src", 0), 0), 0), (3, 5))
    run_program(chk, da, prog, [(np.arange(6, dtype="int64"), ((2, 4),))])
    n = 8000 if chk.tier == "thorough" else 500
    for i, (prog, sources, want) in enumerate(progs.gen_programs(chk.rng, n, ops=progs.CORE_OPS)):
        run_program(chk, da, prog, sources)
    import random as _random
    api_rng = _random.Random(f"{chk.pid}-api-family-{chk.seed}")      # own stream: the families above keep theirs
    for prog, sources, want in progs.gen_api_programs(api_rng, 4000 if chk.tier == "thorough" else 400):
        chk.count("api-call:" + next(q[1] for q in progs.all_nodes(prog) if q[0] == "call"))
        run_program(chk, da, prog, sources)
    for _ in range(n // 4):
        prog, sources, want = towers(chk.rng)
        run_program(chk, da, prog, sources)
    # nested-chunk unification above view-like nodes: the operand's partner is chunked as a coarsening / refinement of what
    # the operand advertises, so lowering inserts a (lowered) rechunk directly above transposes, slices, flips ...
    for prog, sources, want in progs.gen_programs(chk.rng, n // 2, ops=["T", "T", "slice", "flip", "expand", "elem1", "rechunk", "concat"], depth_choices=(1, 2)):
        if not np.ndim(want) or 0 in np.shape(want):
            continue
        try:
            with warnings.catch_warnings():
                warnings.simplefilter("ignore")
                ch = progs.build(prog, da, sources, memo={}).chunks
        except Exception:  # noqa: BLE001
            continue
        new = []
        for c in ch:
            if any(isinstance(x, float) for x in c):
                new = None
                break
            if chk.rng.random() < 0.6 and len(c) > 1:      # coarsen: merge adjacent blocks
                out, acc = [], 0
                for x in c:
                    acc += x
                    if chk.rng.random() < 0.5:
                        out.append(acc)
                        acc = 0
                if acc:
                    out.append(acc)
                new.append(tuple(out))
            else:
                new.append(tuple(c))
        if new is None:
            continue
        sources = list(sources) + [((np.arange(int(np.prod(np.shape(want))), dtype="int64").reshape(np.shape(want)) % 9) - 4, tuple(new))]
        run_program(chk, da, ("elem", "add", prog, ("src", len(sources) - 1)), sources)
    # slices that only trim INSIDE the first / last block (they cull no whole block: pushdown gates differ between the raw and
    # the lowered form of a node) on top of every kind of root; and all-integer indices over masked ufunc calls (where= / out=)
    for prog, sources, want in progs.gen_programs(api_rng, n // 2, ops=progs.CORE_OPS + ["reduce", "cum"], depth_choices=(1, 2, 3)):
        if not np.ndim(want) or 0 in np.shape(want):
            continue
        try:
            with warnings.catch_warnings():
                warnings.simplefilter("ignore")
                ch = progs.build(prog, da, sources, memo={}).chunks
        except Exception:  # noqa: BLE001
            continue
        if any(isinstance(x, float) for c in ch for x in c):
            continue
        idx = tuple(slice(1 if c[0] >= 2 else 0, sum(c) - (1 if c[-1] >= 2 else 0)) for c in ch)
        if all(i == slice(0, sum(c)) for i, c in zip(idx, ch)):
            continue
        chk.count("family:inside-block-trim")
        run_program(chk, da, ("slice", prog, idx), sources)
    for prog, sources, want in progs.gen_programs(api_rng, n // 3, ops=["where_out", "where_out", "elem2", "slice", "T"], depth_choices=(1, 2)):
        if not np.ndim(want) or 0 in np.shape(want) or not any(q[0] == "where_out" for q in progs.all_nodes(prog)):
            continue
        idx = tuple(api_rng.randrange(-s, s) for s in np.shape(want))
        chk.count("family:integer-index-over-masked-ufunc")
        run_program(chk, da, ("slice", prog, idx), sources)
        if np.ndim(want) > 1:
            run_program(chk, da, ("slice", prog, idx[:-1]), sources)
    # empty and degenerate selections on top of every kind of root (pushdowns meet empty inputs)
    for prog, sources, want in progs.gen_programs(chk.rng, n // 2, ops=progs.CORE_OPS, depth_choices=(1, 2, 3)):
        if not np.ndim(want):
            continue
        ax = chk.rng.randrange(np.ndim(want))
        k = chk.rng.randint(0, np.shape(want)[ax])
        idx = tuple(slice(k, k) if a == ax else slice(None) for a in range(np.ndim(want)))[: ax + 1]
        run_program(chk, da, ("slice", prog, idx), sources)
