"""C13 — slice algebra helpers are exact.

Correspondence: impl (dask_array.slicing) vs the Gallina model (coq/theories/Slicing.v)
evaluated inside Coq, plus the property-level oracle (Python list/NumPy slicing)."""
from __future__ import annotations

import itertools

import numpy as np

from common import Check, cbool, clist, copt, coq_eval_cases, coq_eval_expr, cslice, ctuple, cz, err_kind

HEADER = "From DA Require Import PyBase Slicing.\nOpen Scope Z_scope.\n"


def compositions(n, maxparts=None):
    """all tuples of positive ints summing to n"""
    if n == 0:
        yield ()
        return
    for first in range(1, n + 1):
        for rest in compositions(n - first):
            yield (first,) + rest


def rand_chunks(rng, n, allow_zero=False):
    if n == 0:
        return (0,)
    k = rng.choice([1, 1, 2, 3, 4, 5, 8])
    k = min(k, n)
    cuts = sorted(rng.sample(range(1, n), k - 1)) if k > 1 else []
    cs = [b - a for a, b in zip([0] + cuts, cuts + [n])]
    if allow_zero and rng.random() < 0.15:
        cs.insert(rng.randrange(len(cs) + 1), 0)
    return tuple(cs)


def rand_slice(rng, n):
    def ep():
        if rng.random() < 0.25:
            return None
        return rng.randint(-n - 3, n + 3)
    steps = [None, 1, 2, 3, 7, -1, -2, -3, -7, max(n, 1), -max(n, 1), n + 1, -(n + 1)]
    return slice(ep(), ep(), rng.choice(steps))


def all_slices(n, maxstep):
    eps = [None] + list(range(-n - 2, n + 3))
    steps = [None] + [k for k in range(-maxstep, maxstep + 1) if k != 0]
    for a in eps:
        for b in eps:
            for k in steps:
                yield slice(a, b, k)


def sl_repr(s):
    return f"slice({s.start},{s.stop},{s.step})"


# ---------------------------------------------------------------------------
def fam_normalize(chk, impl, tier):
    rng = chk.rng
    inputs = []
    if tier == "thorough":
        for n in range(0, 8):
            inputs += [(s, n) for s in all_slices(n, 4)]
    else:
        for n in range(0, 4):
            inputs += [(s, n) for s in all_slices(n, 2)]
    for _ in range(6000 if tier == "thorough" else 1500):
        n = rng.choice([0, 1, 2, 3, 5, 8, 13, 40])
        inputs.append((rand_slice(rng, n), n))
    # corpus: repaired finding F8 must stay repaired
    inputs = [(slice(-7, None, -1), 5), (slice(-4, 0, -2), 2), (slice(-41, 3, -3), 40)] + inputs
    cases = []
    for s, n in inputs:
        out = impl.normalize_slice(s, n)
        base = list(range(n))
        neg = (s.step or 1) < 0
        chk.count("normalize:" + ("neg" if neg else "pos"))
        chk.case(("norm", sl_repr(s), n), nontrivial=(out != s), sample={"fn": "normalize_slice", "slice": sl_repr(s), "n": n, "impl": sl_repr(out)})
        if base[out] != base[s]:
            below = neg and s.start is not None and s.start < -n
            chk.violation(
                "normalize_slice changes the selected positions",
                {"fn": "normalize_slice", "slice": sl_repr(s), "dim": n, "impl": sl_repr(out),
                 "selected_before": base[s], "selected_after": base[out]},
                signature={"fn": "normalize_slice", "class": "neg-step-start-below-minus-n" if below else "other"},
            )
        cases.append(ctuple(cslice(s), cz(n), cslice(out)))
    mism, _ = coq_eval_cases(
        HEADER, "pslice * Z * pslice",
        "Definition chk (c : pslice * Z * pslice) : bool := let '(s, n, o) := c in pslice_eqb (normalize_slice s n) o.",
        cases)
    for i in mism[:5]:
        s, n = inputs[i]
        model = coq_eval_expr(HEADER, [f"normalize_slice {cslice(s)} {cz(n)}"])[0]
        chk.tie_break("correspondence:normalize_slice", {"slice": sl_repr(s), "dim": n, "impl": sl_repr(impl.normalize_slice(s, n)), "model": model})
    chk.traces_validated += len(cases) - len(mism)


# ---------------------------------------------------------------------------
def cpidx(x):
    if x is None:
        return "INone"
    if isinstance(x, slice):
        return f"(ISlice {cslice(x)})"
    return f"(IInt {cz(x)})"


def idx_repr(t):
    return "(" + ", ".join("None" if x is None else sl_repr(x) if isinstance(x, slice) else str(x) for x in t) + ")"


def rand_nonneg_slice(rng, n, allow_neg=0.0):
    def ep(none_p):
        if rng.random() < none_p:
            return None
        if rng.random() < allow_neg:
            return rng.randint(-n - 2, -1)
        return rng.randint(0, n + 2)
    step = rng.choice([None, 1, 1, 2, 3, 5])
    if rng.random() < allow_neg:
        step = -rng.choice([1, 2])
    return slice(ep(0.3), ep(0.3), step)


def fam_fuse(chk, impl, tier):
    rng = chk.rng
    N = 20000 if tier == "thorough" else 2500
    cases, inputs = [], []
    # scalar pairs: slice∘slice and slice∘int
    for _ in range(N):
        n = rng.choice([0, 1, 2, 5, 9, 17, 30])
        a = rand_nonneg_slice(rng, n, allow_neg=0.06)
        if rng.random() < 0.7:
            b = rand_nonneg_slice(rng, n, allow_neg=0.06)
        else:
            b = rng.randint(-2, n + 1)
        try:
            out = impl.fuse_slice(a, b)
            err = None
        except NotImplementedError:
            out, err = None, "NotImplemented"
        chk.count("fuse:" + ("ss" if isinstance(b, slice) else "si") + (":declined" if err else ""))
        chk.case(("fuse", sl_repr(a), repr(b)), nontrivial=(err is None),
                 sample={"fn": "fuse_slice", "a": sl_repr(a), "b": sl_repr(b) if isinstance(b, slice) else b,
                         "impl": (sl_repr(out) if isinstance(out, slice) else out) if err is None else err})
        if err is None:
            for m in {n, n + 3, max(0, n - 2), 41}:
                x = np.arange(m)
                try:
                    want = x[a][b]
                except IndexError:
                    continue  # b out of bounds for x[a]: NumPy raises, nothing to compare
                got = x[out]
                if not np.array_equal(want, got):
                    chk.violation("fuse_slice result selects different elements than applying a then b",
                                  {"fn": "fuse_slice", "a": sl_repr(a), "b": repr(b), "fused": repr(out), "dim": m,
                                   "want": want.tolist(), "got": np.asarray(got).tolist()},
                                  signature={"fn": "fuse_slice", "class": "scalar"})
                    break
        if isinstance(b, slice):
            cases.append(ctuple(cpidx(a), cpidx(b), copt(out, cpidx)))
        else:
            cases.append(ctuple(cpidx(a), cpidx(b), copt(out, cpidx)))
        inputs.append((a, b, out))
    mism, _ = coq_eval_cases(
        HEADER, "pidx * pidx * option pidx",
        "Definition chk (c : pidx * pidx * option pidx) : bool := let '(a, b, o) := c in\n"
        "  match fuse_elem a b, o with Some x, Some y => pidx_eqb x y | None, None => true | _, _ => false end.",
        cases)
    for i in mism[:5]:
        a, b, out = inputs[i]
        model = coq_eval_expr(HEADER, [f"fuse_elem {cpidx(a)} {cpidx(b)}"])[0]
        chk.tie_break("correspondence:fuse_slice(scalar)", {"a": repr(a), "b": repr(b), "impl": repr(out), "model": model})
    chk.traces_validated += len(cases) - len(mism)

    # tuples
    cases, inputs = [], []
    for _ in range(N // 2):
        rank = rng.choice([1, 2, 2, 3])
        shape = tuple(rng.choice([1, 2, 3, 4, 6]) for _ in range(rank))
        a = []
        for d in shape:
            r = rng.random()
            if r < 0.2:
                a.append(rng.randint(0, d - 1))
            else:
                a.append(rand_nonneg_slice(rng, d, allow_neg=0.03))
        if rng.random() < 0.15:
            a.insert(rng.randrange(len(a) + 1), None)
        if rng.random() < 0.3:
            a = a[: rng.randint(1, len(a))]
        a = tuple(a)
        x = np.arange(int(np.prod(shape))).reshape(shape)
        try:
            xa = x[a]
        except IndexError:
            continue
        b = []
        for d in xa.shape:
            r = rng.random()
            if r < 0.2 and d > 0:
                b.append(rng.randint(0, d - 1))
            else:
                b.append(rand_nonneg_slice(rng, d, allow_neg=0.03))
            if rng.random() < 0.12:
                b.append(None)
        if rng.random() < 0.3:
            b = b[: rng.randint(0, len(b))]
        b = tuple(b)
        try:
            out = impl.fuse_slice(a, b)
            err = None
        except NotImplementedError:
            out, err = None, "NotImplemented"
        except IndexError:
            out, err = None, "IndexError"
        chk.count("fuse:tuple" + (":" + err if err else ""))
        chk.case(("fuset", idx_repr(a), idx_repr(b)), nontrivial=(err is None),
                 sample={"fn": "fuse_slice", "a": idx_repr(a), "b": idx_repr(b), "impl": idx_repr(out) if err is None else err})
        if err is None:
            try:
                want = xa[b]
            except IndexError:
                want = None
            if want is not None:
                try:
                    got = x[out]
                    bad = (got.shape != want.shape) or not np.array_equal(got, want)
                except Exception as e:  # noqa: BLE001
                    got, bad = repr(e), True
                if bad:
                    chk.violation("fuse_slice (tuples) selects different elements than applying a then b",
                                  {"fn": "fuse_slice", "shape": shape, "a": idx_repr(a), "b": idx_repr(b),
                                   "fused": idx_repr(out), "want": want.tolist(),
                                   "got": got.tolist() if hasattr(got, "tolist") else got},
                                  signature={"fn": "fuse_slice", "class": "tuple"})
        cases.append(ctuple(clist(a, cpidx), clist(b, cpidx), copt(out, lambda t: clist(t, cpidx))))
        inputs.append((a, b, out, err))
    mism, _ = coq_eval_cases(
        HEADER, "list pidx * list pidx * option (list pidx)",
        "Definition chk (c : list pidx * list pidx * option (list pidx)) : bool := let '(a, b, o) := c in\n"
        "  match fuse_tuple a b, o with Some x, Some y => list_eqb pidx_eqb x y | None, None => true | _, _ => false end.",
        cases)
    for i in mism[:5]:
        a, b, out, err = inputs[i]
        model = coq_eval_expr(HEADER, [f"fuse_tuple {clist(a, cpidx)} {clist(b, cpidx)}"])[0]
        chk.tie_break("correspondence:fuse_slice(tuple)", {"a": idx_repr(a), "b": idx_repr(b), "impl": idx_repr(out) if out is not None else err, "model": model})
    chk.traces_validated += len(cases) - len(mism)


# ---------------------------------------------------------------------------
def fam_compose(chk, impl, tier):
    rng = chk.rng
    cases, inputs = [], []
    N = 12000 if tier == "thorough" else 2000

    def unit(n):
        def ep():
            return None if rng.random() < 0.3 else rng.randint(-n - 3, n + 3)
        return slice(ep(), ep(), rng.choice([None, 1]))

    for k in range(N):
        n = rng.choice([0, 1, 2, 3, 5, 8, 13, 40])
        general = k % 4 == 3
        outer = rand_slice(rng, n) if general else unit(n)
        base = list(range(n))
        inner = rand_slice(rng, len(base[outer])) if general else unit(len(base[outer]))
        out = impl._compose_slices(outer, inner, n)
        chk.count("compose:" + ("general" if general else "unit"))
        chk.case(("compose", sl_repr(outer), sl_repr(inner), n), nontrivial=(base[outer] != base),
                 sample={"fn": "_compose_slices", "outer": sl_repr(outer), "inner": sl_repr(inner), "n": n, "impl": sl_repr(out)})
        if base[out] != base[outer][inner]:
            unit_steps = (outer.step in (None, 1)) and (inner.step in (None, 1))
            chk.violation("_compose_slices result selects different elements than outer then inner",
                          {"fn": "_compose_slices", "outer": sl_repr(outer), "inner": sl_repr(inner), "dim": n,
                           "impl": sl_repr(out), "want": base[outer][inner], "got": base[out]},
                          signature={"fn": "_compose_slices", "class": "unit-steps" if unit_steps else "non-unit-step"})
        cases.append(ctuple(cslice(outer), cslice(inner), cz(n), cslice(out)))
        inputs.append((outer, inner, n, out))
    mism, _ = coq_eval_cases(
        HEADER, "pslice * pslice * Z * pslice",
        "Definition chk (c : pslice * pslice * Z * pslice) : bool := let '(a, b, n, o) := c in pslice_eqb (compose_slices a b n) o.",
        cases)
    for i in mism[:5]:
        outer, inner, n, out = inputs[i]
        model = coq_eval_expr(HEADER, [f"compose_slices {cslice(outer)} {cslice(inner)} {cz(n)}"])[0]
        chk.tie_break("correspondence:_compose_slices", {"outer": sl_repr(outer), "inner": sl_repr(inner), "dim": n, "impl": sl_repr(out), "model": model})
    chk.traces_validated += len(cases) - len(mism)


# ---------------------------------------------------------------------------
def cploc(v):
    if isinstance(v, slice):
        return f"(LSlice {cslice(v)})"
    return f"(LInt {cz(v)})"


def plan_positions(lengths, plan):
    offs = [0]
    for c in lengths:
        offs.append(offs[-1] + c)
    out = []
    for k, loc in plan:
        block = list(range(offs[k], offs[k + 1]))
        if isinstance(loc, slice):
            out.append(block[loc])
        else:
            out.append([block[loc]])
    return out


def fam_slice1d(chk, impl, tier):
    rng = chk.rng
    inputs = []
    if tier == "thorough":
        for n in range(1, 8):
            for cs in compositions(n):
                for s in all_slices(n, 3):
                    inputs.append((n, cs, impl.normalize_slice(s, n)))
        inputs = list({(n, cs, sl_repr(s)): (n, cs, s) for n, cs, s in inputs}.values())
    else:
        for n in range(1, 5):
            for cs in compositions(n):
                for s in all_slices(n, 2):
                    inputs.append((n, cs, impl.normalize_slice(s, n)))
        inputs = list({(n, cs, sl_repr(s)): (n, cs, s) for n, cs, s in inputs}.values())
    # corpus: repaired finding F12 (negative step starting right after a zero-length chunk) must stay repaired
    inputs = [(2, (1, 0, 1), slice(None, None, -1)), (4, (2, 0, 2), slice(2, None, -1)), (5, (3, 0, 2), slice(3, None, -2)),
              (7, (4, 0, 3), slice(4, 1, -1)), (6, (3, 0, 0, 3), slice(3, None, -1))] + inputs
    for _ in range(15000 if tier == "thorough" else 2000):
        n = rng.choice([1, 2, 3, 5, 8, 13, 24, 40])
        cs = rand_chunks(rng, n, allow_zero=True)
        s = impl.normalize_slice(rand_slice(rng, n), n)
        inputs.append((n, cs, s))
    # integer indices
    int_inputs = []
    for _ in range(2000 if tier == "thorough" else 400):
        n = rng.choice([1, 2, 3, 5, 8, 13, 24, 40])
        cs = rand_chunks(rng, n, allow_zero=True)
        int_inputs.append((n, cs, rng.randrange(n)))

    cases, nb_cases = [], []
    for n, cs, s in inputs:
        d = impl._slice_1d(n, cs, s)
        plan = list(d.items())
        base = list(range(n))
        neg = (s.step or 1) < 0
        chk.count("slice1d:" + ("neg" if neg else "pos") + (":multi" if len(plan) > 1 else ""))
        chk.case(("s1d", n, cs, sl_repr(s)), nontrivial=len(plan) > 1 or s != slice(None),
                 sample={"fn": "_slice_1d", "n": n, "chunks": cs, "index": sl_repr(s),
                         "impl": {k: (sl_repr(v) if isinstance(v, slice) else v) for k, v in plan}})
        pieces = plan_positions(cs, plan)
        flat = [p for piece in pieces for p in piece]
        problems = []
        if flat != base[s]:
            problems.append("pieces do not concatenate to the selected positions in order")
        if len(set(k for k, _ in plan)) != len(plan):
            problems.append("block listed twice")
        nb = impl.new_blockdim(n, cs, s)
        want_nb = [len(p) for p in pieces]
        if s != slice(None) and list(nb) != want_nb:
            problems.append(f"new_blockdim {list(nb)} != per-block piece lengths {want_nb}")
        if s == slice(None) and tuple(nb) != tuple(cs):
            problems.append("new_blockdim of full slice differs from the chunks")
        if problems:
            chk.violation("; ".join(problems),
                          {"fn": "_slice_1d/new_blockdim", "dim": n, "chunks": cs, "index": sl_repr(s),
                           "plan": {k: (sl_repr(v) if isinstance(v, slice) else v) for k, v in plan},
                           "new_blockdim": list(nb), "selected": base[s], "pieces": pieces},
                          signature={"fn": "_slice_1d", "class": "neg" if neg else "pos"})
        cases.append(ctuple(cz(n), clist(cs), cslice(s), clist(plan, lambda e: ctuple(cz(e[0]), cploc(e[1]))), clist(nb)))
    mism, _ = coq_eval_cases(
        HEADER, "Z * list Z * pslice * list (Z * ploc) * list Z",
        "Definition eeqb (a b : Z * ploc) := (fst a =? fst b) && ploc_eqb (snd a) (snd b).\n"
        "Definition chk (c : Z * list Z * pslice * list (Z * ploc) * list Z) : bool := let '(n, cs, s, plan, nb) := c in\n"
        "  list_eqb eeqb (slice_1d_slice n cs s) plan && zlist_eqb (new_blockdim n cs s) nb.",
        cases)
    for i in mism[:5]:
        n, cs, s = inputs[i]
        model = coq_eval_expr(HEADER, [f"(slice_1d_slice {cz(n)} {clist(cs)} {cslice(s)}, new_blockdim {cz(n)} {clist(cs)} {cslice(s)})"])[0]
        chk.tie_break("correspondence:_slice_1d/new_blockdim",
                      {"dim": n, "chunks": cs, "index": sl_repr(s), "impl_plan": repr(impl._slice_1d(n, cs, s)),
                       "impl_new_blockdim": list(impl.new_blockdim(n, cs, s)), "model": model})
    chk.traces_validated += len(cases) - len(mism)

    cases = []
    for n, cs, i in int_inputs:
        d = impl._slice_1d(n, cs, i)
        plan = list(d.items())
        chk.count("slice1d:int")
        chk.case(("s1di", n, cs, i), nontrivial=True)
        pieces = plan_positions(cs, plan)
        if pieces != [[i]]:
            chk.violation("_slice_1d(int) does not address the requested element",
                          {"fn": "_slice_1d", "dim": n, "chunks": cs, "index": i, "plan": repr(d)},
                          signature={"fn": "_slice_1d", "class": "int"})
        cases.append(ctuple(clist(cs), cz(i), clist(plan, lambda e: ctuple(cz(e[0]), cploc(e[1])))))
    mism, _ = coq_eval_cases(
        HEADER, "list Z * Z * list (Z * ploc)",
        "Definition eeqb (a b : Z * ploc) := (fst a =? fst b) && ploc_eqb (snd a) (snd b).\n"
        "Definition chk (c : list Z * Z * list (Z * ploc)) : bool := let '(cs, i, plan) := c in list_eqb eeqb (slice_1d_int cs i) plan.",
        cases)
    for i in mism[:5]:
        n, cs, k = int_inputs[i]
        chk.tie_break("correspondence:_slice_1d(int)", {"dim": n, "chunks": cs, "index": k, "impl": repr(impl._slice_1d(n, cs, k))})
    chk.traces_validated += len(cases) - len(mism)


# ---------------------------------------------------------------------------
def fam_sliced_chunks(chk, impl, tier):
    rng = chk.rng
    cases, inputs = [], []
    for _ in range(8000 if tier == "thorough" else 1500):
        n = rng.choice([0, 1, 2, 3, 5, 8, 13, 24, 40])
        cs = rand_chunks(rng, n, allow_zero=(n > 0))
        s = rand_slice(rng, n)
        out = impl._compute_sliced_chunks(cs, s, n)
        base = list(range(n))
        want_len = len(base[s])
        chk.count("sliced_chunks:" + ("unit" if s.step in (None, 1) else "step"))
        chk.case(("csc", n, cs, sl_repr(s)), nontrivial=(tuple(out) != tuple(cs)),
                 sample={"fn": "_compute_sliced_chunks", "chunks": cs, "slice": sl_repr(s), "n": n, "impl": list(out)})
        problems = []
        if sum(out) != want_len:
            problems.append(f"chunks sum {sum(out)} != number of selected elements {want_len}")
        if any(c < 0 for c in out) or len(out) == 0:
            problems.append("invalid layout")
        if s.step in (None, 1) and want_len > 0 and s != slice(None):
            # unit step: the per-block intersections of [start, stop) with the old blocks
            a, b, _ = s.indices(n)
            offs = np.concatenate([[0], np.cumsum(cs)])
            want = [int(min(hi, b) - max(lo, a)) for lo, hi in zip(offs[:-1], offs[1:]) if hi > a and lo < b]
            if list(out) != want:
                problems.append(f"unit-step chunks {list(out)} != block intersections {want}")
        if problems:
            chk.violation("; ".join(problems), {"fn": "_compute_sliced_chunks", "chunks": cs, "slice": sl_repr(s), "dim": n, "impl": list(out)},
                          signature={"fn": "_compute_sliced_chunks"})
        cases.append(ctuple(clist(cs), cslice(s), cz(n), clist(out)))
        inputs.append((cs, s, n, out))
    mism, _ = coq_eval_cases(
        HEADER, "list Z * pslice * Z * list Z",
        "Definition chk (c : list Z * pslice * Z * list Z) : bool := let '(cs, s, n, o) := c in zlist_eqb (compute_sliced_chunks cs s n) o.",
        cases)
    for i in mism[:5]:
        cs, s, n, out = inputs[i]
        model = coq_eval_expr(HEADER, [f"compute_sliced_chunks {clist(cs)} {cslice(s)} {cz(n)}"])[0]
        chk.tie_break("correspondence:_compute_sliced_chunks", {"chunks": cs, "slice": sl_repr(s), "dim": n, "impl": list(out), "model": model})
    chk.traces_validated += len(cases) - len(mism)

    # SliceSlicesIntegers._slice_chunks(chunks, start, length)
    from dask_array.slicing._basic import SliceSlicesIntegers
    cases, inputs = [], []
    for _ in range(4000 if tier == "thorough" else 800):
        n = rng.choice([1, 2, 3, 5, 8, 13, 24, 40])
        cs = rand_chunks(rng, n, allow_zero=True)
        start = rng.randint(0, n)
        length = rng.randint(0, n - start)
        out = SliceSlicesIntegers._slice_chunks(None, cs, start, length)
        offs = np.concatenate([[0], np.cumsum(cs)])
        want = [int(min(hi, start + length) - max(lo, start)) for lo, hi in zip(offs[:-1], offs[1:])
                if min(hi, start + length) - max(lo, start) > 0] or [0]
        chk.count("slice_chunks")
        chk.case(("sc", cs, start, length), nontrivial=True)
        if list(out) != want:
            chk.violation("_slice_chunks differs from block intersections", {"fn": "_slice_chunks", "chunks": cs, "start": start, "length": length, "impl": list(out), "want": want},
                          signature={"fn": "_slice_chunks"})
        cases.append(ctuple(clist(cs), cz(start), cz(length), clist(out)))
        inputs.append((cs, start, length, out))
    mism, _ = coq_eval_cases(
        HEADER, "list Z * Z * Z * list Z",
        "Definition chk (c : list Z * Z * Z * list Z) : bool := let '(cs, a, l, o) := c in zlist_eqb (slice_chunks cs a l) o.",
        cases)
    for i in mism[:5]:
        cs, a, ln, out = inputs[i]
        chk.tie_break("correspondence:_slice_chunks", {"chunks": cs, "start": a, "length": ln, "impl": list(out)})
    chk.traces_validated += len(cases) - len(mism)


class Impl:
    def __init__(self):
        from dask_array.slicing import _basic, _utils
        self.normalize_slice = _utils.normalize_slice
        self.fuse_slice = _utils.fuse_slice
        self._slice_1d = _utils._slice_1d
        self.new_blockdim = _utils.new_blockdim
        self._compose_slices = _basic._compose_slices
        self._compute_sliced_chunks = _basic._compute_sliced_chunks


def replay(path):
    import json
    r = json.load(open(path))
    print(json.dumps(r, indent=1))
    d = r.get("data", {})
    impl = Impl()
    def ps(t):
        return eval(t, {"slice": slice, "None": None})
    fn = d.get("fn")
    if fn == "normalize_slice":
        s, n = ps(d["slice"]), d["dim"]
        o = impl.normalize_slice(s, n)
        print("impl now:", o, "selected", list(range(n))[o], "oracle", list(range(n))[s])
    elif fn == "_compose_slices":
        a, b, n = ps(d["outer"]), ps(d["inner"]), d["dim"]
        o = impl._compose_slices(a, b, n)
        print("impl now:", o, "selected", list(range(n))[o], "oracle", list(range(n))[a][b])
    else:
        print("(re-run the check to reproduce; inputs are in `data`)")


def run(chk: Check):
    chk.rule = ("generated + exhaustive-small inputs for normalize_slice, fuse_slice (scalar, tuple), _compose_slices, "
                "_slice_1d/new_blockdim, _compute_sliced_chunks, _slice_chunks; every case is compared impl-vs-Gallina-model "
                "(inside Coq, vm_compute) and impl-vs-Python/NumPy slicing; non-trivial = the helper changed its input / "
                "produced a multi-block plan / did not decline; distinct by canonical input")
    chk.assumptions = ["CPython slice.indices/range semantics as transcribed in coq/theories/PyBase.v (validated by the normalize/compose correspondence)",
                       "float ceil in new_blockdim is exact for |values| < 2^53"]
    chk.run_proofs()
    impl = Impl()
    fam_normalize(chk, impl, chk.tier)
    fam_fuse(chk, impl, chk.tier)
    fam_compose(chk, impl, chk.tier)
    fam_slice1d(chk, impl, chk.tier)
    fam_sliced_chunks(chk, impl, chk.tier)
