"""C05 — every compute/persist/optimize entry point agrees."""
from __future__ import annotations

import re
import warnings

import dask
import numpy as np

import progs
from common import Check


def err_sig(e):
    return re.sub(r"[0-9(),\[\]'-]+", "#", f"{type(e).__name__}: {e}")[:36]


def assemble_delayed(x):
    d = x.to_delayed()
    blocks = np.empty(d.shape, dtype=object)
    flat = list(d.ravel())
    vals = dask.compute(*flat, scheduler="sync") if flat else ()
    if d.ndim == 0:
        return np.asarray(vals[0])
    it = iter(vals)
    for idx in np.ndindex(d.shape):
        blocks[idx] = np.asarray(next(it))
    return np.block(blocks.tolist()) if blocks.size else np.empty(x.shape, dtype=x.dtype)


def follow_on(a):
    """an operation applied to a returned collection"""
    y = a + 1
    if y.ndim:
        y = y[tuple(slice(None, None, 2) for _ in range(y.ndim))]
    return y.sum()


def run_program(chk, da, prog, sources, want):
    from dask_array import _materialize
    _materialize._LOWER_CACHE.clear()
    for o in progs.ops_in(prog):
        chk.count("op:" + o)
    desc = progs.describe(prog, sources)
    try:
        with warnings.catch_warnings():
            warnings.simplefilter("ignore")
            x = progs.build(prog, da, sources, memo={})
            ref = x.compute(scheduler="sync")
    except Exception:  # noqa: BLE001
        chk.count("skipped:compute-raises")
        chk.case(("prog", progs.show(prog)), nontrivial=False)
        return
    nan_chunks = any(isinstance(c, float) for dim in x.chunks for c in dim)
    chk.case(("prog", progs.show(prog), repr([(s[0].shape, s[1]) for s in sources])), nontrivial=len(progs.all_nodes(prog)) > 1,
             sample=desc if len(progs.all_nodes(prog)) <= 4 else None)
    other = da.arange(5, chunks=2) * 2
    entry = {
        "dask.compute": lambda: dask.compute(x, other, scheduler="sync")[0],
        "persist": lambda: x.persist(scheduler="sync"),
        "dask.persist": lambda: dask.persist(x, other, scheduler="sync")[0],
        "dask.optimize": lambda: dask.optimize(x)[0],
        "x.optimize": lambda: x.optimize(),
        "to_delayed": lambda: assemble_delayed(x),
    }
    root = prog[0] if prog[0] != "reduce" else "reduce:" + prog[1]
    for name, fn in entry.items():
        chk.count("entry:" + name)
        try:
            with warnings.catch_warnings():
                warnings.simplefilter("ignore")
                r = fn()
                coll = r if hasattr(r, "__dask_graph__") else None
                val = coll.compute(scheduler="sync") if coll is not None else r
        except Exception as e:  # noqa: BLE001
            if nan_chunks and name == "to_delayed":
                continue
            chk.violation(f"{name} raises {type(e).__name__}: {str(e)[:120]} although x.compute() works",
                          {**desc, "entry_point": name}, signature={"class": "raises", "entry": name, "error": err_sig(e), "root_op": root})
            continue
        ok, why = progs.values_equal(val, ref)
        if not ok or np.asarray(val).dtype != np.asarray(ref).dtype:
            chk.violation(f"{name} yields different values than x.compute() ({why})", {**desc, "entry_point": name},
                          signature={"class": "value", "entry": name, "root_op": root})
            continue
        chk.traces_validated += 1
        if coll is not None and name in ("persist", "dask.persist", "dask.optimize"):
            problems = []
            if coll.name != x.name:
                problems.append(f"name {x.name} -> {coll.name}")
            if coll.dtype != x.dtype:
                problems.append(f"dtype {x.dtype} -> {coll.dtype}")
            same_chunks = all((a == b) or (isinstance(a, float) and isinstance(b, float)) for ca, cb in zip(coll.chunks, x.chunks) for a, b in zip(ca, cb)) \
                and len(coll.chunks) == len(x.chunks) and all(len(a) == len(b) for a, b in zip(coll.chunks, x.chunks))
            if not same_chunks:
                problems.append(f"chunks {x.chunks} -> {coll.chunks}")
            if problems:
                chk.violation(f"{name} does not preserve " + "; ".join(problems), {**desc, "entry_point": name},
                              signature={"class": "metadata", "entry": name, "root_op": root})
        if coll is not None and not nan_chunks:
            try:
                with warnings.catch_warnings():
                    warnings.simplefilter("ignore")
                    a = follow_on(coll).compute(scheduler="sync")
                    b = follow_on(x).compute(scheduler="sync")
                ok, why = progs.values_equal(a, b)
                if not ok:
                    chk.violation(f"an operation applied to the result of {name} computes differently than applied to x", {**desc, "entry_point": name},
                                  signature={"class": "follow-on-value", "entry": name, "root_op": root})
            except Exception as e:  # noqa: BLE001
                chk.violation(f"an operation applied to the result of {name} raises {type(e).__name__}: {str(e)[:100]}", {**desc, "entry_point": name},
                              signature={"class": "follow-on-raises", "entry": name, "error": err_sig(e), "root_op": root})


def replay(path):
    print(open(path).read())


def run(chk: Check):
    import dask_array as da
    chk.rule = ("generated programs (core ops) x 7 entry points (x.compute, dask.compute with another collection, x.persist, dask.persist, "
                "dask.optimize, x.optimize, to_delayed) + a follow-on operation on every returned collection; values compared exactly "
                "with x.compute(); persisted / dask-optimized collections must keep name, chunks, dtype; non-trivial = more than one node")
    chk.run_proofs()
    # corpus: F7a
    run_program(chk, da, ("reduce", "sum", ("src", 0), None, False, None), [(np.arange(10, dtype="int64"), ((5, 5),))], None)
    n = 3000 if chk.tier == "thorough" else 150
    for prog, sources, want in progs.gen_programs(chk.rng, n, ops=progs.CORE_OPS, depth_choices=(1, 2, 3, 4)):
        run_program(chk, da, prog, sources, want)
