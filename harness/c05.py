"""C05 — every compute/persist/optimize entry point agrees."""
from __future__ import annotations

import random

import re
import warnings

import dask
import numpy as np

import progs
from common import Check


def err_sig(e):
    return re.sub(r"[0-9(),\[\]'-]+", "#", f"{type(e).__name__}: {e}")[:36]


def assemble_delayed(x):
    d = x.to_delayed()
    blocks = np.empty(d.shape, dtype=object)
    flat = list(d.ravel())
    vals = dask.compute(*flat, scheduler="sync") if flat else ()
    if d.ndim == 0:
        return np.asarray(vals[0])
    it = iter(vals)
    for idx in np.ndindex(d.shape):
        blocks[idx] = np.asarray(next(it))
    return np.block(blocks.tolist()) if blocks.size else np.empty(x.shape, dtype=x.dtype)


def follow_on(a):
    """an operation applied to a returned collection"""
    y = a + 1
    if y.ndim:
        y = y[tuple(slice(None, None, 2) for _ in range(y.ndim))]
    return y.sum()


RUNS = [0]


def run_program(chk, da, prog, sources, want):
    """default configuration, and for every third program also array.optimize-graph = False (the entry points must agree and
    keep name / keys / chunks under that setting too)"""
    _run_program(chk, da, prog, sources, want)
    RUNS[0] += 1
    if RUNS[0] % 3 == 0:
        with dask.config.set({"array.optimize-graph": False}):
            chk.count("config:optimize-graph-off")
            _run_program(chk, da, prog, sources, want, tag="optimize-graph=False")


def _run_program(chk, da, prog, sources, want, tag=None):
    from dask_array import _materialize
    _materialize._LOWER_CACHE.clear()
    for o in progs.ops_in(prog):
        chk.count("op:" + o)
    desc = progs.describe(prog, sources)
    try:
        with warnings.catch_warnings():
            warnings.simplefilter("ignore")
            x = progs.build(prog, da, sources, memo={})
            ref = x.compute(scheduler="sync")
    except Exception:  # noqa: BLE001
        chk.count("skipped:compute-raises")
        chk.case(("prog", progs.show(prog)), nontrivial=False)
        return
    nan_chunks = any(isinstance(c, float) for dim in x.chunks for c in dim)
    chk.case(("prog", progs.show(prog), repr([(s[0].shape, s[1]) for s in sources]), tag), nontrivial=len(progs.all_nodes(prog)) > 1,
             sample=desc if len(progs.all_nodes(prog)) <= 4 else None)
    if tag:
        desc = {**desc, "config": tag}
    other = da.arange(5, chunks=2) * 2
    entry = {
        "dask.compute": lambda: dask.compute(x, other, scheduler="sync")[0],
        "persist": lambda: x.persist(scheduler="sync"),
        "dask.persist": lambda: dask.persist(x, other, scheduler="sync")[0],
        "dask.optimize": lambda: dask.optimize(x)[0],
        "x.optimize": lambda: x.optimize(),
        "to_delayed": lambda: assemble_delayed(x),
    }
    root = prog[0] if prog[0] != "reduce" else "reduce:" + prog[1]
    for name, fn in entry.items():
        chk.count("entry:" + name)
        try:
            with warnings.catch_warnings():
                warnings.simplefilter("ignore")
                r = fn()
                coll = r if hasattr(r, "__dask_graph__") else None
                val = coll.compute(scheduler="sync") if coll is not None else r
        except Exception as e:  # noqa: BLE001
            if nan_chunks and name == "to_delayed":
                continue
            chk.violation(f"{name} raises {type(e).__name__}: {str(e)[:120]} although x.compute() works",
                          {**desc, "entry_point": name}, signature={"class": "raises", "entry": name, "error": err_sig(e), "root_op": root})
            continue
        ok, why = progs.values_equal(val, ref)
        if not ok or np.asarray(val).dtype != np.asarray(ref).dtype:
            chk.violation(f"{name} yields different values than x.compute() ({why})", {**desc, "entry_point": name},
                          signature={"class": "value", "entry": name, "root_op": root})
            continue
        chk.traces_validated += 1
        if coll is not None and name in ("persist", "dask.persist", "dask.optimize"):
            problems = []
            if coll.name != x.name:
                problems.append(f"name {x.name} -> {coll.name}")
            if coll.dtype != x.dtype:
                problems.append(f"dtype {x.dtype} -> {coll.dtype}")
            same_chunks = all((a == b) or (isinstance(a, float) and isinstance(b, float)) for ca, cb in zip(coll.chunks, x.chunks) for a, b in zip(ca, cb)) \
                and len(coll.chunks) == len(x.chunks) and all(len(a) == len(b) for a, b in zip(coll.chunks, x.chunks))
            if not same_chunks:
                problems.append(f"chunks {x.chunks} -> {coll.chunks}")
            if problems:
                chk.violation(f"{name} does not preserve " + "; ".join(problems), {**desc, "entry_point": name},
                              signature={"class": "metadata", "entry": name, "root_op": root})
        if coll is not None and not nan_chunks:
            try:
                with warnings.catch_warnings():
                    warnings.simplefilter("ignore")
                    a = follow_on(coll).compute(scheduler="sync")
                    b = follow_on(x).compute(scheduler="sync")
                ok, why = progs.values_equal(a, b)
                if not ok:
                    chk.violation(f"an operation applied to the result of {name} computes differently than applied to x", {**desc, "entry_point": name},
                                  signature={"class": "follow-on-value", "entry": name, "root_op": root})
            except Exception as e:  # noqa: BLE001
                chk.violation(f"an operation applied to the result of {name} raises {type(e).__name__}: {str(e)[:100]}", {**desc, "entry_point": name},
                              signature={"class": "follow-on-raises", "entry": name, "error": err_sig(e), "root_op": root})


def replay(path):
    print(open(path).read())


def updated_in_place_entry_points(chk, da):
    """every entry point on a collection that was materialised and THEN updated in place (slice / mask assignment, ufunc out=)
    must give the updated values (NumPy is the oracle here, x.compute() included)"""
    import random as _random
    rng = _random.Random(f"C05-in-place-{chk.seed}")
    for it in range(200 if chk.tier == "thorough" else 30):
        shape = (rng.choice([6, 9]),) if rng.random() < 0.5 else (4, rng.choice([3, 5]))
        data = np.arange(float(np.prod(shape))).reshape(shape) - 3
        chunks = tuple(progs.rand_chunks_for(rng, n) for n in shape)
        update = rng.choice(["mask", "mask", "slice", "ufunc-out"])
        peek = rng.choice(["compute", "persist-and-drop", "keys", "dask.compute"])
        want = data + 1
        with warnings.catch_warnings():
            warnings.simplefilter("ignore")
            x = da.from_array(data, chunks=chunks) + 1
            if peek == "compute":
                x.compute(scheduler="sync")
            elif peek == "persist-and-drop":
                x.persist(scheduler="sync")
            elif peek == "keys":
                x.__dask_keys__()
            else:
                dask.compute(x, scheduler="sync")
            if update == "mask":
                x[x > 2] = -1.0
                want[want > 2] = -1.0
            elif update == "slice":
                x[1:3] = 7.0
                want[1:3] = 7.0
            else:
                da.add(x, 2.0, out=x)
                want = want + 2.0
        chk.count("in-place-entry:" + update)
        chk.case(("in-place-entry", peek, update, shape, repr(chunks), it), nontrivial=True)
        other = da.arange(5, chunks=2) * 2
        entry = {"x.compute": lambda: x.compute(scheduler="sync"), "dask.compute": lambda: dask.compute(x, other, scheduler="sync")[0],
                 "persist": lambda: x.persist(scheduler="sync").compute(scheduler="sync"),
                 "dask.persist": lambda: dask.persist(x, other, scheduler="sync")[0].compute(scheduler="sync"),
                 "x.optimize": lambda: x.optimize().compute(scheduler="sync"), "to_delayed": lambda: assemble_delayed(x)}
        for name, fn in entry.items():
            try:
                with warnings.catch_warnings():
                    warnings.simplefilter("ignore")
                    got = np.asarray(fn())
            except Exception as e:  # noqa: BLE001
                chk.violation(f"{name} raises {type(e).__name__}: {str(e)[:100]} on a collection updated in place after it was materialised",
                              {"read": peek, "update": update, "chunks": chunks, "entry_point": name}, signature={"class": "in-place-raises", "entry": name, "error": err_sig(e)})
                continue
            if got.shape != want.shape or not np.array_equal(got, want):
                chk.violation(f"{name} returns the values from BEFORE an in-place update ({update}) made after the collection was materialised ({peek})",
                              {"read": peek, "update": update, "chunks": chunks, "entry_point": name, "got": got.tolist(), "want": want.tolist()},
                              signature={"class": "in-place-stale", "entry": name, "update": update})
            else:
                chk.traces_validated += 1


def run(chk: Check):
    import dask_array as da
    chk.rule = ("generated programs (core ops) x 7 entry points (x.compute, dask.compute with another collection, x.persist, dask.persist, "
                "dask.optimize, x.optimize, to_delayed) + a follow-on operation on every returned collection; values compared exactly "
                "with x.compute(); persisted / dask-optimized collections must keep name, chunks, dtype; non-trivial = more than one node")
    chk.run_proofs()
    model_family(chk, da)
    updated_in_place_entry_points(chk, da)
    # corpus: F7a
    run_program(chk, da, ("reduce", "sum", ("src", 0), None, False, None), [(np.arange(10, dtype="int64"), ((5, 5),))], None)
    for _ in range(1500 if chk.tier == "thorough" else 250):
        prog, sources, want = progs.misaligned_take(chk.rng)
        run_program(chk, da, prog, sources, want)
    n = 3000 if chk.tier == "thorough" else 150
    for prog, sources, want in progs.gen_programs(chk.rng, n, ops=progs.CORE_OPS, depth_choices=(1, 2, 3, 4)):
        run_program(chk, da, prog, sources, want)
    import random as _random
    api_rng = _random.Random(f"{chk.pid}-api-family-{chk.seed}")      # own stream: the families above keep theirs
    for prog, sources, want in progs.gen_api_programs(api_rng, 1500 if chk.tier == "thorough" else 120):
        chk.count("api-call:" + next(q[1] for q in progs.all_nodes(prog) if q[0] == "call"))
        run_program(chk, da, prog, sources, want)


# ==========================================================================
# Model correspondence (coq/theories/Protocol.v): FromGraph's key location and the RootAlias pin
from itertools import product as _product  # noqa: E402

from common import clist, coq_eval_cases, copt, ctuple, cz  # noqa: E402

M_HEADER = ("From DA Require Import PyBase Graph Protocol.\nOpen Scope Z_scope.\n"
            "Definition kb (n : Z) (i : list Z) := KB (Z.to_pos n) i.\n"
            "Definition ko (n : Z) := KO (Z.to_pos n).\n"
            "Definition dv (n : Z) := Data (Z.to_pos n).\n"
            "Definition tv (n : Z) := TaskV (Z.to_pos n).\n"
            "Definition al (k : lkey) := AliasTo k.\n")
FG_CASE = "list (lkey * lval) * list (Z * list Z) * Z * list nat * option (list (lkey * lval)) * Z"
FG_CHK = ("Definition chk (c : " + FG_CASE + ") : bool :=\n"
          "  let '(layer, keys, self, nb, out, err) := c in\n"
          "  fres_eqb (fg_layer layer (map (fun k => (Z.to_pos (fst k), snd k)) keys) (Z.to_pos self) nb) out err.")
RA_CASE = "Z * Z * list nat * list (lkey * lval) * list lkey"
RA_CHK = ("Definition chk (c : " + RA_CASE + ") : bool :=\n"
          "  let '(raw, opt, nb, lay, adv) := c in\n"
          "  list_eqb (fun x y => lkey_eqb (fst x) (fst y) && lval_eqb (snd x) (snd y)) (root_alias_layer (Z.to_pos raw) (Z.to_pos opt) nb) lay\n"
          "  && list_eqb lkey_eqb (dask_keys (Z.to_pos raw) nb) adv.")


def _is_block_key(k):
    return isinstance(k, tuple) and len(k) >= 1 and all(type(i) is int for i in k[1:])


class Reifier:
    """numbers names / other keys / values of one layer (1.., by first appearance)"""

    def __init__(self):
        self.names, self.others, self.vals = {}, {}, {}

    def name(self, n):
        return self.names.setdefault(n, len(self.names) + 1)

    def key(self, k):
        if _is_block_key(k):
            return f"kb {self.name(k[0])} {clist(k[1:])}"
        return f"ko {self.others.setdefault(k, len(self.others) + 1)}"

    def value(self, v, is_task):
        i = self.vals.setdefault(id(v), len(self.vals) + 1)
        return f"{'tv' if is_task else 'dv'} {i}"


def reify_from_graph(fg):
    """(case literal, python-side description, resolved) for one real FromGraph node: its layer operand,
    `keys`, name, block grid, and what `FromGraph._layer()` returns (or which error it raises)"""
    from dask import istask
    from dask._task_spec import Alias, GraphNode
    layer = fg.operand("layer")
    r = Reifier()
    self_id = r.name(fg._name)
    kinds = {}
    lay_items = []
    for k, v in dict(layer).items():
        t = isinstance(v, GraphNode) or istask(v)
        kinds[id(v)] = t
        lay_items.append(ctuple(r.key(k), r.value(v, t)))
    keys = [ctuple(cz(r.name(k[0])), clist(k[1:])) for k in fg.operand("keys")]
    nb = [len(c) for c in fg.chunks]
    err, out = 0, None
    try:
        out = fg._layer()
    except ValueError as e:
        err = 1 if "cannot find output block" in str(e) else 2 if "two output keys" in str(e) else 9
    except KeyError:
        err = 3
    out_lit = None
    if out is not None:
        items = []
        for k, v in out.items():
            if id(v) in kinds:
                items.append(ctuple(r.key(k), r.value(v, kinds[id(v)])))
            elif isinstance(v, Alias) and v.key == k:
                items.append(ctuple(r.key(k), f"al ({r.key(v.target)})"))
            else:
                items.append(ctuple(r.key(k), "dv 999999"))      # a value FromGraph invented: never matches
        out_lit = "[" + "; ".join(items) + "]"
    lit = ctuple("[" + "; ".join(lay_items) + "]", "[" + "; ".join(keys) + "]", cz(self_id),
                 "[" + "; ".join(f"{n}%nat" for n in nb) + "]", "None" if out_lit is None else f"(Some {out_lit})", cz(err))
    return lit, out, err


def synth_layer(rng):
    """a generated FromGraph over a synthetic layer: several names covering the grid fully / partly / with extras,
    data and task values, expected keys, foreign keys"""
    from dask._task_spec import Task
    ndim = rng.choice([0, 1, 1, 2, 2])
    nb = tuple(rng.choice([1, 2, 2, 3] + ([0] if rng.random() < 0.1 else [])) for _ in range(ndim))
    grid = list(_product(*(range(n) for n in nb)))
    pool = ["self", "a", "b", "c"]
    layer = []
    tags = {}

    def mk(name, idx):
        tag = f"{name}|{idx}"
        r = rng.random()
        if r < 0.5:
            v = "data:" + tag                       # plain data (a persisted block / a future)
        elif r < 0.8:
            v = Task((name, *idx), str, tag)          # GraphNode
        else:
            v = (str, tag)                          # legacy task tuple
        tags[id(v)] = (name, tuple(idx))
        return v
    for name in pool:
        mode = rng.choice(["full", "full", "partial", "none", "extra", "none"] if name != "self" else ["full", "partial", "none", "none", "none"])
        if mode == "none":
            continue
        idxs = list(grid)
        if mode == "partial" and idxs:
            idxs = rng.sample(idxs, rng.randint(0, len(idxs) - 1)) if len(idxs) > 1 else []
        if mode == "extra":
            e = rng.choice(["off-grid", "negative", "short", "long"])
            if e == "off-grid":
                idxs.append(tuple(n for n in nb) if nb else (0,))
            elif e == "negative" and nb:
                idxs.append(tuple(-1 for _ in nb))
            elif e == "short" and nb:
                idxs.append(tuple(0 for _ in nb[1:]))
            else:
                idxs.append(tuple(0 for _ in nb) + (0,))
        for idx in dict.fromkeys(idxs):
            layer.append(((name, *idx), mk(name, idx)))
    if rng.random() < 0.4:
        layer.append(("loose-string-key", mk("loose", ())))
    if rng.random() < 0.3:
        layer.append((("a", "x"), mk("tuple-nonint", ())))
    rng.shuffle(layer)
    keys = []
    kmode = rng.choice(["none", "none", "some", "all", "dup-same", "dup-conflict"])
    if kmode != "none" and grid:
        kn = rng.choice(["a", "b", "zz"])
        chosen = grid if kmode != "some" else rng.sample(grid, rng.randint(1, len(grid)))
        keys = [(rng.choice([kn, kn, "c"]), *b) for b in chosen]
        if kmode == "dup-same":
            keys.append(keys[0])
        if kmode == "dup-conflict":
            keys.insert(rng.randint(0, len(keys)), ("other-" + str(keys[0][0]), *keys[0][1:]))
        if rng.random() < 0.2:
            keys.append(("a", *(n + 5 for n in nb)))
    return dict(layer), keys, nb, grid, tags, kmode


def model_family(chk, da):
    import dask
    from dask._task_spec import Alias
    from dask_array._expr import RootAlias
    from dask_array import _materialize as _materialize_mod
    from dask_array._materialize import _materialize
    from dask_array.io._from_graph import FromGraph
    rng = random.Random(f"{chk.pid}-model-family-{chk.seed}")     # own stream: the checks above keep theirs
    fg_cases, fg_desc, ra_cases, ra_desc = [], [], [], []

    def add_fg(fg, desc, tags=None, grid=None):
        lit, out, err = reify_from_graph(fg)
        fg_cases.append(lit)
        fg_desc.append(desc)
        chk.count("fromgraph:" + ("ok" if err == 0 else {1: "not-found", 2: "dup-keys", 3: "KeyError"}.get(err, "other-error")))
        if out is not None and grid:
            lay, b = fg.operand("layer"), tuple(grid[-1])
            exp = fg._keys_by_block_id.get(b)
            chk.count("fromgraph-rule:" + ("expected-key" if exp is not None and exp in lay else "own-key" if (fg._name, *b) in lay else "inferred-name"))
        if err in (3, 9):
            chk.violation("FromGraph._layer raises an undocumented error", desc, signature={"class": "fromgraph-error", "err": err})
        if out is not None and tags is not None:
            # the property itself, independently: every output key (name, b) resolves to a node that held block b
            for b in grid:
                v = out.get((fg._name, *b))
                if isinstance(v, Alias):
                    v = out.get(v.target)
                src = tags.get(id(v))
                if src is None or src[1] != tuple(b):
                    chk.violation(f"FromGraph maps output block {b} to {src}", desc, signature={"class": "fromgraph-wrong-block"})
                    break
            else:
                chk.traces_validated += 1

    # (a) synthetic layers through the real FromGraph class
    n = 20000 if chk.tier == "thorough" else 1500
    meta = np.empty((0,), dtype="int64")
    for _ in range(n):
        layer, keys, nb, grid, tags, kmode = synth_layer(rng)
        fg = FromGraph(layer=layer, _meta=meta, chunks=tuple((1,) * k for k in nb), keys=keys, name="self")
        chk.count("fromgraph-keys:" + kmode)
        chk.case(("fg", repr(sorted(map(repr, layer))), repr(keys), nb), nontrivial=len(grid) > 1)
        add_fg(fg, {"layer_keys": [repr(k) for k in layer], "keys": [repr(k) for k in keys], "numblocks": nb}, tags, grid)

    # (b) real persisted / optimized collections and the RootAlias pin of real materializations
    m = 400 if chk.tier == "thorough" else 40
    other = da.arange(5, chunks=2) * 2
    # corpus: finding C05-A (optimization re-chunks flip(diff(.)); dask.persist keeps the optimized blocks under x's chunks)
    corpus = [(("flip", ("diff", ("src", 0), 0), 0), [(np.arange(8, dtype="int64") ** 2, ((3, 1, 2, 2),))], None)]
    for prog, sources, _want in corpus + list(progs.gen_programs(rng, m, ops=progs.CORE_OPS, depth_choices=(1, 2, 3))):
        try:
            with warnings.catch_warnings():
                warnings.simplefilter("ignore")
                # every entry point on a collection nobody has materialized before (what it does then depends on the
                # state of the shared lowering cache: see C09)
                _materialize_mod._LOWER_CACHE.clear()
                made = {"dask.persist": dask.persist(progs.build(prog, da, sources, memo={}), other, scheduler="sync")[0]}
                _materialize_mod._LOWER_CACHE.clear()
                x = progs.build(prog, da, sources, memo={})
                made["persist"] = x.persist(scheduler="sync")
                try:
                    made["dask.optimize"] = dask.optimize(progs.build(prog, da, sources, memo={}))[0]
                except Exception:  # noqa: BLE001  (F7)
                    pass
                mat = _materialize(x.expr)
        except Exception:  # noqa: BLE001
            chk.count("model-family:skipped")
            continue
        for how, y in made.items():
            if isinstance(y.expr, FromGraph):
                chk.count("fromgraph-real:" + how)
                chk.case(("fg-real", how, progs.show(prog)), nontrivial=True)
                add_fg(y.expr, {"entry": how, "program": progs.show(prog)}, None, list(_product(*(range(len(c)) for c in y.expr.chunks))))
                # the rebuilt collection advertises x's chunks: every persisted block must have that shape
                if how != "dask.optimize" and not any(isinstance(c, float) for dim in y.chunks for c in dim):
                    lay = y.expr._layer()
                    bad = []
                    for b in _product(*(range(len(c)) for c in y.chunks)):
                        v = lay.get((y.name, *b))
                        if isinstance(v, np.ndarray) and v.shape != tuple(c[i] for c, i in zip(y.chunks, b)):
                            bad.append((b, v.shape))
                    if bad:
                        chk.violation(f"{how} returns a collection advertising x's chunks {y.chunks} whose persisted blocks have other shapes, e.g. block {bad[0][0]} has shape {bad[0][1]}",
                                      {"entry": how, "program": progs.show(prog), **progs.describe(prog, sources)},
                                      signature={"class": "persisted-block-shape", "entry": how})
                    else:
                        chk.traces_validated += 1
        chk.count("materialize:" + type(mat).__name__ if isinstance(mat, RootAlias) else "materialize:root-name-kept")
        if isinstance(mat, RootAlias):
            r = Reifier()
            raw, opt = r.name(mat._name), r.name(mat.array._name)
            lay = []
            ok = mat._name == x.name
            for k, v in mat._layer().items():
                ok = ok and isinstance(v, Alias) and v.key == k
                lay.append(ctuple(r.key(k), f"al ({r.key(v.target)})"))
            adv = [r.key(k) for k in progs_flat(x.__dask_keys__())]
            if not ok:
                chk.violation("RootAlias layer is not a layer of aliases under the collection's name", {"program": progs.show(prog)},
                              signature={"class": "rootalias-shape"})
            ra_cases.append(ctuple(cz(raw), cz(opt), "[" + "; ".join(f"{n}%nat" for n in mat.array.numblocks) + "]",
                                   "[" + "; ".join(lay) + "]", "[" + "; ".join(adv) + "]"))
            ra_desc.append({"program": progs.show(prog)})
            chk.case(("rootalias", progs.show(prog)), nontrivial=True)
    for i in coq_eval_cases(M_HEADER, FG_CASE, FG_CHK, fg_cases)[0]:
        chk.tie_break("from_graph-model", {"case": fg_desc[i], "literal": fg_cases[i][:600]})
    for i in coq_eval_cases(M_HEADER, RA_CASE, RA_CHK, ra_cases)[0]:
        chk.tie_break("root_alias-model", {"case": ra_desc[i], "literal": ra_cases[i][:600]})
    chk.traces_validated += len(fg_cases) + len(ra_cases)


def progs_flat(keys):
    out = []

    def rec(x):
        if isinstance(x, list):
            for y in x:
                rec(y)
        else:
            out.append(x)
    rec(keys)
    return out
