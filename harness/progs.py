"""Seeded generator of *programs* over the public dask_array API.

A program is data (nested tuples).  `gen_program` grows a program bottom-up while
tracking the NumPy value of every sub-program, so every parameter it picks is
valid for the operand's shape.  `build(prog, lib)` evaluates the same program
with `lib` = dask_array or the NumPy shim.  Shared subtrees are shared objects
(memoised by identity), so one node can have several consumers.

Integer data (int64) keeps every exact op bit-exact; float-producing ops are
compared with a tolerance by the caller."""
from __future__ import annotations

import numpy as np

# --------------------------------------------------------------------------
# block functions for map_blocks (module level: picklable, tokenizable)


def mb_double(b):
    return b * 2


def mb_plus_blocksum(b):        # NOT pointwise in the block: depends on the whole block
    return b + b.sum()


def mb_reverse(b):              # NOT pointwise: reverses each block along axis 0
    return b[::-1] if b.ndim else b


def mb_info(b, block_info=None):
    # value depends on the chunk location the function is told about
    loc = block_info[0]["chunk-location"] if block_info else ()
    return b + sum((i + 1) * (k + 1) for k, i in enumerate(loc))


MB_FUNCS = {"double": mb_double, "plus_blocksum": mb_plus_blocksum, "reverse": mb_reverse, "info": mb_info}

# ops whose optimizer paths are healthy on the unchanged tree; the long tail of optimizer crashes around
# take/repeat/broadcast_to/reshape/roll/sliding windows is recorded once, by C01/C02, as known findings
CORE_OPS = ["elem2", "elem1", "scalar", "T", "slice", "rechunk", "concat", "stack", "expand", "squeeze", "reduce", "cum",
            "map_blocks", "flip", "where", "diff", "astype", "boolmask_reduce", "setitem", "where_out"]

ELEM2 = ["add", "subtract", "multiply", "maximum", "minimum"]
ELEM1 = ["negative", "abs", "square"]
REDUCTIONS = ["sum", "max", "min", "prod", "any", "all", "mean", "argmax", "argmin", "count_nonzero"]


def rand_chunks_for(rng, n):
    if n == 0:
        return (0,)
    k = min(n, rng.choice([1, 1, 2, 2, 3, 4]))
    if rng.random() < 0.1:
        k = min(n, rng.choice([5, 7, 8, 9, 12, 16]))      # deep trees / many-block scans
    cuts = sorted(rng.sample(range(1, n), k - 1)) if k > 1 else []
    return tuple(b - a for a, b in zip([0] + cuts, cuts + [n]))


def rand_index(rng, shape, allow_none=True, allow_int=True, neg_step=True):
    idx = []
    for n in shape:
        r = rng.random()
        if allow_int and n > 0 and r < 0.15:
            idx.append(rng.randint(-n, n - 1))
        elif r < 0.3:
            idx.append(slice(None))
        else:
            a = rng.choice([None, rng.randint(-n - 1, n + 1)])
            b = rng.choice([None, rng.randint(-n - 1, n + 1)])
            steps = [None, 1, 1, 2, 3] + ([-1, -2] if neg_step else [])
            idx.append(slice(a, b, rng.choice(steps)))
        if allow_none and rng.random() < 0.06:
            idx.append(None)
    if rng.random() < 0.3 and len(idx) > 1:
        idx = idx[: rng.randint(1, len(idx))]
    return tuple(idx)


class Gen:
    """Grows programs; keeps (prog, numpy value) pairs in a pool for sharing."""

    def __init__(self, rng, max_dim=8, max_rank=3, ops=None, sources=None, unique=False):
        self.rng = rng
        self.max_dim = max_dim
        self.max_rank = max_rank
        self.pool = []
        self.sources = sources if sources is not None else []   # list of (ndarray, chunks)
        self.ops = ops
        self.unique = unique   # position-coded, pairwise distinct source values
        # non-pointwise block functions (reverse, plus_blocksum) are exercised by the corpus only: slicing
        # through them is known finding F2 and would drown every other signal
        self.mb_funcs = ["double", "info"]

    # ---- leaves
    def leaf(self):
        rng = self.rng
        r = rng.random()
        if self.sources and r < 0.35:
            k = rng.randrange(len(self.sources))
            return ("src", k), self.sources[k][0]
        rank = rng.choice([1, 1, 2, 2, 3][: 2 + self.max_rank])
        shape = tuple(rng.choice([0, 1, 2, 3, 4, 5, 6, self.max_dim][1 if rng.random() < 0.93 else 0:]) for _ in range(rank))
        if rng.random() < 0.08:
            shape = tuple(rng.choice([9, 12, 16]) if i == 0 else sdim for i, sdim in enumerate(shape))
        if r > 0.93 and "fftfreq" in (self.ops or ["fftfreq"]):
            # float leaves from a tiny parameter set, so that a user arange and fftfreq's internal arange can coincide by name
            n = rng.choice([6, 8, 12])
            ch = rng.choice([(n,), (n // 2, n // 2)])
            if rng.random() < 0.5:
                return ("arangef", n, ch), np.arange(n, dtype="float64")
            d = rng.choice([1.0, 0.5])
            return ("fftfreq", n, d, ch), np.fft.fftfreq(n, d)
        if r < 0.8:
            data = (np.arange(int(np.prod(shape)), dtype="int64").reshape(shape) * 7 + rng.randint(0, 5)) % 23 - 5
            if self.unique:
                data = np.arange(int(np.prod(shape)), dtype="int64").reshape(shape) + 1000 * (len(self.sources) + 1)
            chunks = tuple(rand_chunks_for(rng, n) for n in shape)
            self.sources.append((data, chunks))
            return ("src", len(self.sources) - 1), data
        if r < 0.9:
            chunks = tuple(rand_chunks_for(rng, n) for n in shape)
            return ("ones", shape, chunks), np.ones(shape, dtype="int64")
        n = rng.randint(0, self.max_dim * 2)
        return ("arange", n, rand_chunks_for(rng, n)), np.arange(n, dtype="int64")

    # ---- one op on top of existing programs
    def step(self, p, v):
        rng = self.rng
        ops = self.ops or ["elem2", "elem1", "scalar", "T", "slice", "rechunk", "concat", "stack", "expand", "squeeze",
                           "reduce", "cum", "map_blocks", "broadcast_to", "flip", "roll", "take", "swv", "where", "repeat",
                           "diff", "reshape", "astype", "map_overlap", "boolmask_reduce", "setitem", "where_out", "diag", "view"]
        for _ in range(12):
            op = rng.choice(ops)
            try:
                with np.errstate(all="ignore"):
                    out = self._try(op, p, v)
            except (TypeError, ValueError, IndexError, OverflowError):
                out = None      # not a valid NumPy program: skip
            if out is not None:
                return out
        return p, v

    def _other(self, v):
        """another program broadcast-compatible with value v (shared or fresh)"""
        rng = self.rng
        cands = [(q, w) for q, w in self.pool if self._bcast_ok(v.shape, w.shape) and w.dtype.kind in "iub"]
        if cands and rng.random() < 0.6:
            return rng.choice(cands)
        # fresh source of the same (or broadcastable) shape with different chunks
        shape = list(v.shape)
        if shape and rng.random() < 0.3:
            shape = shape[rng.randint(0, len(shape) - 1):]
        if shape and rng.random() < 0.2:
            shape[rng.randrange(len(shape))] = 1
        shape = tuple(shape)
        data = (np.arange(int(np.prod(shape)), dtype="int64").reshape(shape) * 3 + 1) % 11 - 4
        chunks = tuple(rand_chunks_for(rng, n) for n in shape)
        self.sources.append((data, chunks))
        return ("src", len(self.sources) - 1), data

    @staticmethod
    def _bcast_ok(a, b):
        try:
            np.broadcast_shapes(a, b)
            return len(b) <= len(a) + 0 and np.broadcast_shapes(a, b) == tuple(a)
        except ValueError:
            return False

    def _try(self, op, p, v):
        rng = self.rng
        nd = v.ndim
        if op == "elem2":
            q, w = self._other(v)
            f = rng.choice(ELEM2)
            if rng.random() < 0.5:
                return ("elem", f, p, q), getattr(np, f)(v, w)
            return ("elem", f, q, p), getattr(np, f)(w, v)
        if op == "elem1":
            f = rng.choice(ELEM1)
            return ("elem", f, p), getattr(np, f)(v)
        if op == "scalar":
            c = rng.randint(-3, 3)
            f = rng.choice(["add", "multiply", "maximum"])
            return ("elem", f, p, ("const", c)), getattr(np, f)(v, c)
        if op == "T":
            if nd < 2:
                return None
            axes = list(range(nd))
            rng.shuffle(axes)
            return ("T", p, tuple(axes)), v.transpose(axes)
        if op == "slice":
            if nd == 0:
                return None
            idx = rand_index(rng, v.shape)
            return ("slice", p, idx), v[idx]
        if op == "rechunk":
            if nd == 0:
                return None
            r = rng.random()
            if r < 0.6:
                ch = tuple(rand_chunks_for(rng, n) for n in v.shape)
            elif r < 0.8:
                ch = tuple(rng.choice([-1, max(1, n // 2), 1, 2]) for n in v.shape)
            else:
                ch = {rng.randrange(nd): rng.choice([-1, 1, 2, 3])}
            return ("rechunk", p, ch), v
        if op in ("concat", "stack"):
            if nd == 0:
                return None
            k = rng.choice([2, 2, 3])
            parts, vals = [(p, v)], [v]
            axis = rng.randrange(nd)
            for _ in range(k - 1):
                if op == "concat":
                    shape = list(v.shape)
                    shape[axis] = rng.choice([0, 1, 2, 3, v.shape[axis]])
                    shape = tuple(shape)
                else:
                    shape = v.shape
                cands = [(q, w) for q, w in self.pool if w.shape == shape and w.dtype == v.dtype]
                if cands and rng.random() < 0.5:
                    q, w = rng.choice(cands)
                else:
                    w = (np.arange(int(np.prod(shape)), dtype="int64").reshape(shape) * 5 + 2) % 13 - 6
                    w = w.astype(v.dtype)
                    self.sources.append((w, tuple(rand_chunks_for(rng, n) for n in shape)))
                    q = ("src", len(self.sources) - 1)
                parts.append((q, w))
                vals.append(w)
            order = list(range(k))
            rng.shuffle(order)
            progs = tuple(parts[i][0] for i in order)
            vs = [vals[i] for i in order]
            if op == "concat":
                return ("concat", progs, axis), np.concatenate(vs, axis=axis)
            ax = rng.randint(0, nd)
            return ("stack", progs, ax), np.stack(vs, axis=ax)
        if op == "expand":
            if nd >= 4:
                return None
            ax = rng.randint(0, nd)
            if nd <= 2 and rng.random() < 0.3:
                # several new axes at once, in ANY order and with negative positions (positions refer to the RESULT)
                k = rng.choice([2, 2, 3])
                ax = tuple(rng.sample(range(nd + k), k))
                if rng.random() < 0.4:
                    ax = tuple(a - (nd + k) if rng.random() < 0.5 else a for a in ax)
            return ("expand", p, ax), np.expand_dims(v, ax)
        if op == "squeeze":
            ones = [i for i, n in enumerate(v.shape) if n == 1]
            if not ones:
                return None
            ax = rng.choice(ones)
            return ("squeeze", p, ax), np.squeeze(v, axis=ax)
        if op == "reduce":
            if nd == 0:
                return None
            f = rng.choice(REDUCTIONS)
            if f in ("argmax", "argmin"):
                if v.size == 0:
                    return None
                axis = rng.choice([None] + list(range(nd)))
                if axis is not None and v.shape[axis] == 0:
                    return None
                se = rng.choice([None, 2, 3])
                return ("reduce", f, p, axis, False, se), getattr(np, f)(v, axis=axis)
            axes = rng.choice([None] + [tuple(sorted(rng.sample(range(nd), rng.randint(1, nd))))])
            red_sizes = v.shape if axes is None else tuple(v.shape[a] for a in axes)
            if f in ("max", "min") and 0 in red_sizes:
                return None
            if f == "prod":
                v = np.clip(v, -2, 2)
                p = ("elem", "clip", p, ("const", -2), ("const", 2))
            keepdims = rng.random() < 0.3 and f != "count_nonzero"
            se = rng.choice([None, None, 2, 3, 4])
            if se is not None and rng.random() < 0.3 and axes is not None:
                se = {a: rng.choice([2, 3]) for a in axes}
            with np.errstate(all="ignore"):
                val = getattr(np, f)(v, axis=axes, keepdims=keepdims)
            return ("reduce", f, p, axes, keepdims, se), np.asarray(val)
        if op == "cum":
            if nd == 0:
                return None
            axis = rng.randrange(nd)
            f = rng.choice(["cumsum", "cumsum", "cumprod"])
            if f == "cumprod":
                v = np.clip(v, -1, 1)
                p = ("elem", "clip", p, ("const", -1), ("const", 1))
            method = rng.choice(["sequential", "blelloch"])
            return ("cum", f, p, axis, method), getattr(np, f)(v, axis=axis)
        if op == "map_blocks":
            if nd == 0 or v.dtype.kind not in "iu":
                return None
            # value of a non-pointwise block function depends on the chunking: pin it with an explicit rechunk
            name = rng.choice(self.mb_funcs)
            ch = tuple(rand_chunks_for(rng, n) for n in v.shape)
            return ("map_blocks", name, ("rechunk", p, ch), ch), mb_numpy(name, v, ch)
        if op == "broadcast_to":
            if nd >= 3:
                return None
            shape = (rng.choice([1, 2, 3]),) + tuple(v.shape)
            return ("broadcast_to", p, shape), np.broadcast_to(v, shape)
        if op == "flip":
            if nd == 0:
                return None
            ax = rng.randrange(nd)
            return ("flip", p, ax), np.flip(v, ax)
        if op == "roll":
            if nd == 0:
                return None
            ax = rng.randrange(nd)
            s = rng.randint(-3, 3)
            return ("roll", p, s, ax), np.roll(v, s, ax)
        if op == "take":
            if nd == 0:
                return None
            ax = rng.randrange(nd)
            n = v.shape[ax]
            if n == 0:
                return None
            idx = tuple(rng.randint(-n, n - 1) for _ in range(rng.randint(1, n + 1)))
            return ("take", p, idx, ax), np.take(v, idx, axis=ax)
        if op == "swv":
            if nd == 0:
                return None
            ax = rng.randrange(nd)
            n = v.shape[ax]
            if n == 0:
                return None
            w = rng.randint(1, n)
            f = rng.choice(["sum", "max", "min", "mean", None])
            win = np.lib.stride_tricks.sliding_window_view(v, w, axis=ax)
            if f is None:
                return ("swv", p, w, ax, None), np.array(win)
            return ("swv", p, w, ax, f), getattr(np, f)(win, axis=-1)
        if op == "where":
            q, w = self._other(v)
            return ("where", ("elem", "greater", p, ("const", 0)), p, q), np.where(v > 0, v, w)
        if op == "repeat":
            if nd == 0:
                return None
            ax = rng.randrange(nd)
            k = rng.randint(1, 3)
            return ("repeat", p, k, ax), np.repeat(v, k, axis=ax)
        if op == "diff":
            if nd == 0:
                return None
            ax = rng.randrange(nd)
            if v.shape[ax] < 2:
                return None
            return ("diff", p, ax), np.diff(v, axis=ax)
        if op == "reshape":
            if v.size == 0 or nd == 0:
                return None
            if nd > 1 and rng.random() < 0.5:
                return ("reshape", p, (-1,)), v.reshape(-1)
            n = v.shape[-1]
            divs = [d for d in range(1, n + 1) if n % d == 0]
            d = rng.choice(divs)
            shape = tuple(v.shape[:-1]) + (d, n // d)
            return ("reshape", p, shape), v.reshape(shape)
        if op == "astype":
            dt = rng.choice(["float64", "int32", "int64"]) if v.dtype.kind in "iub" else "float64"   # never truncate floats
            return ("astype", p, dt), v.astype(dt)
        if op == "map_overlap":
            if nd == 0 or v.dtype.kind not in "iuf" or any(n == 0 for n in v.shape):
                return None
            ax = rng.randrange(nd)
            depth = rng.randint(1, 2)
            boundary = rng.choice(["reflect", "periodic", "nearest", 0])
            if v.shape[ax] < depth + 1:
                return None
            return ("map_overlap", p, depth, ax, boundary), overlap_numpy(v, depth, ax, boundary)
        if op == "setitem":
            if nd == 0 or v.dtype.kind not in "iu":
                return None
            key = rand_index(rng, v.shape, allow_none=False, allow_int=True, neg_step=False)
            tgt = v[key]
            kind = rng.choice(["scalar", "array", "array", "row"])
            if kind == "scalar" or tgt.ndim == 0 or tgt.size == 0:
                val = ("const", rng.randint(-9, 9))
                valv = val[1]
            else:
                shape = tgt.shape if kind == "array" else tgt.shape[-1:]
                valv = (np.arange(int(np.prod(shape)), dtype="int64").reshape(shape) + 100)
                self.sources.append((valv, tuple((n,) if n else (0,) for n in shape)))
                val = ("src", len(self.sources) - 1) if rng.random() < 0.5 else ("nparray", len(self.sources) - 1)
            out = v.copy()
            out[key] = valv
            return ("setitem", p, key, val), out
        if op == "where_out":
            if nd == 0 or v.dtype.kind not in "iu":
                return None
            q, w = self._other(v)
            if w.dtype != np.dtype("int64") or v.dtype != np.dtype("int64"):
                return None
            mshape = v.shape[-1:] if rng.random() < 0.6 else v.shape
            mask = (np.arange(int(np.prod(mshape))).reshape(mshape) % 3) != 0
            self.sources.append((mask, tuple(rand_chunks_for(rng, n) for n in mshape)))
            m = ("src", len(self.sources) - 1)
            base = (np.arange(int(np.prod(v.shape)), dtype="int64").reshape(v.shape) % 5) - 50
            self.sources.append((base, tuple(rand_chunks_for(rng, n) for n in v.shape)))
            o = ("src", len(self.sources) - 1)
            f = rng.choice(["add", "multiply", "subtract"])
            res = getattr(np, f)(v, w, where=np.broadcast_to(mask, v.shape), out=base.copy())
            return ("where_out", f, p, q, m, o), res
        if op == "diag":
            if nd == 1 and v.shape[0] <= 6:
                return ("diag", p), np.diag(v)
            if nd == 2 and v.shape[0] == v.shape[1]:
                return ("diag", p), np.diag(v)
            return None
        if op == "view":
            if nd == 0 or v.dtype != np.dtype("int64") or v.size == 0:
                return None
            order = rng.choice(["C", "F"]) if nd > 1 else "C"
            dt = rng.choice(["int32", "uint64", "float64"])
            val = np.ascontiguousarray(v).view(dt) if order == "C" else np.ascontiguousarray(v.T).view(dt).T
            return ("view", p, dt, order), val
        if op == "boolmask_reduce":
            if nd != 1 or v.size == 0:
                return None
            sel = v[v > 0]
            return ("reduce", "sum", ("boolmask", p, 0), None, False, None), np.asarray(sel.sum())
        return None

    def program(self, depth):
        p, v = self.leaf()
        self.pool.append((p, v))
        for _ in range(depth):
            if self.pool and self.rng.random() < 0.15:
                p, v = self.rng.choice(self.pool)
            p, v = self.step(p, v)
            if v.dtype.kind in "iu" and v.size and np.abs(v).max() > 10 ** 12:
                break
            self.pool.append((p, v))
        return p, v


# --------------------------------------------------------------------------
# NumPy meaning of the chunk-dependent ops
def _stencil(b, ax):
    # radius-1 stencil along ax, written with roll (valid inside, garbage at the rim that gets trimmed)
    return np.roll(b, 1, axis=ax) + 2 * b + np.roll(b, -1, axis=ax)


def make_stencil(ax):
    def f(b):
        return _stencil(b, ax)
    f.__name__ = f"stencil_ax{ax}"
    return f


def overlap_numpy(v, depth, ax, boundary):
    pad = [(0, 0)] * v.ndim
    pad[ax] = (depth, depth)
    if boundary == "reflect":
        e = np.pad(v, pad, mode="symmetric")
    elif boundary == "periodic":
        e = np.pad(v, pad, mode="wrap")
    elif boundary == "nearest":
        e = np.pad(v, pad, mode="edge")
    else:
        e = np.pad(v, pad, mode="constant", constant_values=boundary)
    r = _stencil(e, ax)
    sl = [slice(None)] * v.ndim
    sl[ax] = slice(depth, -depth)
    return r[tuple(sl)]


def mb_numpy(name, v, chunks):
    f = MB_FUNCS[name]
    out = np.empty_like(v)
    offs = [np.concatenate([[0], np.cumsum(c)]) for c in chunks]
    import itertools
    for loc in itertools.product(*[range(len(c)) for c in chunks]):
        sl = tuple(slice(int(o[i]), int(o[i + 1])) for o, i in zip(offs, loc))
        b = v[sl]
        if name == "info":
            out[sl] = f(b, block_info={0: {"chunk-location": loc}})
        else:
            out[sl] = f(b)
    return out


# --------------------------------------------------------------------------
def build(prog, da, sources, memo=None, hooks=None):
    """Evaluate `prog` with the dask_array module `da`; returns a da.Array."""
    memo = {} if memo is None else memo
    key = id(prog)
    if key in memo:
        return memo[key][1]

    def rec(q):
        return build(q, da, sources, memo, hooks)

    t = prog[0]
    if t == "src":
        data, chunks = sources[prog[1]]
        out = da.from_array(data, chunks=chunks)
    elif t == "ones":
        out = da.ones(prog[1], chunks=prog[2], dtype="int64")
    elif t == "arange":
        out = da.arange(prog[1], chunks=(prog[2],), dtype="int64")
    elif t == "const":
        out = prog[1]
    elif t == "elem":
        f = prog[1]
        args = [rec(a) for a in prog[2:]]
        out = getattr(da, f)(*args)
    elif t == "T":
        out = rec(prog[1]).transpose(prog[2])
    elif t == "slice":
        out = rec(prog[1])[prog[2]]
    elif t == "rechunk":
        out = rec(prog[1]).rechunk(prog[2])
    elif t == "concat":
        out = da.concatenate([rec(q) for q in prog[1]], axis=prog[2])
    elif t == "stack":
        out = da.stack([rec(q) for q in prog[1]], axis=prog[2])
    elif t == "expand":
        out = da.expand_dims(rec(prog[1]), prog[2])
    elif t == "squeeze":
        out = da.squeeze(rec(prog[1]), axis=prog[2])
    elif t == "reduce":
        _, f, q, axis, keepdims, se = prog
        x = rec(q)
        if f in ("argmax", "argmin"):
            out = getattr(da, f)(x, axis=axis, split_every=se)
        elif f == "count_nonzero":
            out = da.count_nonzero(x, axis=axis)
        else:
            out = getattr(da, f)(x, axis=axis, keepdims=keepdims, split_every=se)
    elif t == "cum":
        _, f, q, axis, method = prog
        out = getattr(da, f)(rec(q), axis=axis, method=method)
    elif t == "map_blocks":
        _, name, q, ch = prog
        x = rec(q)
        out = da.map_blocks(MB_FUNCS[name], x, dtype=x.dtype)
    elif t == "broadcast_to":
        out = da.broadcast_to(rec(prog[1]), prog[2])
    elif t == "flip":
        out = da.flip(rec(prog[1]), prog[2])
    elif t == "roll":
        out = da.roll(rec(prog[1]), prog[2], prog[3])
    elif t == "take":
        out = da.take(rec(prog[1]), list(prog[2]), axis=prog[3])
    elif t == "swv":
        _, q, w, ax, f = prog
        win = da.sliding_window_view(rec(q), w, axis=ax)
        out = win if f is None else getattr(win, f)(axis=-1)
    elif t == "where":
        out = da.where(rec(prog[1]), rec(prog[2]), rec(prog[3]))
    elif t == "repeat":
        out = da.repeat(rec(prog[1]), prog[2], axis=prog[3])
    elif t == "diff":
        out = da.diff(rec(prog[1]), axis=prog[2])
    elif t == "reshape":
        out = rec(prog[1]).reshape(prog[2])
    elif t == "astype":
        out = rec(prog[1]).astype(prog[2])
    elif t == "map_overlap":
        _, q, depth, ax, boundary = prog
        x = rec(q)
        out = da.map_overlap(make_stencil(ax), x, depth={ax: depth}, boundary={ax: boundary}, dtype=x.dtype)
    elif t == "boolmask":
        x = rec(prog[1])
        out = x[x > prog[2]]
    elif t == "arangef":
        out = da.arange(prog[1], chunks=(prog[2],), dtype="float64")
    elif t == "fftfreq":
        out = da.fft.fftfreq(prog[1], prog[2], chunks=(prog[3],))
    elif t == "nparray":
        out = sources[prog[1]][0]
        out = getattr(out, "_data", out)        # a literal NumPy value, never a (recording) source
    elif t == "setitem":
        out = rec(prog[1]).copy()
        out[prog[2]] = rec(prog[3])
    elif t == "where_out":
        _, f, a, b, m, o = prog
        od = rec(o).copy()
        out = getattr(da, f)(rec(a), rec(b), where=rec(m), out=od)
        out = od if out is None else out
    elif t == "diag":
        out = da.diag(rec(prog[1]))
    elif t == "view":
        out = rec(prog[1]).view(prog[2], order=prog[3])
    elif t == "call":
        from apicalls import CALLS
        out = CALLS[prog[1]].daf(da, [rec(c) for c in prog[3]], prog[2])
    else:
        raise ValueError(f"unknown op {t}")
    memo[key] = (prog, out)
    if hooks:
        hooks(prog, out)
    return out


def show(prog, depth=0):
    """compact printable form"""
    if not isinstance(prog, tuple):
        return repr(prog)
    t = prog[0]
    if t in ("src", "ones", "arange", "const", "arangef", "fftfreq", "nparray"):
        return "(" + " ".join([t] + [repr(x) for x in prog[1:]]) + ")"
    parts = []
    for x in prog[1:]:
        if isinstance(x, tuple) and x and isinstance(x[0], str) and x[0] in KNOWN_TAGS:
            parts.append(show(x, depth + 1))
        elif isinstance(x, tuple) and x and all(isinstance(y, tuple) and y and isinstance(y[0], str) and y[0] in KNOWN_TAGS for y in x):
            parts.append("[" + " ".join(show(y, depth + 1) for y in x) + "]")
        else:
            parts.append(repr(x))
    return "(" + " ".join([t] + parts) + ")"


KNOWN_TAGS = {"src", "ones", "arange", "const", "elem", "T", "slice", "rechunk", "concat", "stack", "expand", "squeeze",
              "reduce", "cum", "map_blocks", "broadcast_to", "flip", "roll", "take", "swv", "where", "repeat", "diff",
              "reshape", "astype", "map_overlap", "boolmask", "arangef", "fftfreq", "nparray", "setitem", "where_out", "diag", "view", "call"}


def subprograms(prog):
    """children programs of a node (for shrinking)"""
    out = []
    for x in prog[1:]:
        if isinstance(x, tuple) and x and isinstance(x[0], str) and x[0] in KNOWN_TAGS and x[0] not in ("const", "nparray"):
            out.append(x)
        elif isinstance(x, tuple) and x and all(isinstance(y, tuple) and y and isinstance(y[0], str) and y[0] in KNOWN_TAGS for y in x):
            out.extend(x)
    return out


def ops_in(prog, acc=None):
    acc = set() if acc is None else acc
    if isinstance(prog, tuple) and prog and isinstance(prog[0], str) and prog[0] in KNOWN_TAGS:
        acc.add(prog[0] if prog[0] != "reduce" else "reduce:" + prog[1])
        for q in subprograms(prog):
            ops_in(q, acc)
    return acc


def values_equal(got, want):
    got = np.asarray(got)
    want = np.asarray(want)
    if got.shape != want.shape:
        return False, f"shape {got.shape} != {want.shape}"
    if got.dtype.kind in "USOV" or want.dtype.kind in "USOV":
        ok = bool(got.dtype.kind == want.dtype.kind and np.array_equal(got, want))       # e.g. a key name returned instead of data
        return ok, "" if ok else f"values differ (dtype {got.dtype} vs {want.dtype})"
    if want.dtype.kind in "iub" and got.dtype.kind in "iub":
        ok = np.array_equal(got, want)
    else:
        ok = np.allclose(got.astype("float64"), want.astype("float64"), rtol=1e-9, atol=1e-9, equal_nan=True)
    return ok, "" if ok else "values differ"


# --------------------------------------------------------------------------
def eval_np(prog, sources, memo=None):
    """NumPy meaning of a program (the oracle)."""
    memo = {} if memo is None else memo
    key = id(prog)
    if key in memo:
        return memo[key][1]

    def rec(q):
        return eval_np(q, sources, memo)

    t = prog[0]
    if t == "src":
        out = sources[prog[1]][0]
    elif t == "ones":
        out = np.ones(prog[1], dtype="int64")
    elif t == "arange":
        out = np.arange(prog[1], dtype="int64")
    elif t == "const":
        out = prog[1]
    elif t == "elem":
        with np.errstate(all="ignore"):
            out = getattr(np, prog[1])(*[rec(a) for a in prog[2:]])
    elif t == "T":
        out = rec(prog[1]).transpose(prog[2])
    elif t == "slice":
        out = rec(prog[1])[prog[2]]
    elif t == "rechunk":
        out = rec(prog[1])
    elif t == "concat":
        out = np.concatenate([rec(q) for q in prog[1]], axis=prog[2])
    elif t == "stack":
        out = np.stack([rec(q) for q in prog[1]], axis=prog[2])
    elif t == "expand":
        out = np.expand_dims(rec(prog[1]), prog[2])
    elif t == "squeeze":
        out = np.squeeze(rec(prog[1]), axis=prog[2])
    elif t == "reduce":
        _, f, q, axis, keepdims, se = prog
        x = rec(q)
        with np.errstate(all="ignore"):
            if f in ("argmax", "argmin"):
                out = np.asarray(getattr(np, f)(x, axis=axis))
            else:
                out = np.asarray(getattr(np, f)(x, axis=axis, keepdims=keepdims))
    elif t == "cum":
        _, f, q, axis, method = prog
        out = getattr(np, f)(rec(q), axis=axis)
    elif t == "map_blocks":
        _, name, q, ch = prog
        out = mb_numpy(name, rec(q), ch)
    elif t == "broadcast_to":
        out = np.broadcast_to(rec(prog[1]), prog[2])
    elif t == "flip":
        out = np.flip(rec(prog[1]), prog[2])
    elif t == "roll":
        out = np.roll(rec(prog[1]), prog[2], prog[3])
    elif t == "take":
        out = np.take(rec(prog[1]), list(prog[2]), axis=prog[3])
    elif t == "swv":
        _, q, w, ax, f = prog
        win = np.lib.stride_tricks.sliding_window_view(rec(q), w, axis=ax)
        out = np.array(win) if f is None else getattr(np, f)(win, axis=-1)
    elif t == "where":
        out = np.where(rec(prog[1]), rec(prog[2]), rec(prog[3]))
    elif t == "repeat":
        out = np.repeat(rec(prog[1]), prog[2], axis=prog[3])
    elif t == "diff":
        out = np.diff(rec(prog[1]), axis=prog[2])
    elif t == "reshape":
        out = rec(prog[1]).reshape(prog[2])
    elif t == "astype":
        out = rec(prog[1]).astype(prog[2])
    elif t == "map_overlap":
        _, q, depth, ax, boundary = prog
        out = overlap_numpy(rec(q), depth, ax, boundary)
    elif t == "boolmask":
        x = rec(prog[1])
        out = x[x > prog[2]]
    elif t == "arangef":
        out = np.arange(prog[1], dtype="float64")
    elif t == "fftfreq":
        out = np.fft.fftfreq(prog[1], prog[2])
    elif t == "nparray":
        out = sources[prog[1]][0]
    elif t == "setitem":
        out = np.array(rec(prog[1]), copy=True)
        out[prog[2]] = rec(prog[3])
    elif t == "where_out":
        _, f, a, b, m, o = prog
        x = rec(a)
        out = getattr(np, f)(x, rec(b), where=np.broadcast_to(rec(m), np.shape(x)), out=np.array(rec(o), copy=True))
    elif t == "diag":
        out = np.diag(rec(prog[1]))
    elif t == "view":
        x = rec(prog[1])
        out = np.ascontiguousarray(x).view(prog[2]) if prog[3] == "C" else np.ascontiguousarray(x.T).view(prog[2]).T
    elif t == "call":
        from apicalls import CALLS
        with np.errstate(all="ignore"):
            out = CALLS[prog[1]].npf([np.asarray(rec(c)) for c in prog[3]], prog[2])
    else:
        raise ValueError(t)
    memo[key] = (prog, out)
    return out


def api_call_on(g, p, v, names=None):
    """one API call (harness/apicalls.py) applied on top of program p with NumPy value v; None when no call applies"""
    from apicalls import CALLS, applicable
    rng = g.rng
    v = np.asarray(v)
    names = [n for n in (names or sorted(CALLS)) if applicable(n, [v])]
    rng.shuffle(names)
    for name in names[:6]:
        c = CALLS[name]
        kids, vals = [p], [v]
        try:
            if c.arity == 2:
                w = c.second(rng, v)
                if w is None:
                    continue
                w = np.asarray(w)
                g.sources.append((w, tuple(rand_chunks_for(rng, n) for n in w.shape)))
                kids.append(("src", len(g.sources) - 1))
                vals.append(w)
            params = c.params(rng, vals)
            if params is None:
                continue
            with np.errstate(all="ignore"):
                out = c.npf(vals, params)
        except (TypeError, ValueError, IndexError, OverflowError, ZeroDivisionError, np.linalg.LinAlgError):
            continue
        return ("call", name, tuple(params), tuple(kids)), np.asarray(out)
    return None


def call_tag(prog, sources):
    """name of the API call at the root of `prog` (None for other roots); two documented edge regimes get their own tag"""
    if not (isinstance(prog, tuple) and prog and prog[0] == "call"):
        return None
    name, params = prog[1], prog[2]
    try:
        shape = np.shape(eval_np(prog[3][0], sources))
        if name == "pad" and params[1] in ("wrap", "symmetric"):
            w = max(params[0]) if isinstance(params[0], tuple) else params[0]
            if any(s < w for s in shape):
                return "pad-wider-than-axis"
        if name == "topk" and abs(params[0]) > shape[params[1]]:
            return "topk-k-beyond-axis"
        if name.startswith("reshape_blockwise") and all(s == 1 for s in shape):
            return "reshape_blockwise-all-ones"
    except Exception:  # noqa: BLE001
        pass
    return name


POST_OPS = ["slice", "slice", "rechunk", "T", "elem1", "scalar", "reduce", "take", "flip"]


def gen_api_programs(rng, n, names=None, max_dim=6):
    """n programs of the form  post*(call(pre))  : a small core program, ONE API call from harness/apicalls.py on top (round-robin
    over the table so that every entry is reached), then 0-2 core operations above it (they invite pushdowns through the
    call's expression).  Own family, so that the streams of gen_programs are left as they are."""
    from apicalls import CALLS, WEIGHTS
    order = [nm for nm in sorted(names or CALLS) for _ in range(WEIGHTS.get(nm, 1))]
    made = tries = 0
    while made < n and tries < n * 20:
        tries += 1
        name = order[made % len(order)]
        g = Gen(rng, max_dim=max_dim, ops=["elem2", "scalar", "T", "slice", "rechunk", "concat", "expand"], sources=[])
        p, v = g.program(rng.choice([0, 0, 1, 2]))
        if np.asarray(v).dtype.kind not in "iu":
            continue
        r = api_call_on(g, p, v, [name])
        if r is None:
            # the drawn operand does not fit this call: try a source of a rank the call accepts
            for rank in (1, 2, 3):
                shape = tuple(rng.choice([2, 3, 4, 5, 6, 7][: max_dim - 1]) for _ in range(rank))
                if rank == 1:
                    shape = (rng.choice([5, 7, 8, 9, 12]),)
                data = (np.arange(int(np.prod(shape)), dtype="int64").reshape(shape) * 7 + rng.randint(0, 5)) % 23 - 5
                g.sources.append((data, tuple(rand_chunks_for(rng, s) for s in shape)))
                r = api_call_on(g, ("src", len(g.sources) - 1), data, [name])
                if r is not None:
                    break
        if r is None:
            continue
        p, v = r
        g.ops = POST_OPS
        for _ in range(rng.choice([0, 0, 1, 1, 2])):
            if np.asarray(v).dtype.kind in "iub":
                p, v = g.step(p, np.asarray(v))
        made += 1
        yield p, g.sources, np.asarray(v)


def gen_programs(rng, n, depth_choices=(1, 2, 3, 4, 5, 6), ops=None, max_dim=8, unique=False):
    """n programs, each with its own sources; yields (prog, sources, want)"""
    for _ in range(n):
        g = Gen(rng, max_dim=max_dim, ops=ops, sources=[], unique=unique)
        p, v = g.program(rng.choice(depth_choices))
        yield p, g.sources, v


def shrink(prog, sources, fails):
    """smallest sub-program (by walking to children) on which `fails(prog)` still holds"""
    cur = prog
    changed = True
    while changed:
        changed = False
        for q in subprograms(cur):
            try:
                if fails(q):
                    cur, changed = q, True
                    break
            except Exception:  # noqa: BLE001
                continue
    return cur


def describe(prog, sources):
    used = sorted({q[1] for q in all_nodes(prog) if q[0] in ("src", "nparray")})
    return {"program": show(prog),
            "sources": {k: {"shape": list(sources[k][0].shape), "chunks": sources[k][1],
                            "data": sources[k][0].tolist() if sources[k][0].size <= 600 else "<%d elements>" % sources[k][0].size}
                        for k in used}}


def all_nodes(prog, acc=None, seen=None):
    acc = [] if acc is None else acc
    seen = set() if seen is None else seen
    if id(prog) in seen:
        return acc
    seen.add(id(prog))
    acc.append(prog)
    for q in subprograms(prog):
        all_nodes(q, acc, seen)
    return acc


# --------------------------------------------------------------------------
# corpus files: a program + its sources as a Python literal
def dump_case(path, prog, sources, note=""):
    import os
    os.makedirs(os.path.dirname(path), exist_ok=True)
    used = sorted({q[1] for q in all_nodes(prog) if q[0] in ("src", "nparray")})
    with open(path, "w") as f:
        f.write("# " + note.replace("\n", " ") + "\n")
        f.write(repr({"prog": prog, "sources": {k: (sources[k][0].tolist(), str(sources[k][0].dtype), list(sources[k][0].shape), sources[k][1]) for k in used}}))


def load_case(path):
    txt = "".join(l for l in open(path) if not l.startswith("#"))
    d = eval(txt, {"slice": slice, "None": None, "True": True, "False": False})
    n = max(d["sources"]) + 1 if d["sources"] else 0
    sources = [(np.zeros((1,), dtype="int64"), ((1,),))] * n
    for k, (data, dt, shape, chunks) in d["sources"].items():
        sources[k] = (np.array(data, dtype=dt).reshape(shape), chunks)
    return d["prog"], sources


def corpus_cases(pid):
    import glob
    import os
    base = os.path.join(os.path.dirname(os.path.dirname(os.path.abspath(__file__))), "corpus", pid)
    for p in sorted(glob.glob(os.path.join(base, "*.py"))):
        yield os.path.basename(p)[:-3], *load_case(p)


def all_leaf_uses(prog):
    """every OCCURRENCE of a leaf in the program text (shared sub-tuples counted once per use)"""
    out = []

    def rec(q):
        if q[0] in ("src", "ones", "arange", "arangef", "fftfreq"):
            out.append(q)
        for c in subprograms(q):
            rec(c)
    rec(prog)
    return out


# --------------------------------------------------------------------------
# directed families (added after seeded regressions slipped through the undirected generator)
def misaligned_take(rng):
    """fancy index / slice over an elemwise of two differently chunked operands: the optimized plan's chunks
    differ from the advertised ones, so the materialization bridge has to restore them"""
    n = rng.choice([8, 11, 12, 16])
    a = (np.arange(n, dtype="int64") * 3) % 17
    b = (np.arange(n, dtype="int64") * 5) % 13
    many = lambda: tuple(rand_chunks_for(rng, n) if rng.random() < 0.5 else _many_chunks(rng, n))  # noqa: E731
    sources = [(a, (many(),)), (b, (many(),))]
    base = ("elem", rng.choice(ELEM2), ("src", 0), ("src", 1))
    k = rng.randint(2, n)
    idx = tuple(sorted(rng.randrange(n) for _ in range(k))) if rng.random() < 0.7 else tuple(rng.randrange(n) for _ in range(k))
    prog = ("take", base, idx, 0)
    if rng.random() < 0.3:
        prog = ("elem", "add", prog, ("const", 1))
    return prog, sources, eval_np(prog, sources)


def _many_chunks(rng, n):
    k = min(n, rng.choice([3, 4, 5, 6, 8]))
    cuts = sorted(rng.sample(range(1, n), k - 1))
    return tuple(b - a for a, b in zip([0] + cuts, cuts + [n]))


def arange_fftfreq(rng):
    """a user-built float arange next to fftfreq with the same n / chunks: they share the arange tasks by name"""
    n = rng.choice([6, 8, 12])
    ch = rng.choice([c for c in [(n,), (n // 2, n // 2), (n // 3,) * 3] if sum(c) == n])
    ar, ff = ("arangef", n, ch), ("fftfreq", n, rng.choice([1.0, 0.5]), ch)
    kind = rng.choice(["stack", "add", "concat", "stack-rev"])
    if kind == "stack":
        prog = ("stack", (ar, ff), 0)
    elif kind == "stack-rev":
        prog = ("stack", (ff, ar), 0)
    elif kind == "add":
        prog = ("elem", "add", ar, ff)
    else:
        prog = ("concat", (("elem", "multiply", ar, ("const", 3)), ff), 0)
    return prog, [], eval_np(prog, [])


def slice_chain(rng):
    """x[idx1][idx2] with stepped first slices and integers / slices second (the Slice(Slice) fusion rule)"""
    rank = rng.choice([1, 2])
    shape = tuple(rng.choice([5, 8, 10, 12]) for _ in range(rank))
    data = np.arange(int(np.prod(shape)), dtype="int64").reshape(shape) + 1000
    sources = [(data, tuple(rand_chunks_for(rng, n) for n in shape))]
    idx1 = tuple(slice(rng.choice([None, 0, 1, 2]), rng.choice([None, n, n - 1]), rng.choice([1, 2, 2, 3])) for n in shape)
    v1 = data[idx1]
    idx2 = tuple((rng.randint(0, m - 1) if (m > 0 and rng.random() < 0.5) else slice(rng.choice([None, 0, 1]), None, rng.choice([None, 1, 2])))
                 for m in v1.shape)
    base = ("src", 0) if rng.random() < 0.5 else ("elem", "multiply", ("src", 0), ("const", 2))
    prog = ("slice", ("slice", base, idx1), idx2)
    return prog, sources, eval_np(prog, sources)


def diag_equal_counts(rng):
    """da.diag (k=0) of a 2-D array whose axes have the same NUMBER of blocks but not the same block sizes"""
    k = rng.choice([1, 2, 2, 3])
    r = [rng.randint(1, 4) for _ in range(k)]
    c = [rng.randint(1, 4) for _ in range(k)]
    if rng.random() < 0.5:
        c = list(r)
        rng.shuffle(c)
    shape = (sum(r), sum(c))
    data = np.arange(shape[0] * shape[1], dtype="int64").reshape(shape) + 1
    prog = ("diag", ("src", 0))
    sources = [(data, (tuple(r), tuple(c)))]
    return prog, sources, eval_np(prog, sources)
