"""C09 — results do not depend on materialization history or planner configuration."""
from __future__ import annotations

import random

import re
import warnings

import dask
import numpy as np

import progs
from common import Check

CONFIGS = {
    "array.optimize-graph": [True, True, False],
    "array.rechunk.threshold": [1, 4, 32],
    "array.rechunk.degree-limit": [2, 3, 100],
    "array.rechunk.method": ["tasks"],
    "array.chunk-size": ["64B", "1KiB", "128MiB"],
    "array.unify-chunks-policy": ["auto", "coarse", "refine"],
    "array.unify-chunks-limit": [64, "1KiB", "512MiB"],
}


def rand_config(rng):
    return {k: rng.choice(v) for k, v in CONFIGS.items() if rng.random() < 0.6}


def err_sig(e):
    return re.sub(r"[0-9(),\[\]'-]+", "#", f"{type(e).__name__}: {e}")[:36]


def stale_cached_chunks(expr, cfg):
    """is there a node whose CACHED .chunks differ from what its own chunks rule computes under the configuration in effect
    now?  (finding F5b: chunk unification reads array.unify-chunks-policy when .chunks is first asked, the value is cached on
    the singleton node, and a later lowering under another policy plans against a different grid)"""
    import functools
    try:
        with dask.config.set(cfg), warnings.catch_warnings():
            warnings.simplefilter("ignore")
            for n in expr.walk():
                c = getattr(type(n), "chunks", None)
                if isinstance(c, functools.cached_property) and "chunks" in getattr(n, "__dict__", {}):
                    try:
                        if c.func(n) != n.__dict__["chunks"]:
                            return True
                    except Exception:  # noqa: BLE001
                        continue
    except Exception:  # noqa: BLE001
        pass
    return False


def f5b_witness(chk, da):
    """deterministic reproducer of finding F5b: a collection M containing P as a sub-expression is computed under the default
    policy and stays alive; P is then built and computed under array.unify-chunks-policy=coarse"""
    from dask_array import _materialize
    _materialize._LOWER_CACHE.clear()
    s0 = np.array([-3, 0, 3, 6, -2, 1, 4])
    s1 = np.array([-4, 1, 6, -2, 3, -5, 0])
    s2 = np.array([[-3, 0, 3, 6, -2, 1, 4], [-4, -1, 2, 5, -3, 0, 3]])
    st = np.stack([s0 * np.arange(7), s1])
    want = int(np.argmin(np.where(st > 0, st, s2)))

    def P():
        a0, a1, a2 = da.from_array(s0, chunks=((5, 2),)), da.from_array(s1, chunks=1), da.from_array(s2, chunks=((1, 1), (3, 4)))
        t = da.stack([a0 * da.arange(7, chunks=1), a1], 0)
        return da.argmin(da.where(t > 0, t, a2), axis=None, split_every=2)
    with warnings.catch_warnings():
        warnings.simplefilter("ignore")
        with dask.config.set({"array.unify-chunks-policy": "auto"}):
            m = da.expand_dims(P(), 0) + 1
            first = int(m.compute(scheduler="sync")[0]) - 1
        # optimize-graph off: the lowering cache holds no form for this (name, flag) yet, so P is lowered afresh under 'coarse'
        cfg = {"array.unify-chunks-policy": "coarse", "array.optimize-graph": False}
        with dask.config.set(cfg):
            p = P()
            second = int(p.compute(scheduler="sync"))
            stale = stale_cached_chunks(p.expr, cfg)
    chk.case(("corpus", "F5b"), nontrivial=True)
    chk.count("witness:F5b:" + ("reproduced" if second != want else "not-reproduced"))
    if first != want or second != want:
        chk.violation(f"value depends on the configuration history: argmin = {first} under the default policy, {second} for the same program "
                      f"rebuilt under unify-chunks-policy=coarse (optimize-graph off) while a collection sharing the sub-expression is alive (NumPy {want})",
                      {"program": "argmin(where(stack([a0*arange(7), a1]) > 0, ., a2), axis=None, split_every=2); a0@(5,2) a1@1 a2@((1,1),(3,4))",
                       "first": first, "second": second, "numpy": want},
                      signature={"class": "value", "config_keys": ["array.unify-chunks-policy"], "flat_nd_arg_tie": False, "stale_cached_chunks": stale})
    del m, p
    _materialize._LOWER_CACHE.clear()


def flat_nd_arg_tie(prog, sources):
    """does the program contain argmin/argmax(axis=None) over an N-D value whose extremum occurs more than once?  (finding F10:
    which of the equal extrema is reported follows the block grid / tree shape)"""
    for q in progs.all_nodes(prog):
        if q[0] == "reduce" and "arg" in q[1] and q[3] is None:
            try:
                v = np.asarray(progs.eval_np(q[2], sources))
                ext = np.nanmin(v) if "min" in q[1] else np.nanmax(v)
                if v.ndim > 1 and int(np.sum(v == ext)) > 1:
                    return True
            except Exception:  # noqa: BLE001
                continue
    return False


def run_history(chk, da, rng, hid):
    # several programs over one shared pool of sources and sub-programs (shared subtrees across collections)
    g = progs.Gen(rng, ops=progs.CORE_OPS, sources=[])
    members = []
    for _ in range(rng.choice([3, 4, 5, 6])):
        p, v = g.program(rng.choice([1, 2, 3, 4]))
        members.append((p, v))
    sources = g.sources
    # baseline: which members compute at all in a fresh state with default config
    from dask_array import _materialize
    live = {}
    steps = []
    nsteps = rng.choice([6, 8, 12])
    for s in range(nsteps):
        i = rng.randrange(len(members))
        cfg = rand_config(rng)
        action = rng.choice(["build", "compute", "compute", "drop", "compute-fresh"])
        steps.append((action, i, cfg))
    ok_members = set()
    for i, (p, v) in enumerate(members):
        _materialize._LOWER_CACHE.clear()
        try:
            with warnings.catch_warnings():
                warnings.simplefilter("ignore")
                r = progs.build(p, da, sources, memo={}).compute(scheduler="sync")
            if progs.values_equal(r, v)[0]:
                ok_members.add(i)
        except Exception:  # noqa: BLE001
            pass
    _materialize._LOWER_CACHE.clear()
    chk.case(("history", hid, repr([(a, i, sorted(c.items(), key=str)) for a, i, c in steps])), nontrivial=len(ok_members) > 1,
             sample={"members": [progs.show(p) for p, _ in members], "steps": [(a, i, c) for a, i, c in steps]} if hid < 3 else None)
    poisoned = set()
    for sidx, (action, i, cfg) in enumerate(steps):
        if i not in ok_members:
            continue
        p, v = members[i]
        chk.count("step:" + action)
        for k in cfg:
            chk.count("cfg:" + k)
        try:
            with dask.config.set(cfg), warnings.catch_warnings():
                warnings.simplefilter("ignore")
                if action == "build":
                    live[i] = progs.build(p, da, sources, memo={})
                    continue
                if action == "drop":
                    live.pop(i, None)
                    continue
                if action == "compute-fresh" or i not in live:
                    live[i] = progs.build(p, da, sources, memo={})
                got = live[i].compute(scheduler="sync")
        except Exception as e:  # noqa: BLE001
            # does the configuration ALONE do it (fresh build, cleared lowering cache, same options)?  then the history is innocent
            config_alone = False
            try:
                saved = dict(_materialize._LOWER_CACHE)       # the probe must not change the history under test
                _materialize._LOWER_CACHE.clear()
                with dask.config.set(cfg), warnings.catch_warnings():
                    warnings.simplefilter("ignore")
                    progs.build(p, da, sources, memo={}).compute(scheduler="sync")
            except Exception as e2:  # noqa: BLE001
                config_alone = err_sig(e2) == err_sig(e)
            finally:
                try:
                    _materialize._LOWER_CACHE.clear()
                    _materialize._LOWER_CACHE.update(saved)
                except Exception:  # noqa: BLE001
                    pass
            chk.violation(f"a program that computes in a fresh process state raises after history/config changes: {type(e).__name__}: {str(e)[:100]}",
                          {"program": progs.show(p), "history": [(a, j, c) for a, j, c in steps[: sidx + 1]], "members": [progs.show(q) for q, _ in members],
                           "config": cfg, "members_repr": [repr(q) for q, _ in members], "target": i,
                           "all_sources": {k: {"shape": list(a.shape), "dtype": str(a.dtype), "chunks": c, "data": a.tolist() if a.size <= 600 else None} for k, (a, c) in enumerate(sources)}},
                          signature={"class": "raises", "error": err_sig(e), "config_alone": config_alone,
                                     # F5b's mechanism can also end in a graph that cannot be built (plan against a stale grid)
                                     "stale_cached_chunks": bool((i in live and stale_cached_chunks(live[i].expr, cfg)) or i in poisoned)})
            if i in live and stale_cached_chunks(live[i].expr, cfg):
                poisoned.add(i)
            continue
        ok, why = progs.values_equal(got, v)
        if ok:
            chk.traces_validated += 1
        else:
            chk.violation(f"value depends on history/configuration ({why})",
                          {"program": progs.show(p), "history": [(a, j, c) for a, j, c in steps[: sidx + 1]], "members": [progs.show(q) for q, _ in members],
                           "config": cfg, **progs.describe(p, sources), "members_repr": [repr(q) for q, _ in members],
                           "all_sources": {k: {"shape": list(a.shape), "chunks": c, "data": a.tolist() if a.size <= 600 else None} for k, (a, c) in enumerate(sources)}},
                          signature={"class": "value", "config_keys": sorted(cfg), "flat_nd_arg_tie": flat_nd_arg_tie(p, sources),
                                     # the caches poisoned by an earlier F5b step of this history keep serving the wrong form
                                     "stale_cached_chunks": bool(stale_cached_chunks(live[i].expr, cfg) or i in poisoned)})
            if stale_cached_chunks(live[i].expr, cfg):
                poisoned.add(i)
    _materialize._LOWER_CACHE.clear()


RED_FUNCS = ["sum", "prod", "mean", "var", "std", "min", "max", "argmin", "argmax", "all", "any",
             "nansum", "nanprod", "nanmean", "nanvar", "nanstd", "nanmin", "nanmax", "nanargmin", "nanargmax"]


def fam_split_every(chk, da, rng):
    """the answer of every tree reduction must not depend on split_every (keyword, config key, or the default): data with
    NaN-only blocks, ties and signed zeros, more blocks along the reduced axes than the fan-in"""
    import glob
    import json
    import os
    corpus = []
    for f in sorted(glob.glob(os.path.join(os.path.dirname(os.path.dirname(os.path.abspath(__file__))), "corpus", "C09", "*.json"))):
        dd = json.load(open(f)).get("data", {})
        if "fn" in dd and "data" in dd:
            ch = dd["chunks"]
            corpus.append((dd["fn"], np.array(dd["data"], dtype="float64"), tuple(tuple(c) if isinstance(c, list) else c for c in ch), dd["axis"]))
    for it, (fn, data, chunks, axis) in enumerate(corpus):
        with warnings.catch_warnings():
            warnings.simplefilter("ignore")
            want = getattr(np, fn)(data, axis=axis)
        chk.count("split_every:corpus")
        _split_every_case(chk, da, fn, data, chunks, axis, want, -1 - it)
    n = 2000 if chk.tier == "thorough" else 240
    for it in range(n):
        ndim = rng.choice([1, 1, 2, 2, 3])
        shape = tuple(rng.choice([5, 8, 12, 17, 20]) if d == 0 else rng.choice([2, 3, 6]) for d in range(ndim))
        chunks = tuple(progs.rand_chunks_for(rng, s) if rng.random() < 0.4 else rng.choice([1, 2, 3]) for s in shape)
        fn = RED_FUNCS[it % len(RED_FUNCS)]
        data = np.asarray(np.random.RandomState(rng.randrange(2 ** 31)).randint(-3, 4, size=shape), dtype="float64")
        if fn.startswith("nan") or rng.random() < 0.3:
            flavour = rng.choice(["nan-block", "nan-scattered", "nan-prefix"])
            if flavour == "nan-scattered":
                data[np.random.RandomState(it).rand(*shape) < 0.4] = np.nan
            else:
                k = rng.randrange(1, shape[0])
                if flavour == "nan-block":
                    lo = rng.randrange(0, shape[0] - k + 1)
                    data[lo:lo + k] = np.nan
                else:
                    data[:k] = np.nan
                if ndim > 1 and fn.startswith("nanarg"):
                    data[:, 0] = np.where(np.isnan(data[:, 0]), 1.0, data[:, 0])    # no all-NaN lane along axis 0 in column 0
        axis = rng.choice([None, 0, 0, ndim - 1])
        if fn in ("all", "any"):
            data = np.nan_to_num(data)
        with warnings.catch_warnings():
            warnings.simplefilter("ignore")
            try:
                want = getattr(np, fn)(data, axis=axis)
            except ValueError:
                continue          # all-NaN slice: NumPy itself raises
        _split_every_case(chk, da, fn, data, chunks, axis, want, it)


def _split_every_case(chk, da, fn, data, chunks, axis, want, it):
    shape, ndim = data.shape, data.ndim
    results = {}
    alive = []        # every collection of this case stays alive: a later tree must not be served an earlier tree's nodes
    settings = [("default", None), ("kw", 2), ("kw", 3), ("kw", 4), ("config", 2), ("config", 3), ("kw", 64)]
    if it % 2:
        settings = settings[::-1]
    for how, k in settings:
        try:
            with warnings.catch_warnings():
                warnings.simplefilter("ignore")
                x = da.from_array(data, chunks=chunks)
                if how == "config":
                    with dask.config.set(split_every=k):
                        r = getattr(da, fn)(x + 0, axis=axis)
                        got = r.compute(scheduler="sync")
                elif how == "kw":
                    r = getattr(da, fn)(x + 0, axis=axis, split_every=k)
                    got = r.compute(scheduler="sync")
                else:
                    r = getattr(da, fn)(x + 0, axis=axis)
                    got = r.compute(scheduler="sync")
                alive.append(r)
            results[(how, k)] = ("ok", got)
        except Exception as e:  # noqa: BLE001
            results[(how, k)] = ("raises", err_sig(e))
    chk.case(("split_every", fn, shape, repr(chunks), axis, it), nontrivial=True,
             sample={"fn": fn, "shape": shape, "chunks": chunks, "axis": axis} if it < 2 else None)
    chk.count("split_every:" + fn)
    desc = {"fn": fn, "axis": axis, "chunks": chunks, "data": data.tolist(), "numpy": np.asarray(want).tolist()}
    bad = []
    for key, (st, got) in results.items():
        if st == "raises":
            bad.append((key, got))
        elif not progs.values_equal(np.asarray(got, dtype="float64"), np.asarray(want, dtype="float64"))[0]:
            bad.append((key, np.asarray(got).tolist()))
        else:
            chk.traces_validated += 1
    if bad and len(bad) < len(results):
        chk.violation(f"{fn}: the result depends on split_every: {bad[:3]} (the other settings agree with NumPy)", {**desc, "bad": repr(bad)},
                      signature={"class": "split-every-dependence", "fn": fn,
                                 # flat arg reduction over an N-D grid whose extremum occurs more than once (tie order = block-grid order)
                                 "flat_nd_tie": bool(axis is None and ndim > 1 and "arg" in fn and
                                                     int(np.sum(data == (np.nanmin(data) if "min" in fn else np.nanmax(data)))) > 1)})
    elif bad:
        chk.count("split_every:wrong-under-every-setting(not a C09 matter):" + fn)


def fam_mutation_history(chk, da, rng):
    """in-place updates of ONE collection object interleaved with materialisations (compute, keys, graph, persist-like reads):
    the values after the update must not depend on whether / how the object was materialised before it"""
    n = 400 if chk.tier == "thorough" else 60
    for it in range(n):
        shape = (rng.choice([6, 9, 12]),) if rng.random() < 0.5 else (rng.choice([4, 6]), rng.choice([3, 5]))
        data = np.arange(int(np.prod(shape)), dtype="float64").reshape(shape) - 4
        chunks = tuple(progs.rand_chunks_for(rng, s) for s in shape)
        ups = []
        for _ in range(rng.choice([1, 2, 3])):
            kind = rng.choice(["mask", "mask-expr", "slice", "int", "ufunc-out"])
            ups.append((kind, rng.randrange(-3, 8), rng.randrange(100)))
        peeks = [rng.choice(["none", "compute", "keys", "graph", "derive", "compute-optimize-off"]) for _ in range(len(ups) + 1)]

        def apply(x, v, up):
            kind, a, b = up
            if kind == "mask":
                x[x > a] = -1.0
                v[v > a] = -1.0
            elif kind == "mask-expr":
                x[(x + 1) % 3 == 0] = float(b)
                v[(v + 1) % 3 == 0] = float(b)
            elif kind == "mask-array-value":
                x[x < a] = x * 2
                v[v < a] = (v * 2)[v < a]
            elif kind == "slice":
                x[1:4] = float(b)
                v[1:4] = float(b)
            elif kind == "int":
                x[0] = float(b)
                v[0] = float(b)
            else:
                da.add(x, 1.0, out=x)
                np.add(v, 1.0, out=v)

        def peek(x, how):
            if how == "compute":
                x.compute(scheduler="sync")
            elif how == "compute-optimize-off":
                with dask.config.set({"array.optimize-graph": False}):
                    x.compute(scheduler="sync")
            elif how == "keys":
                x.__dask_keys__()
            elif how == "graph":
                dict(x.__dask_graph__())
            elif how == "derive":
                (x + 1).compute(scheduler="sync")

        persisted = it % 3 == 0
        try:
            with warnings.catch_warnings():
                warnings.simplefilter("ignore")
                base = (da.from_array(data.copy(), chunks=chunks) * 1.0)
                if persisted:
                    # a persisted collection (its blocks are concrete arrays held by the graph) and an independent copy that is updated
                    base = base.persist(scheduler="sync")
                    base_before = base.compute(scheduler="sync").copy()
                x, v = (base.copy() if persisted else base), data.copy()
                fresh = da.from_array(data.copy(), chunks=chunks) * 1.0
                vf = data.copy()
                for up, pk in zip(ups, peeks):
                    peek(x, pk)
                    apply(x, v, up)
                    apply(fresh, vf, up)
                peek(x, peeks[-1])
                got = x.compute(scheduler="sync")
                got_fresh = fresh.compute(scheduler="sync")
                derived = (x + 1).compute(scheduler="sync")
        except Exception as e:  # noqa: BLE001
            chk.count("mutation:skipped-raises:" + err_sig(e)[:24])
            continue
        if persisted:
            chk.count("mutation:persisted-base")
            with warnings.catch_warnings():
                warnings.simplefilter("ignore")
                base_after = base.compute(scheduler="sync")
                base_derived = (base + 1).compute(scheduler="sync")
            if not progs.values_equal(base_after, base_before)[0] or not progs.values_equal(base_derived, base_before + 1)[0]:
                chk.violation("computing an updated COPY of a persisted collection changed what the persisted collection itself evaluates to",
                              {"shape": shape, "chunks": chunks, "updates": ups, "before": base_before.tolist(), "after": np.asarray(base_after).tolist()},
                              signature={"class": "mutation-history", "last_update": ups[-1][0], "persisted_base_changed": True})
        chk.case(("mutation-history", repr(ups), repr(peeks), shape, repr(chunks), persisted), nontrivial=any(p != "none" for p in peeks),
                 sample={"updates": ups, "materialised_before_each": peeks} if it < 2 else None)
        for kind, _, _ in ups:
            chk.count("mutation:" + kind)
        desc = {"shape": shape, "chunks": chunks, "updates": ups, "materialised_before_each_update": peeks,
                "got": np.asarray(got).tolist(), "never_materialised_twin": np.asarray(got_fresh).tolist(), "numpy": v.tolist()}
        if not progs.values_equal(got, got_fresh)[0] or not progs.values_equal(derived, got_fresh + 1)[0]:
            chk.violation("the value of a collection after in-place updates depends on whether it was materialised before them",
                          desc, signature={"class": "mutation-history", "last_update": ups[-1][0]})
        elif not progs.values_equal(got, v)[0]:
            chk.count("mutation:differs-from-numpy-in-every-history(not a C09 matter)")
        else:
            chk.traces_validated += 1


def run(chk: Check):
    import dask_array as da
    chk.rule = ("histories: 3-6 programs sharing sources and subtrees, 6-12 steps of build / compute / compute-fresh / drop in random "
                "order, a random subset of the planner/optimizer options switched at every step (optimize-graph, rechunk threshold / "
                "degree-limit / method, chunk-size, unify-chunks policy and limit; split_every varies inside the programs); every computed "
                "value is compared with the history-free NumPy value; non-trivial = at least two computable members.  "
                "split_every family: 20 reductions (incl. nan* and arg reductions) on NaN-block / tie data computed with the default fan-in, "
                "split_every=2,3,4,64 by keyword and 2,3 by config key: all must give the NumPy value.  Mutation-history family: one "
                "collection object updated in place (mask / slice / int setitem, ufunc out=) with compute / keys / graph / derive reads "
                "interleaved, compared with a never-materialised twin")
    chk.run_proofs()
    model_family(chk, da)
    fam_split_every(chk, da, chk.rng)
    fam_mutation_history(chk, da, chk.rng)
    n = 2500 if chk.tier == "thorough" else 120
    for hid in range(n):
        run_history(chk, da, chk.rng, hid)


def replay(path):
    print(open(path).read())


# ==========================================================================
# Model correspondence (coq/theories/History.v): the shared lowering cache under generated histories
import gc  # noqa: E402
from contextlib import contextmanager  # noqa: E402

from common import cbool, coq_eval_cases, ctuple  # noqa: E402

M_HEADER = "From DA Require Import PyBase History.\n"
H_CASE = "table * list (name * name) * list observed"
H_CHK = "Definition chk (c : " + H_CASE + ") : bool := let '(lt, stt, evs) := c in history_ok lt stt evs."
CFG_KEYS = ["array.rechunk.threshold", "array.rechunk.degree-limit", "array.rechunk.method", "array.chunk-size",
            "array.unify-chunks-policy", "array.unify-chunks-limit"]


class CacheLog:
    """wraps Expr.lower_once / ChunksFreeze.lower_once / _materialize._lower and records, for calls on the shared
    _LOWER_CACHE only: requests (post-order, with top-level ones marked), their results, and the evictions of the weak
    cache observed at every call boundary"""

    def __init__(self):
        from dask_array import _materialize
        self.mat = _materialize
        self.cache = _materialize._LOWER_CACHE
        self.ids = {}
        self.mirror = {}            # name -> result name, what the model believes is cached
        self.items = None           # current materialization: list of item literals
        self.results = None
        self.table = {}             # (cfg, name) -> result on a miss
        self.table_conflicts = []
        self.simp = {}
        self.depth = 0
        self.lower_calls = 0
        self.lower_in = self.lower_out = None
        self.cfg = None
        self.foreign = 0
        self.record = None          # name -> expression object (cache_invariant_check only: keeps them alive)

    def nid(self, name):
        return self.ids.setdefault(name, len(self.ids) + 1)

    def sync(self):
        """entries the model has and the real (weak) cache lost -> Gc; entries only the real cache has -> foreign"""
        real = dict((k, v._name) for k, v in list(self.cache.items()))
        dead = [k for k in self.mirror if k not in real]
        for k in dead:
            del self.mirror[k]
        self.foreign_keys = [k for k in real if k not in self.mirror]
        return dead

    @contextmanager
    def installed(self):
        import dask._expr as de
        from dask_array._expr import ChunksFreeze
        log = self
        patched = []

        def wrap(cls):
            orig = cls.__dict__["lower_once"]

            def lower_once(expr, lowered):
                if lowered is not log.cache or log.items is None:
                    return orig(expr, lowered)
                dead = log.sync()
                if dead:
                    log.items.append("Gc [" + "; ".join(str(log.nid(k)) for k in dead) + "]%positive")
                name = expr._name
                if log.record is not None:
                    log.record[name] = expr
                hit = name in log.cache
                top = log.depth == 0
                log.depth += 1
                try:
                    out = orig(expr, lowered)
                finally:
                    log.depth -= 1
                if not hit:
                    key = (log.cfg, name)
                    if key in log.table and log.table[key] != out._name:
                        log.table_conflicts.append((key, log.table[key], out._name))
                    log.table.setdefault(key, out._name)
                dead = [k for k in log.sync() if k != name]
                if dead:
                    log.items.append("Gc [" + "; ".join(str(log.nid(k)) for k in dead) + "]%positive")
                if not hit:
                    log.mirror.setdefault(name, out._name)
                log.items.append("Top" if top else f"Req {log.nid(name)}%positive")
                log.results.append(log.nid(out._name))
                return out
            setattr(cls, "lower_once", lower_once)
            patched.append((cls, orig))
        wrap(de.Expr)
        wrap(ChunksFreeze)
        from dask_array.io._from_array import FromArray
        fa_orig = FromArray.__dict__["lower_once"]

        def fa_lower_once(expr, lowered):
            if lowered is log.cache and log.items is not None and expr.operand("_name_is_exact"):
                if log.depth == 0:
                    log.items.append("TopSelf")
                    log.results.append(log.nid(expr._name))
                return expr
            return fa_orig(expr, lowered)
        FromArray.lower_once = fa_lower_once
        patched.append((FromArray, fa_orig))
        orig_lower = self.mat._lower

        def _lower(expr, optimize_graph):
            if log.items is None:
                return orig_lower(expr, optimize_graph)
            log.lower_calls += 1
            n_before = len(log.results)
            first = len(log.items)
            out = orig_lower(expr, optimize_graph)
            if log.lower_calls == 1:
                log.lower_in, log.lower_out = expr._name, out._name
                log.first_item = first
            return out
        self.mat._lower = _lower
        try:
            yield self
        finally:
            self.mat._lower = orig_lower
            for cls, orig in patched:
                setattr(cls, "lower_once", orig)


def cfg_id(log, cfgs):
    key = tuple(repr(dask.config.get(k, None)) for k in CFG_KEYS)
    return cfgs.setdefault(key, len(cfgs) + 1)


def model_history(chk, da, rng, hid, log):
    from dask_array import _materialize
    g = progs.Gen(rng, ops=progs.CORE_OPS, sources=[])
    members = [g.program(rng.choice([1, 2, 3])) for _ in range(rng.choice([2, 3, 4]))]
    sources = g.sources
    gc.collect()
    _materialize._LOWER_CACHE.clear()
    log.mirror.clear()
    log.table.clear()
    log.simp.clear()
    log.ids.clear()
    log.table_conflicts.clear()
    log.foreign = 0
    cfgs = {}
    colls = []              # (member index, collection or None when dropped)
    evs = []
    steps = []
    skipped = None

    def snapshot():
        return "[" + "; ".join(f"({log.nid(k)}, {log.nid(v._name)})" for k, v in list(_materialize._LOWER_CACHE.items())) + "]%positive"

    def emit(op, results, low):
        evs.append(ctuple(op, "[" + "; ".join(map(str, results)) + "]%positive", "None" if low is None else f"(Some {low}%positive)", snapshot()))

    def gc_step():
        gc.collect()
        dead = log.sync()
        if dead:
            emit("Evict [" + "; ".join(str(log.nid(k)) for k in dead) + "]%positive", [], None)

    for s in range(rng.choice([4, 6, 9])):
        action = rng.choice(["build", "materialize", "materialize", "materialize", "drop"])
        cfg = rand_config(rng)
        steps.append((action, sorted(cfg.items(), key=str)))
        chk.count("model-step:" + action)
        gc_step()
        with dask.config.set(cfg), warnings.catch_warnings():
            warnings.simplefilter("ignore")
            if action == "build" or not colls:
                i = rng.randrange(len(members))
                try:
                    x = progs.build(members[i][0], da, sources, memo={})
                except Exception:  # noqa: BLE001
                    continue
                colls.append(x)
                emit(f"Build {log.nid(x.expr._name)}%positive", [], None)
                gc_step()
                continue
            c = rng.randrange(len(colls))
            x = colls[c]
            if action == "drop":
                if x is not None:
                    emit(f"Drop {c}%nat", [], None)
                    colls[c] = None
                    del x
                    gc_step()
                continue
            if x is None:
                continue
            had = "_lowered_expr" in x.__dict__
            log.items, log.results, log.depth, log.lower_calls = [], [], 0, 0
            log.lower_in = log.lower_out = None
            log.cfg = cfg_id(log, cfgs)
            try:
                x._lowered_expr      # (no local reference: the lowered tree must live and die with the collection)
            except Exception:  # noqa: BLE001
                skipped = "materialize-raises"
                log.items = None
                break
            items, results = log.items, log.results
            log.items = None
            gc.collect()
            dead = log.sync()
            if dead:
                items.append("Gc [" + "; ".join(str(log.nid(k)) for k in dead) + "]%positive")
            if log.foreign_keys:
                log.foreign += len(log.foreign_keys)
            if had:
                emit(f"Materialize {c}%nat {log.cfg}%positive {cbool(x._lowered_expr_optimize_graph)} []", [], None)
                gc_step()
                continue
            if log.lower_calls != 1:
                skipped = f"lower-calls-{log.lower_calls}"
                break
            if not any(i in ("Top", "TopSelf") for i in items):
                skipped = "no-top-level-request"
                break
            opt = x._lowered_expr_optimize_graph
            # simplify: the name the first top-level request was issued for
            if opt:
                simplified = x.expr.simplify()._name
                if log.simp.get(x.expr._name, simplified) != simplified:
                    # the model takes simplify as a function of the NAME; in this history the same raw expression simplified to two
                    # different forms under two configurations (option-dependent pushdowns): outside the model, counted
                    skipped = "simplify-depends-on-config"
                    break
                log.simp[x.expr._name] = simplified
            emit(f"Materialize {c}%nat {log.cfg}%positive {cbool(opt)} [" + "; ".join(items) + "]", results, log.nid(log.lower_out))
            # the invariant on the REAL cache: every cached lowered form computes what its key's expression computes
            gc_step()
    if skipped:
        chk.count("model-history-skipped:" + skipped)
        return None
    if log.table_conflicts:
        chk.violation("one-pass lowering is not a function of (configuration, name)", {"conflicts": log.table_conflicts[:3], "steps": steps},
                      signature={"class": "lower-not-functional"})
    if log.foreign:
        chk.count("model-history:foreign-cache-writes", log.foreign)
    table = "[" + "; ".join(f"({k[0]}, {log.nid(k[1])}, {log.nid(v)})" for k, v in log.table.items()) + "]%positive"
    simp = "[" + "; ".join(f"({log.nid(k)}, {log.nid(v)})" for k, v in log.simp.items()) + "]%positive"
    chk.case(("model-history", hid, repr(steps)), nontrivial=len(evs) > 2, sample=None)
    return ctuple(table, simp, "[" + "; ".join(evs) + "]"), {"members": [progs.show(p) for p, _ in members], "steps": steps}


def cache_invariant_check(chk, da, rng, n, log):
    """the invariant of C09_cache_invariant on the REAL cache: every entry name -> lowered form that rewrote something
    is evaluated (exprs.eval_lowered of its complete lowering) against the expression it is filed under"""
    import exprs
    from dask_array import _materialize
    done = 0
    for prog, sources, want in progs.gen_programs(rng, n, ops=progs.CORE_OPS, depth_choices=(1, 2, 3)):
        _materialize._LOWER_CACHE.clear()
        log.mirror.clear()
        cfg = rand_config(rng)
        try:
            with dask.config.set(cfg), warnings.catch_warnings():
                warnings.simplefilter("ignore")
                x = progs.build(prog, da, sources, memo={})
                log.items, log.results, log.depth, log.record, log.cfg = [], [], 0, {}, 0
                pairs = []
                try:
                    low = x._lowered_expr
                    # the weak cache keeps only live forms: collect (key expression, cached form) pairs now
                    pairs = [(log.record[k], v) for k, v in list(_materialize._LOWER_CACHE.items()) if k in log.record and v._name != k]
                    pairs += [(log.record[k], log.record[v]) for (_c, k), v in log.table.items() if k in log.record and v in log.record and v != k]
                finally:
                    log.items, log.record = None, None
                    log.table.clear()
                seen = set()
                for key_expr, form in pairs:
                    if (key_expr._name, form._name) in seen or len(seen) >= 6:
                        continue
                    seen.add((key_expr._name, form._name))
                    a = exprs.eval_expr(key_expr)
                    b = exprs.eval_lowered(form.lower_completely())
                    ok, why = progs.values_equal(b, a)
                    chk.count("cache-invariant:entries")
                    if not ok:
                        chk.violation(f"a _LOWER_CACHE entry does not compute what its key's expression computes ({why})",
                                      {"program": progs.show(prog), "key": key_expr._name, "form": form._name, "config": cfg},
                                      signature={"class": "cache-invariant"})
                    else:
                        done += 1
                del low
        except Exception as e:  # noqa: BLE001
            chk.count("cache-invariant:skipped:" + type(e).__name__)
    chk.traces_validated += done
    _materialize._LOWER_CACHE.clear()


def f5_witness(chk, da):
    """replay of the witness of C09_lower_context_free_refuted on the real code: one name, two configurations, two
    forms; with the cache retained the second configuration is served the first one's form (values equal)"""
    from dask_array import _materialize

    def form(policy, clear):
        if clear:
            _materialize._LOWER_CACHE.clear()
        with dask.config.set({"array.unify-chunks-policy": policy}), warnings.catch_warnings():
            warnings.simplefilter("ignore")
            x = da.from_array(np.arange(24), chunks=6) + da.from_array(np.arange(24), chunks=12)
            low = _materialize._lower(x.expr, optimize_graph=False)
            return x.expr._name, low._name, low.chunks, low, x.compute(scheduler="sync")
    n1, f1, c1, keep1, v1 = form("auto", True)
    n2, f2, c2, keep2, v2 = form("refine", True)
    n3, f3, c3, keep3, v3 = form("auto", True)
    n4, f4, c4, keep4, v4 = form("refine", False)
    w = {"same_name": n1 == n2, "forms_differ_across_config": f1 != f2, "layouts": [c1, c2],
         "stale_form_served": f4 == f3 and f4 != f2, "values_equal": bool(np.array_equal(v1, v2) and np.array_equal(v3, v4))}
    chk.extra["lower_context_free_witness"] = w
    chk.count("witness:lower-depends-on-config:" + ("reproduced" if w["same_name"] and w["forms_differ_across_config"] else "not-reproduced"))
    chk.count("witness:stale-form-served:" + ("reproduced" if w["stale_form_served"] else "not-reproduced"))
    if not w["values_equal"]:
        chk.violation("value depends on the configuration under which the name was first lowered", w, signature={"class": "value", "config_keys": ["array.unify-chunks-policy"]})
    _materialize._LOWER_CACHE.clear()


def model_family(chk, da):
    rng = random.Random(f"{chk.pid}-model-family-{chk.seed}")     # own stream: the checks above keep theirs
    f5_witness(chk, da)
    f5b_witness(chk, da)
    log = CacheLog()
    cases, descs = [], []
    n = 1500 if chk.tier == "thorough" else 100
    with log.installed():
        for hid in range(n):
            r = model_history(chk, da, rng, hid, log)
            if r is not None:
                cases.append(r[0])
                descs.append(r[1])
        cache_invariant_check(chk, da, rng, 600 if chk.tier == "thorough" else 40, log)
    for i in coq_eval_cases(M_HEADER, H_CASE, H_CHK, cases, chunk=40)[0]:
        chk.tie_break("history-model", {"case": descs[i], "literal": cases[i][:1500], "literal_full": cases[i]})
    chk.traces_validated += len(cases)
