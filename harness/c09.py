"""C09 — results do not depend on materialization history or planner configuration."""
from __future__ import annotations

import re
import warnings

import dask
import numpy as np

import progs
from common import Check

CONFIGS = {
    "array.optimize-graph": [True, True, False],
    "array.rechunk.threshold": [1, 4, 32],
    "array.rechunk.degree-limit": [2, 3, 100],
    "array.rechunk.method": ["tasks"],
    "array.chunk-size": ["64B", "1KiB", "128MiB"],
    "array.unify-chunks-policy": ["auto", "coarse", "refine"],
    "array.unify-chunks-limit": [64, "1KiB", "512MiB"],
}


def rand_config(rng):
    return {k: rng.choice(v) for k, v in CONFIGS.items() if rng.random() < 0.6}


def err_sig(e):
    return re.sub(r"[0-9(),\[\]'-]+", "#", f"{type(e).__name__}: {e}")[:36]


def run_history(chk, da, rng, hid):
    # several programs over one shared pool of sources and sub-programs (shared subtrees across collections)
    g = progs.Gen(rng, ops=progs.CORE_OPS, sources=[])
    members = []
    for _ in range(rng.choice([3, 4, 5, 6])):
        p, v = g.program(rng.choice([1, 2, 3, 4]))
        members.append((p, v))
    sources = g.sources
    # baseline: which members compute at all in a fresh state with default config
    from dask_array import _materialize
    live = {}
    steps = []
    nsteps = rng.choice([6, 8, 12])
    for s in range(nsteps):
        i = rng.randrange(len(members))
        cfg = rand_config(rng)
        action = rng.choice(["build", "compute", "compute", "drop", "compute-fresh"])
        steps.append((action, i, cfg))
    ok_members = set()
    for i, (p, v) in enumerate(members):
        _materialize._LOWER_CACHE.clear()
        try:
            with warnings.catch_warnings():
                warnings.simplefilter("ignore")
                r = progs.build(p, da, sources, memo={}).compute(scheduler="sync")
            if progs.values_equal(r, v)[0]:
                ok_members.add(i)
        except Exception:  # noqa: BLE001
            pass
    _materialize._LOWER_CACHE.clear()
    chk.case(("history", hid, repr([(a, i, sorted(c.items(), key=str)) for a, i, c in steps])), nontrivial=len(ok_members) > 1,
             sample={"members": [progs.show(p) for p, _ in members], "steps": [(a, i, c) for a, i, c in steps]} if hid < 3 else None)
    for sidx, (action, i, cfg) in enumerate(steps):
        if i not in ok_members:
            continue
        p, v = members[i]
        chk.count("step:" + action)
        for k in cfg:
            chk.count("cfg:" + k)
        try:
            with dask.config.set(cfg), warnings.catch_warnings():
                warnings.simplefilter("ignore")
                if action == "build":
                    live[i] = progs.build(p, da, sources, memo={})
                    continue
                if action == "drop":
                    live.pop(i, None)
                    continue
                if action == "compute-fresh" or i not in live:
                    live[i] = progs.build(p, da, sources, memo={})
                got = live[i].compute(scheduler="sync")
        except Exception as e:  # noqa: BLE001
            chk.violation(f"a program that computes in a fresh process state raises after history/config changes: {type(e).__name__}: {str(e)[:100]}",
                          {"program": progs.show(p), "history": [(a, j, c) for a, j, c in steps[: sidx + 1]], "members": [progs.show(q) for q, _ in members],
                           "config": cfg},
                          signature={"class": "raises", "error": err_sig(e)})
            continue
        ok, why = progs.values_equal(got, v)
        if ok:
            chk.traces_validated += 1
        else:
            chk.violation(f"value depends on history/configuration ({why})",
                          {"program": progs.show(p), "history": [(a, j, c) for a, j, c in steps[: sidx + 1]], "members": [progs.show(q) for q, _ in members],
                           "config": cfg, **progs.describe(p, sources)},
                          signature={"class": "value", "config_keys": sorted(cfg)})
    _materialize._LOWER_CACHE.clear()


def run(chk: Check):
    import dask_array as da
    chk.rule = ("histories: 3-6 programs sharing sources and subtrees, 6-12 steps of build / compute / compute-fresh / drop in random "
                "order, a random subset of the planner/optimizer options switched at every step (optimize-graph, rechunk threshold / "
                "degree-limit / method, chunk-size, unify-chunks policy and limit; split_every varies inside the programs); every computed "
                "value is compared with the history-free NumPy value; non-trivial = at least two computable members")
    chk.run_proofs()
    n = 2500 if chk.tier == "thorough" else 120
    for hid in range(n):
        run_history(chk, da, chk.rng, hid)


def replay(path):
    print(open(path).read())
