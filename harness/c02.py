"""C02 — every optimization phase and every fired rewrite preserves values."""
from __future__ import annotations

import json
import re
import warnings

import numpy as np

import c02_rules
import exprs
import progs
from common import Check

CORPUS_TAGS = None


def clear_caches():
    from dask_array import _materialize
    _materialize._LOWER_CACHE.clear()


def err_sig(e):
    return re.sub(r"[0-9(),\[\]'-]+", "#", f"{type(e).__name__}: {e}")[:36]


def features(prog):
    nodes = progs.all_nodes(prog)
    nested = False
    for q in nodes:
        if q[0] == "swv" and q[4] is not None and any(r[0] == "swv" and r[4] is not None for r in progs.all_nodes(q)[1:]):
            nested = True
    # BroadcastTo nodes also come from inside API calls (pad with mode='edge' / tile / apply_along_axis ...)
    internal_bt = any(q[0] == "call" and q[1] in ("pad", "tile", "apply_along_axis", "apply_along_axis_scalar", "block22", "hstack", "vstack", "dstack", "cov", "average_w", "gradient")
                      for q in nodes)
    return {"nested_swv_reduction": nested, "has_broadcast_to": any(q[0] == "broadcast_to" for q in nodes) or internal_bt,
            "nonpointwise_map_blocks": any(q[0] == "map_blocks" and q[1] in ("reverse", "plus_blocksum") for q in nodes)}


def block_indexed_axes(before):
    """output axes of a Slice-over-Blockwise instance whose label the Blockwise maps to ONE element per block (adjust_chunks -> 1:
    the partial results of tensordot / matmul chunk steps) and which the slice leaves whole"""
    from dask_array._blockwise import Blockwise
    from dask_array.slicing import SliceSlicesIntegers
    if not (isinstance(before, SliceSlicesIntegers) and type(before.array).__name__ == "Blockwise" and isinstance(before.array, Blockwise)):
        return ()
    b = before.array
    adj = b.adjust_chunks or {}
    if not adj or any(not isinstance(i, slice) for i in before.index):
        return ()
    axes = []
    for k, lab in enumerate(b.out_ind):
        if lab in adj:
            ix = before.index[k] if k < len(before.index) else slice(None)
            if ix != slice(None) and ix != slice(0, None, None) and ix != slice(0, b.shape[k], 1) and ix != slice(None, None, None):
                return ()
            if all(c == 1 for c in b.chunks[k]):
                axes.append(k)
    return tuple(axes)


def run_program(chk, da, prog, sources, want, rc=None):
    feats = features(prog)
    for o in progs.ops_in(prog):
        chk.count("op:" + o)
    desc = progs.describe(prog, sources)
    nodes = len(progs.all_nodes(prog))
    chk.case(("prog", progs.show(prog), repr([(s[0].shape, s[1]) for s in sources])), nontrivial=nodes > 1,
             sample=desc if nodes <= 5 else None)
    clear_caches()
    try:
        with warnings.catch_warnings():
            warnings.simplefilter("ignore")
            arr = progs.build(prog, da, sources)
    except Exception:  # noqa: BLE001  construction errors are C01's business
        chk.count("skipped:construction-raises")
        return
    expr = arr.expr
    # ---- reference semantics: the raw expression, lowered only
    try:
        ref = exprs.eval_expr(expr)
    except Exception as e:  # noqa: BLE001
        chk.count("skipped:raw-form-raises")
        return
    # ---- fired rewrites, each validated by executing before and after
    fired = []
    forms = {}
    opt_error = None
    with exprs.capture_rewrites() as rec:
        try:
            forms = exprs.phases(expr)
        except Exception as e:  # noqa: BLE001
            opt_error = e
        fired = list(rec)
    seen = set()
    for phase, rule, before, after in fired:
        key = (rule, before._name, getattr(after, "_name", None))
        if key in seen:
            continue
        seen.add(key)
        chk.count("rule:" + rule)
        if rc is not None:
            rc.add(rule, before, after, "captured")   # model correspondence (translation validation, in Coq)
        try:
            vb = exprs.eval_expr(before)
        except Exception:  # noqa: BLE001
            chk.count("rule-skipped:before-raises")
            continue
        try:
            va = exprs.eval_expr(after)
        except Exception as e:  # noqa: BLE001
            chk.violation(f"rewrite {rule} turned a computable expression into one that raises: {type(e).__name__}: {str(e)[:120]}",
                          {"rule": rule, "before": exprs.tree(before), "after": exprs.tree(after), **desc},
                          signature={"class": "rewrite-raises", "rule": rule, "error": err_sig(e), **feats})
            continue
        ok, why = exprs.same(va, vb)
        if not ok:
            red = block_indexed_axes(before)
            if red and np.shape(va) == np.shape(vb):
                # the node below the slice is a contraction's partial-result Blockwise: along those output axes the INDEX IS A
                # BLOCK NUMBER (one partial per block), so the entries depend on where the operands' block boundaries fall;
                # what the expression denotes for its (summing) consumer is the total over these axes
                ok, why = exprs.same(np.sum(va, axis=red), np.sum(vb, axis=red))
                chk.count("rule-instance:compared-as-sum-over-block-indexed-axes")
        chk.traces_validated += 1
        if not ok:
            chk.violation(f"rewrite {rule} changed the denoted array ({why})",
                          {"rule": rule, "before": exprs.tree(before), "after": exprs.tree(after),
                           "before_value": vb.tolist() if vb.size <= 40 else None, "after_value": va.tolist() if va.size <= 40 else None, **desc},
                          signature={"class": "rewrite-changes-value", "rule": rule, **feats})
    # ---- phases
    if opt_error is not None:
        chk.violation(f"optimization raised on a computable program: {type(opt_error).__name__}: {str(opt_error)[:120]}",
                      desc, signature={"class": "phase-raises", "error": err_sig(opt_error), **feats})
        return
    for name in ("simplified", "lowered", "fused"):
        try:
            with exprs.capture_paused():
                val = exprs.eval_lowered(forms[name]) if name != "simplified" else exprs.eval_expr(forms[name])
        except Exception as e:  # noqa: BLE001
            chk.violation(f"the {name} form raises: {type(e).__name__}: {str(e)[:120]}", desc,
                          signature={"class": "phase-raises", "phase": name, "error": err_sig(e), **feats})
            continue
        ok, why = exprs.same(val, ref)
        if not ok:
            chk.violation(f"the {name} form computes a different array than the raw form ({why})",
                          {**desc, "raw_value": ref.tolist() if ref.size <= 40 else None, "value": val.tolist() if val.size <= 40 else None,
                           "forms": {k: exprs.tree(v) for k, v in forms.items()}},
                          signature={"class": "phase-changes-value", "phase": name, **feats})
    # the raw form must also be what NumPy computes (ties C02's reference to C01's oracle)
    ok, _ = progs.values_equal(ref, want)
    if not ok:
        chk.count("raw-form-differs-from-numpy")


def replay(path):
    print(open(path).read())


def run(chk: Check):
    import dask_array as da
    chk.rule = ("generated programs (shared subtrees included); for each, the raw / simplified / lowered / fused forms are executed "
                "and compared; every rewrite that fires during simplify or lower is captured as (rule, before, after) objects "
                "(the three hooks are wrapped from the harness, as trace_rewrites does) and validated by executing before and "
                "after un-optimized; sources hold position-coded distinct values so a wrong block mapping shows; non-trivial = "
                "more than one node; distinct by printed program + source layouts")
    chk.rule += ("; MODEL CORRESPONDENCE (harness/c02_rules.py): each fired instance of a modelled rule (captured, or produced by "
                 "invoking the rule hook directly on random operands) is reified (class -> constructor, index/axes/shape/chunk "
                 "operands -> Coq literals, other children -> opaque leaves) and Coq checks wfb before = true and "
                 "rule_fn before = Some after by exact structural equality; counts per rule are in rule_instances")
    chk.assumptions = ["the raw expression lowered without simplify is the reference semantics (it is compared with NumPy by C01)",
                       "reifier: an Elemwise operator is identified by (op, dtype, name, kwargs); scalar operands by (type, repr); "
                       "unmodelled child classes are opaque leaves identified by _name with their shape and chunks; ones/zeros/full "
                       "are identified by (class, dtype, meta, kwargs); where=/out= arrays of an Elemwise are its last two operands",
                       "oracle arguments of the rule functions are read back from the implementation: the unified layout "
                       "(unify_chunks_expr) for Elemwise._lower, _choose_rechunk_method for Rechunk._lower, "
                       "_NUMPY_SLICE_PUSHDOWN_NBYTES_LIMIT for FromArray._accept_slice"]
    chk.run_proofs()
    import c01
    S = slice
    corpus = [c for c in c01.CORPUS if c[0] in ("F2", "F11a", "F11b", "F17", "F18", "F20", "F20w")]
    corpus.append(("F24", ("broadcast_to", ("flip", ("diff", ("src", 0), 0), 0), (3, 5)), [(np.arange(6, dtype="int64"), ((2, 4),))]))
    corpus.append(("C01-S2", ("slice", ("call", "flatten_after_T", (), (("ones", (1, 4), ((1,), (1, 1, 2))),)), (2,)), []))
    rc = c02_rules.RuleCheck(chk)
    for tag, prog, sources in corpus:
        run_program(chk, da, prog, sources, progs.eval_np(prog, sources), rc)
    for _ in range(1500 if chk.tier == "thorough" else 120):
        prog, sources, want = progs.slice_chain(chk.rng)
        run_program(chk, da, prog, sources, want, rc) if "rc" in run_program.__code__.co_varnames else run_program(chk, da, prog, sources, want)
    n = 8000 if chk.tier == "thorough" else 400
    for prog, sources, want in progs.gen_programs(chk.rng, n, unique=True):
        run_program(chk, da, prog, sources, want, rc)
    import random as _random
    api_rng = _random.Random(f"{chk.pid}-api-family-{chk.seed}")      # own stream: the families above keep theirs
    for prog, sources, want in progs.gen_api_programs(api_rng, 4000 if chk.tier == "thorough" else 700):
        chk.count("api-call:" + next(q[1] for q in progs.all_nodes(prog) if q[0] == "call"))
        run_program(chk, da, prog, sources, want, rc)
    # model correspondence: every captured instance of a modelled rule, plus a directed stream that invokes the
    # implementation's rule hooks on random operands, is reified and compared in Coq with the proven rule functions
    c02_rules.run_directed(chk, rc, da, progs, 16000 if chk.tier == "thorough" else 1000)
    rc.flush()
    chk.extra["rules_fired"] = {k[5:]: v for k, v in chk.hist.items() if k.startswith("rule:")}
