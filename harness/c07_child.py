"""Child process of the C07 check: rebuild the programs in the given files and
print their names / optimized keys / values as JSON (one line)."""
import hashlib
import json
import sys
import warnings

import numpy as np

sys.path.insert(0, __file__.rsplit("/", 1)[0])
import progs  # noqa: E402


def summary(arr):
    from c03 import flat_keys
    with warnings.catch_warnings():
        warnings.simplefilter("ignore")
        keys = [repr(k) for k in flat_keys(arr.__dask_keys__())]
        gkeys = sorted(repr(k) for k in arr.__dask_graph__())
        val = np.asarray(arr.compute(scheduler="sync"))
    return {"name": arr.name, "keys": hashlib.sha1("|".join(keys).encode()).hexdigest(),
            "graph_keys": hashlib.sha1("|".join(gkeys).encode()).hexdigest(), "n_graph_keys": len(gkeys),
            "_layers": sorted({str(k[0]) if isinstance(k, tuple) else str(k) for k in arr.__dask_graph__()}),
            "chunks": repr(arr.chunks), "dtype": str(arr.dtype),
            "value": hashlib.sha1(np.ascontiguousarray(val).tobytes()).hexdigest() + str(val.shape)}


def main():
    import dask_array as da
    out = {}
    for path in sys.argv[1:]:
        try:
            with warnings.catch_warnings():
                warnings.simplefilter("ignore")
                if path.endswith(".pkl"):       # a collection pickled by the parent process
                    import cloudpickle
                    with open(path, "rb") as f:
                        out[path] = summary(cloudpickle.load(f))
                    continue
                prog, sources = progs.load_case(path)
                out[path] = summary(progs.build(prog, da, sources, memo={}))
        except Exception as e:  # noqa: BLE001
            out[path] = {"error": type(e).__name__}
    print("C07CHILD " + json.dumps(out))


if __name__ == "__main__":
    main()
