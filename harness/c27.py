"""C27 — transfer estimates are well-formed.

(a) `_rechunk_stage_transfer` vs the Gallina model (coq/theories/Transfer.v) exactly, vs an
    interval brute-force oracle, and vs the property (0 <= min <= max, same layout -> (0, 0));
(b) `node.transfer_bytes` of every node of generated programs (raw / optimized / lowered /
    materialized expression) vs the property, and — per class — vs the closed-form Gallina
    models (Rechunk, P2PRechunk, SliceSlicesIntegers, PartialReduce, Blockwise, the ArrayExpr
    default, alias nodes; coq/theories/Transfer2.v: OverlapInternal, Stack, CumReduction,
    CumReductionBlelloch, Shuffle incl. _new_chunks, SlidingWindowReduction and
    MovingWindowReduction incl. _block_plan and the supports_native_* guards), on the generated
    programs and on a directed stream (`direct_nodes2`);
(c) `moved_fraction` vs the model `Unify.moved_fraction` (exact rational vs float) and vs the
    property (range, identical layouts, pure splits)."""
from __future__ import annotations

import itertools
import json
import math
import warnings
from fractions import Fraction
from numbers import Integral, Number

import numpy as np

from common import Check, cbool, clist, copt, coq_eval_cases, coq_eval_expr, cslice, ctuple, cz
from c13 import compositions, rand_chunks
from c17 import refines, related_layouts
import progs

HEADER = "From DA Require Import PyBase Slicing Unify Transfer Transfer2.\nOpen Scope Z_scope.\n"

TOL = 1 << 36          # relative tolerance 2^-36 for the two float quotients (see chk.assumptions)
EXACT = 1 << 53


def clayout(chunks):
    return clist(chunks, clist)


def cpair(p):
    return "None" if p is None else f"(Some ({cz(p[0])}, {cz(p[1])}))"


def isnan(x):
    return isinstance(x, float) and math.isnan(x)


def chunks_unknown(chunks):
    return any(isnan(c) or (isinstance(c, np.floating) and np.isnan(c)) for dim in chunks for c in dim)


def as_int(x):
    """an integer-valued number (int, float, numpy scalar) as int; None if it is not one"""
    if isinstance(x, (Integral, np.integer)):
        return int(x)
    if isinstance(x, (float, np.floating)):
        if math.isfinite(x) and float(x) == int(x) and abs(x) < EXACT:
            return int(x)
        return None
    return None


# --------------------------------------------------------------------------
# (a) _rechunk_stage_transfer
def brute_axis(old, new):
    """t, l, r, u, s from the docstring's meaning, by intervals"""
    ob = list(itertools.accumulate(old, initial=0))
    nb = list(itertools.accumulate(new, initial=0))
    t = sum(old)
    ov = [[min(ob[j + 1], nb[i + 1]) - max(ob[j], nb[i]) for j in range(len(old))] for i in range(len(new))]
    l_ax = sum(max([o for o in row if o > 0], default=0) for row in ov)
    r_ax = sum(old[j] * sum(1 for i in range(len(new)) if ov[i][j] > 0) for j in range(len(old)))
    u_ax = sum(old[j] for j in range(len(old)) for i in range(len(new)) if ov[i][j] > 0 and ov[i][j] == old[j])
    s_ax = sum(new[i] for i in range(len(new)) if sum(1 for o in ov[i] if o > 0) <= 1)
    return t, l_ax, r_ax, u_ax, s_ax


def brute_stage(olds, news, itemsize):
    T = L = R = U = S = 1
    for old, new in zip(olds, news):
        t, l_ax, r, u, s = brute_axis(old, new)
        T, L, R, U, S = T * t, L * l_ax, R * r, U * u, S * s
    return itemsize * (T - L), itemsize * (R - U + T - S)


def zero_variant(rng, cs):
    cs = list(cs)
    for _ in range(rng.choice([1, 1, 2, 3])):
        cs.insert(rng.randrange(len(cs) + 1), 0)
    return tuple(cs)


def fam_stage(chk, stage, tier):
    rng = chk.rng
    inputs = []
    # corpus first: hand-checked values from the docstring / tests, zero-size chunks, rank 0
    inputs += [(((4, 6),), ((5, 5),), 8), (((5, 5),), ((5, 5),), 8), (((10,),), ((5, 5),), 8),
               (((3, 0, 0, 2),), ((3, 0, 0, 2),), 8), (((0, 5),), ((5, 0),), 4), (((0,),), ((0,),), 8), ((), (), 8),
               (((3, 0, 0, 2), (2, 2)), ((1, 4), (4,)), 8)]
    top1 = 7 if tier == "thorough" else 6
    for n in range(1, top1 + 1):
        comps = list(compositions(n))
        for a in comps:
            for b in comps:
                inputs.append(((a,), (b,), rng.choice([1, 8])))
    pairs = {n: [(a, b) for a in compositions(n) for b in compositions(n)] for n in range(1, 5)}
    for n1 in range(1, 5):
        for n2 in range(1, 5):
            full = tier == "thorough" or max(n1, n2) <= 3
            for (a1, b1) in pairs[n1]:
                for (a2, b2) in pairs[n2]:
                    if full or rng.random() < 0.08:
                        inputs.append(((a1, a2), (b1, b2), 8))
    for _ in range(20000 if tier == "thorough" else 2500):
        rank = rng.choice([1, 1, 2, 2, 3, 4])
        olds, news = [], []
        for _ax in range(rank):
            n = rng.choice([0, 1, 2, 3, 5, 8, 12, 24, 60, 1440])
            ls = related_layouts(rng, n) if n else [(0,), (0,)]
            a, b = ls[0], rng.choice(ls)
            if rng.random() < 0.15:
                a = zero_variant(rng, a)
            if rng.random() < 0.15:
                b = zero_variant(rng, b)
            olds.append(a)
            news.append(b)
        inputs.append((tuple(olds), tuple(news), rng.choice([1, 2, 4, 8, 16])))
    # malformed: an axis with no block at all (never built by the callers) -> both sides fail
    inputs += [(((), ), ((1,),), 8), (((), (2,)), ((0,), (2,)), 8), (((),), ((),), 8)]
    cases, kept = [], []
    for olds, news, isz in inputs:
        try:
            out = stage(olds, news, isz)
        except IndexError:
            out = None
        same = olds == news
        zero = any(c == 0 for d in (*olds, *news) for c in d)
        chk.count(f"stage:rank{len(olds)}" + (":same" if same else "") + (":zero-chunks" if zero else "") + (":raises" if out is None else ""))
        chk.case(("stage", olds, news, isz), nontrivial=not same and out is not None,
                 sample={"fn": "_rechunk_stage_transfer", "old": olds, "new": news, "itemsize": isz, "impl": out})
        exp = None
        if out is not None:
            lo, hi = out
            ilo, ihi = as_int(lo), as_int(hi)
            data = {"fn": "_rechunk_stage_transfer", "old": olds, "new": news, "itemsize": isz, "impl": [lo, hi]}
            if ilo is None or ihi is None:
                chk.violation("stage transfer is not an integer number of bytes", data,
                              signature={"class": "_rechunk_stage_transfer", "problem": "not-integer"})
                continue
            problems = []
            if not (0 <= ilo <= ihi):
                problems.append("order")
            if same and (ilo, ihi) != (0, 0):
                problems.append("same-layout-moves")
            if all(len(o) > 0 for o in olds) and (ilo, ihi) != brute_stage(olds, news, isz):
                problems.append("differs-from-interval-oracle")
            for p in problems:
                chk.violation(f"_rechunk_stage_transfer: {p}", {**data, "oracle": brute_stage(olds, news, isz)},
                              signature={"class": "_rechunk_stage_transfer", "problem": p})
            exp = (ilo, ihi)
        cases.append(ctuple(clayout(olds), clayout(news), cz(isz), cpair(exp)))
        kept.append((olds, news, isz, out))
    mism, _ = coq_eval_cases(
        HEADER, "list (list Z) * list (list Z) * Z * option (Z * Z)",
        "Definition chk (c : list (list Z) * list (list Z) * Z * option (Z * Z)) : bool := let '(o, n, i, e) := c in\n"
        "  match rechunk_stage_transfer o n i, e with\n"
        "  | Some (a, b), Some (x, y) => (a =? x) && (b =? y) | None, None => true | _, _ => false end.",
        cases)
    for i in mism[:5]:
        olds, news, isz, out = kept[i]
        model = coq_eval_expr(HEADER, [f"rechunk_stage_transfer {clayout(olds)} {clayout(news)} {cz(isz)}"])[0]
        chk.tie_break("correspondence:_rechunk_stage_transfer", {"old": olds, "new": news, "itemsize": isz, "impl": out, "model": model})
    chk.traces_validated += len(cases) - len(mism)


# --------------------------------------------------------------------------
# (c) moved_fraction
def fam_moved_fraction(chk, moved_fraction, tier):
    rng = chk.rng
    inputs = []
    top = 6 if tier == "thorough" else 5
    for n in range(1, top + 1):
        comps = list(compositions(n))
        for a in comps:
            for b in comps:
                inputs.append((a, b))
    for _ in range(6000 if tier == "thorough" else 1200):
        n = rng.choice([1, 2, 3, 5, 8, 12, 24, 60, 1440])
        ls = related_layouts(rng, n)
        s, d = ls[0], ls[1]
        if rng.random() < 0.1:
            s = zero_variant(rng, s)
        if rng.random() < 0.1:
            d = zero_variant(rng, d)
        inputs.append((s, d))
    cases, kept = [], []
    for s, d in inputs:
        mf = moved_fraction(s, d)
        chk.count("moved_fraction" + (":same" if s == d else ":split" if refines(d, s) else ""))
        chk.case(("mf", s, d), nontrivial=(s != d), sample={"fn": "moved_fraction", "src": s, "dst": d, "impl": mf})
        problems = []
        if not (0.0 <= mf <= 1.0):
            problems.append("out-of-range")
        if s == d and mf != 0.0:
            problems.append("same-layout-moves")
        if refines(d, s) and mf != 0.0:
            problems.append("pure-split-moves")
        for p in problems:
            chk.violation(f"moved_fraction: {p}", {"fn": "moved_fraction", "src": s, "dst": d, "impl": mf},
                          signature={"class": "moved_fraction", "problem": p})
        fr = Fraction(mf)
        cases.append(ctuple(clist(s), clist(d), cz(fr.numerator), cz(fr.denominator)))
        kept.append((s, d, mf))
    # float(moved / total) is the correctly rounded quotient of two exactly represented integers
    mism, _ = coq_eval_cases(
        HEADER, "list Z * list Z * Z * Z",
        "Definition chk (c : list Z * list Z * Z * Z) : bool := let '(s, d, fn, fd) := c in\n"
        "  let '(n, m) := moved_fraction s d in\n"
        "  (0 <=? n) && (n <=? m) && (Z.abs (n * fd - fn * m) * 4503599627370496 <=? Z.abs (fn * m)).",
        cases)
    for i in mism[:5]:
        s, d, mf = kept[i]
        model = coq_eval_expr(HEADER, [f"moved_fraction {clist(s)} {clist(d)}"])[0]
        chk.tie_break("correspondence:moved_fraction", {"src": s, "dst": d, "impl": mf, "model": model})
    chk.traces_validated += len(cases) - len(mism)


# --------------------------------------------------------------------------
# (b) nodes of generated programs
def unknown_programs(rng, n):
    """programs over unknown chunk sizes (boolean-mask selections) — progs.py only reduces them"""
    for _ in range(n):
        g = progs.Gen(rng, max_dim=8, sources=[])
        p, v = g.leaf()
        for _ in range(rng.choice([0, 0, 1, 2])):
            p, v = g.step(p, v)
        if v.ndim == 0 or v.size == 0:
            continue
        if v.ndim > 1:
            p = ("reshape", p, (-1,))
        q = ("boolmask", p, rng.randint(-2, 3))
        r = rng.random()
        if r < 0.2:
            q = ("elem", rng.choice(progs.ELEM1), q)
        elif r < 0.4:
            q = ("elem", "add", q, ("const", rng.randint(-2, 2)))
        elif r < 0.55:
            q = ("reduce", rng.choice(["sum", "max", "mean"]), q, None, False, rng.choice([None, 2]))
        elif r < 0.65:
            q = ("astype", q, "float64")
        elif r < 0.75:
            q = ("concat", (q, ("boolmask", p, 0)), 0)
        elif r < 0.8:
            q = ("elem", "add", q, q)
        elif r < 0.85:
            q = ("cum", "cumsum", q, 0, rng.choice(["sequential", "blelloch"]))
        elif r < 0.9:
            q = ("rechunk", q, (-1,))
        elif r < 0.95:
            q = ("slice", q, (slice(None, None, rng.choice([None, 2])),))
        yield q, g.sources, None


def p2p_programs(rng, n):
    for _ in range(n):
        g = progs.Gen(rng, max_dim=8, sources=[])
        p, v = g.leaf()
        if v.ndim == 0:
            continue
        ch = tuple(progs.rand_chunks_for(rng, k) for k in v.shape)
        yield ("rechunk_p2p", p, ch), g.sources, None


def _noop(*blocks, **kw):        # never called: the direct streams only build expressions
    return blocks[0]


def direct_nodes(rng, n, da):
    """(description, [nodes]) for node shapes the program generator cannot reach:
    Blockwise with contraction / broadcast / duplicated operands, PartialReduce over unequal chunks,
    selections with unknown chunks along one axis of a 2-D/3-D array followed by one more operation"""
    from dask_array.reductions._reduction import PartialReduce
    for it in range(n):
        kind = ("blockwise", "partial_reduce", "rowmask")[it % 3]
        if kind == "blockwise":
            letters = "ijkl"[: rng.randint(1, 4)]
            size = {c: rng.choice([1, 2, 3, 4, 6]) for c in letters}
            layout = {c: progs.rand_chunks_for(rng, size[c]) for c in letters}
            args, desc, arrs = [], [], []
            for k in range(rng.randint(1, 3)):
                if arrs and rng.random() < 0.25:            # the same array again (same or permuted index)
                    a, ind = rng.choice(arrs)
                    ind2 = ind if rng.random() < 0.5 else "".join(rng.sample(ind, len(ind)))
                    if [size[c] for c in ind2] != [size[c] for c in ind] or [layout[c] for c in ind2] != [layout[c] for c in ind]:
                        ind2 = ind
                    args += [a, ind2]
                    desc.append(f"<same as {ind}>:{ind2}")
                    continue
                ind = "".join(rng.sample(letters, rng.randint(1, len(letters))))
                shape, chunks = [], []
                for c in ind:
                    if rng.random() < 0.15:
                        shape.append(1)
                        chunks.append((1,))
                    else:
                        shape.append(size[c])
                        chunks.append(layout[c])
                a = da.from_array(np.zeros(shape, dtype=rng.choice(["i1", "i4", "f8"])), chunks=tuple(chunks))
                arrs.append((a, ind))
                args += [a, ind]
                desc.append(f"{tuple(chunks)}:{ind}")
            used = sorted({c for _, ind in arrs for c in ind})
            out = "".join(rng.sample(used, rng.randint(0, len(used))))
            d = f"da.blockwise(f, {out!r}, {', '.join(desc)}, concatenate=True, align_arrays=False)"
            try:
                z = da.blockwise(_noop, out, *args, dtype="f8", concatenate=True, align_arrays=False,
                                 meta=np.empty((0,) * len(out), dtype="f8"))
                _ = z.chunks
                yield d, [z.expr]
            except Exception as e:  # noqa: BLE001
                yield d + " raised " + type(e).__name__, []
        elif kind == "partial_reduce":
            rank = rng.choice([1, 2, 2, 3])
            shape = [rng.choice([1, 2, 3, 5, 8, 12]) for _ in range(rank)]
            chunks = []
            for m in shape:
                c = rand_chunks(rng, m, allow_zero=True)
                chunks.append(c)
            axes = rng.sample(range(rank), rng.randint(1, rank))
            split = {a: rng.choice([1, 2, 2, 3, 4, 16]) for a in axes}
            keep = rng.random() < 0.5
            d = f"PartialReduce(da.from_array(np.zeros({shape}), chunks={tuple(chunks)}).expr, np.sum, {split}, {keep})"
            try:
                x = da.from_array(np.zeros(shape, dtype=rng.choice(["i2", "f8"])), chunks=tuple(chunks))
                node = PartialReduce(x.expr, np.sum, split, keep, dtype=x.dtype)
                _ = node.chunks
                yield d, [node]
            except Exception as e:  # noqa: BLE001
                yield d + " raised " + type(e).__name__, []
        else:
            rank = rng.choice([2, 2, 3])
            shape = [rng.choice([1, 2, 3, 5, 8]) for _ in range(rank)]
            chunks = tuple(progs.rand_chunks_for(rng, m) for m in shape)
            c = rng.randint(0, 6)
            ops = {
                "y[:, a:b:s]": lambda y: y[(slice(None), slice(rng.choice([None, 0, 1]), rng.choice([None, 2, 3, -1]), rng.choice([None, 1, 2])))],
                "y[:, 0]": lambda y: y[:, 0],
                "y + 1": lambda y: y + 1,
                "y * y": lambda y: y * y,
                "y.sum(axis=1)": lambda y: y.sum(axis=1),
                "y.sum(axis=0)": lambda y: y.sum(axis=0),
                "y.max()": lambda y: y.max(),
                "y.rechunk({1: 1})": lambda y: y.rechunk({1: 1}),
                "y.rechunk({1: -1})": lambda y: y.rechunk({1: -1}),
                "da.cumsum(y, axis=1)": lambda y: da.cumsum(y, axis=1),
                "da.cumsum(y, axis=0)": lambda y: da.cumsum(y, axis=0),
                "y.T": lambda y: y.T,
                "da.concatenate([y, y], axis=1)": lambda y: da.concatenate([y, y], axis=1),
                "da.concatenate([y, y], axis=0)": lambda y: da.concatenate([y, y], axis=0),
                "da.stack([y, y])": lambda y: da.stack([y, y]),
                "y.astype('f4')": lambda y: y.astype("f4"),
                "y.map_blocks(f)": lambda y: y.map_blocks(progs.mb_double, dtype=y.dtype),
                "da.flip(y, 1)": lambda y: da.flip(y, 1),
                "da.take(y, [0], axis=1)": lambda y: da.take(y, [0], axis=1),
                "da.roll(y, 1, 1)": lambda y: da.roll(y, 1, 1),
                "da.diff(y, axis=1)": lambda y: da.diff(y, axis=1),
                "da.where(y > 0, y, 0)": lambda y: da.where(y > 0, y, 0),
                "y.reshape(-1)": lambda y: y.reshape(-1),
                "da.expand_dims(y, 0)": lambda y: da.expand_dims(y, 0),
                "da.broadcast_to(y, (2,) + y.shape)": lambda y: da.broadcast_to(y, (2,) + y.shape),
            }
            opname = rng.choice(sorted(ops))
            d = f"x = da.from_array(np.arange({int(np.prod(shape))}).reshape({shape}) % 7, chunks={chunks}); y = x[x[{', '.join([':'] + ['0'] * (rank - 1))}] > {c}]; {opname}"
            try:
                x = da.from_array(np.arange(int(np.prod(shape))).reshape(shape) % 7, chunks=chunks)
                y = x[x[(slice(None),) + (0,) * (rank - 1)] > c]
                z = ops[opname](y)
                _ = z.chunks
            except Exception as e:  # noqa: BLE001
                yield d + " raised " + type(e).__name__, []
                continue
            nodes = list(z.expr.walk())
            for f in (lambda: z.expr.optimize(), lambda: z.expr.lower_completely()):
                try:
                    nodes += list(f().walk())
                except Exception:  # noqa: BLE001
                    pass
            yield d, nodes


def window_layouts(rng, tier):
    """(chunks along the sliding axis, window): every layout of n <= 6 (7 thorough) with every window 1..n+1, then irregular
    layouts, size-1 blocks, many blocks, windows next to the chunk sizes / the axis length"""
    top = 7 if tier == "thorough" else 6
    for n in range(1, top + 1):
        for ch in compositions(n):
            for w in range(1, n + 2):
                yield ch, w
    for _ in range(6000 if tier == "thorough" else 500):
        r = rng.random()
        if r < 0.25:
            ch = (1,) * rng.randint(2, 40)
        elif r < 0.5:
            ch = tuple(rng.choice([1, 1, 2, 3]) for _ in range(rng.randint(2, 60)))
        elif r < 0.75:
            ch = tuple(rng.randint(1, 9) for _ in range(rng.randint(1, 12)))
        else:
            c = rng.randint(2, 7)
            ch = (c,) * rng.randint(1, 10) + ((rng.randint(1, c),) if rng.random() < 0.6 else ())
        n = sum(ch)
        near = [1, 2, n - 1, n, n + 1, max(ch), max(ch) + 1, max(ch) - 1, min(ch), min(ch) + 1, 2 * max(ch), ch[0], ch[0] + 1, ch[-1], ch[-1] + 1]
        w = rng.choice(near) if rng.random() < 0.6 else rng.randint(1, n + 1)
        yield ch, max(1, w)


def _move_sum(a, window, min_count=None, axis=-1):     # stand-in for bottleneck.move_sum: only its name / module are inspected
    return np.asarray(a, dtype="f8")


_move_sum.__name__ = "move_sum"
_move_sum.__module__ = "bottleneck"


def direct_nodes2(rng, tier, da):
    """directed nodes of the classes modelled in Transfer2.v: (description, [nodes])"""
    from dask_array._overlap import OverlapInternal
    from dask_array._shuffle import Shuffle
    from dask_array.reductions._sliding_window import MovingWindowReduction, SlidingWindowReduction

    def other_axes():
        k = rng.choice([0, 0, 1, 1, 2])
        return [tuple(progs.rand_chunks_for(rng, rng.choice([1, 2, 3, 5]))) for _ in range(k)]

    def array_with(axis_chunks):
        """an array whose axis `ax` has the given chunks, with 0-2 other axes"""
        others = other_axes()
        ax = rng.randint(0, len(others))
        chunks = tuple(others[:ax] + [tuple(axis_chunks)] + others[ax:])
        dt = rng.choice(["f8", "f4", "i8", "i2", "u1"])
        x = da.zeros(tuple(sum(c) for c in chunks), chunks=chunks, dtype=dt)
        return x, ax, chunks, dt

    # sliding / moving windows, built directly (every window 1..n+1) — the constructors' guards
    # supports_native_* are compared with the model as part of the case
    for ch, w in window_layouts(rng, tier):
        x, ax, chunks, dt = array_with(ch)
        d = f"x = da.zeros({x.shape}, chunks={chunks}, dtype='{dt}'); "
        yield (d + f"SlidingWindowReduction(x.expr, {w}, {ax}, {x.ndim}, False, 'sum', x.dtype)",
               [SlidingWindowReduction(x.expr, w, ax, x.ndim, rng.random() < 0.3, "sum", x.dtype)])
        yield (d + f"MovingWindowReduction(x.expr, {w}, None, {ax}, 'nansum', np.dtype('f8'))",
               [MovingWindowReduction(x.expr, w, None, ax, "nansum", np.dtype("f8"))])
    # the public path: sliding_window_view(...).sum(-1), optimized (SlidingWindowReduction when supports_native_sliding_window)
    for _ in range(1500 if tier == "thorough" else 120):
        ch = tuple(rng.choice([1, 1, 2, 3, 4]) for _ in range(rng.randint(2, 12)))
        w = rng.randint(2, max(2, min(sum(ch), max(ch) + 3)))
        x, ax, chunks, dt = array_with(ch)
        if w > sum(ch):
            continue
        d = f"x = da.zeros({x.shape}, chunks={chunks}, dtype='{dt}'); da.sliding_window_view(x, {w}, axis={ax}).sum(axis=-1)"
        try:
            z = da.sliding_window_view(x, w, axis=ax).sum(axis=-1)
            yield d, list(z.expr.optimize().walk())
        except Exception as e:  # noqa: BLE001
            yield d + " raised " + type(e).__name__, []
    # the public path of the trailing window (xarray's rolling): map_overlap(bottleneck.move_sum, depth=(window-1, 0), boundary='none'),
    # optimized (MovingWindowReduction when supports_native_moving_window; `bottleneck` is not installed: a stand-in with its name)
    for _ in range(1500 if tier == "thorough" else 120):
        ch = tuple(rng.choice([1, 1, 2, 3, 4]) for _ in range(rng.randint(2, 12)))
        w = rng.randint(max(ch) + 1, max(ch) + 4)
        x, ax, chunks, _dt = array_with(ch)
        if w > sum(ch):
            continue
        x = x.astype("f8")
        d = (f"x = da.zeros({x.shape}, chunks={chunks}, dtype='f8'); da.map_overlap(bottleneck.move_sum, x, depth={{{ax}: ({w - 1}, 0)}}, "
             f"boundary='none', window={w}, axis={ax}, dtype='f8')")
        try:
            z = da.map_overlap(_move_sum, x, depth={ax: (w - 1, 0)}, boundary="none", window=w, axis=ax, dtype="f8")
            yield d, list(z.expr.optimize().walk())
        except Exception as e:  # noqa: BLE001
            yield d + " raised " + type(e).__name__, []
    # cumulative scans: both methods, irregular chunks, size-1 blocks, many blocks, empty axes
    for _ in range(4000 if tier == "thorough" else 300):
        r = rng.random()
        if r < 0.1:
            ch = (0,)
        elif r < 0.3:
            ch = (1,) * rng.randint(1, 50)
        elif r < 0.4:
            ch = (rng.randint(1, 9),)
        else:
            ch = tuple(rng.randint(1, 7) for _ in range(rng.randint(1, 14)))
        x, ax, chunks, dt = array_with(ch)
        method = rng.choice(["sequential", "blelloch"])
        f = rng.choice(["cumsum", "cumprod"])
        d = f"x = da.zeros({x.shape}, chunks={chunks}, dtype='{dt}'); da.{f}(x, axis={ax}, method='{method}')"
        try:
            z = getattr(da, f)(x, axis=ax, method=method)
            yield d, [n for n in z.expr.walk() if type(n).__name__.startswith("CumReduction")]
        except Exception as e:  # noqa: BLE001
            yield d + " raised " + type(e).__name__, []
    # halo exchange: integer / (before, after) depths, zero depths, single-block axes (depth need not fit the chunks for the estimate)
    for _ in range(4000 if tier == "thorough" else 300):
        rank = rng.choice([1, 2, 2, 3])
        chunks = tuple(tuple(rng.randint(1, 6) for _ in range(rng.choice([1, 1, 2, 3, 5, 9]))) for _ in range(rank))
        axes = {}
        for ax in range(rank):
            r = rng.random()
            if r < 0.25:
                continue
            if r < 0.6:
                axes[ax] = rng.choice([0, 1, 1, 2, 3])
            else:
                axes[ax] = (rng.choice([0, 1, 2]), rng.choice([0, 1, 2]))
        dt = rng.choice(["f8", "i4", "u1"])
        d = f"OverlapInternal(da.zeros({tuple(sum(c) for c in chunks)}, chunks={chunks}, dtype='{dt}').expr, {axes})"
        x = da.zeros(tuple(sum(c) for c in chunks), chunks=chunks, dtype=dt)
        yield d, [OverlapInternal(x.expr, axes)]
    # shuffles: permutations, repeated indices, groups above / at / below the chunk-size limit, groups inside one block
    for _ in range(4000 if tier == "thorough" else 300):
        ch = tuple(rng.randint(1, 6) for _ in range(rng.randint(1, 8)))
        n = sum(ch)
        x, ax, chunks, dt = array_with(ch)
        r = rng.random()
        if r < 0.3:
            flat = rng.sample(range(n), n)
        elif r < 0.6:
            flat = [rng.randrange(n) for _ in range(rng.randint(1, 2 * n))]
        elif r < 0.8:
            flat = sorted(rng.randrange(n) for _ in range(rng.randint(1, n + 2)))
        else:
            flat = list(range(n))
        indexer, k = [], 0
        while k < len(flat):
            m = rng.choice([1, 1, 2, 3, max(ch), max(ch) + 1, 2 * max(ch) + 1])
            indexer.append(flat[k:k + m])
            k += m
        d = f"Shuffle(da.zeros({x.shape}, chunks={chunks}, dtype='{dt}').expr, {indexer}, {ax}, 'shuffle')"
        yield d, [Shuffle(x.expr, indexer, ax, "shuffle")]
    # stacks of several arrays (the same chunks, possibly the same array twice)
    for _ in range(1000 if tier == "thorough" else 100):
        x, ax, chunks, dt = array_with(tuple(rng.randint(1, 4) for _ in range(rng.randint(1, 4))))
        k = rng.randint(1, 5)
        arrs = [x if rng.random() < 0.3 else x + j for j in range(k)]
        axis = rng.randint(0, x.ndim)
        d = f"x = da.zeros({x.shape}, chunks={chunks}, dtype='{dt}'); da.stack([...{k} arrays...], axis={axis})"
        try:
            yield d, [da.stack(arrs, axis=axis).expr]
        except Exception as e:  # noqa: BLE001
            yield d + " raised " + type(e).__name__, []


class _Holder:
    def __init__(self, expr):
        self.expr = expr
        self.chunks = expr.chunks


def build_any(prog, da, sources):
    if prog[0] == "rechunk_p2p":
        # `distributed` is not installed, so lowering can never produce a P2PRechunk here: build the node directly
        from dask_array._rechunk import P2PRechunk
        return _Holder(P2PRechunk(progs.build(prog[1], da, sources).expr, prog[2]))
    return progs.build(prog, da, sources)


def symbol_ids():
    table = {}

    def sid(x):
        return table.setdefault(x, len(table))
    return sid


def cidx(i):
    if isinstance(i, slice):
        return f"(ISlice {cslice(i)})"
    if i is None:
        return "INone"
    return f"(IInt {cz(i)})"


def cfrac(x):
    fr = Fraction(x)
    return cz(fr.numerator), cz(fr.denominator)


class NodeCases:
    """collects per-class correspondence cases for coq_eval_cases"""

    def __init__(self):
        self.fam = {}
        self.seen = set()
        self.dups = 0

    def add(self, fam, lit, desc):
        if (fam, lit) in self.seen:      # the same model inputs and the same implementation output: already validated
            self.dups += 1
            return
        self.seen.add((fam, lit))
        self.fam.setdefault(fam, []).append((lit, desc))


FAMS = {
    "rechunk": ("list (list Z) * list (list (list Z)) * Z * (Z * Z)",
                "Definition chk (c : list (list Z) * list (list (list Z)) * Z * (Z * Z)) : bool := let '(o, st, i, e) := c in\n"
                "  match rechunk_transfer o st i 0 0 with Some (a, b) => (a =? fst e) && (b =? snd e) | None => false end."),
    "p2p": ("list (list Z) * list (list Z) * Z * (Z * Z)",
            "Definition chk (c : list (list Z) * list (list Z) * Z * (Z * Z)) : bool := let '(o, n, i, e) := c in\n"
            "  match p2p_transfer o n i with Some (a, b) => (a =? fst e) && (b =? snd e) | None => false end."),
    "slice": ("list Z * list (list Z) * list pidx * bool * Z * (Z * Z)",
              "Definition chk (c : list Z * list (list Z) * list pidx * bool * Z * (Z * Z)) : bool := let '(sh, ch, ix, al, i, e) := c in\n"
              "  let '(a, b) := slice_transfer sh ch ix al i in (a =? fst e) && (b =? snd e)."),
    "partial_reduce": ("list (option Z) * list (list Z) * Z * (Z * Z)",
                       "Definition chk (c : list (option Z) * list (list Z) * Z * (Z * Z)) : bool := let '(sp, ch, i, e) := c in\n"
                       "  match partial_reduce_transfer sp ch i with Some (a, b) => (a =? fst e) && (b =? snd e) | None => false end."),
    "blockwise": ("list Z * list Z * list (Z * list Z * list Z * Z) * (Z * Z) * Z",
                  "Definition close (n d fn fd : Z) : bool := Z.abs (n * fd - fn * d) * %d <=? Z.abs (n * fd).\n"
                  "Definition chk (c : list Z * list Z * list (Z * list Z * list Z * Z) * (Z * Z) * Z) : bool := let '(oi, onb, args, lo, hi) := c in\n"
                  "  let '((n, d), h) := blockwise_transfer oi onb args in (0 <? d) && close n d (fst lo) (snd lo) && (h =? hi)." % TOL),
    "default": ("Z * list (Z * Z * Z) * (Z * Z) * (Z * Z)",
                "Definition close (n d fn fd : Z) : bool := Z.abs (n * fd - fn * d) * %d <=? Z.abs (n * fd).\n"
                "Definition chk (c : Z * list (Z * Z * Z) * (Z * Z) * (Z * Z)) : bool := let '(ob, deps, lo, hi) := c in\n"
                "  let '((n, d), (hn, hd)) := default_transfer ob deps in\n"
                "  (0 <? d) && (0 <? hd) && close n d (fst lo) (snd lo) && close hn hd (fst hi) (snd hi)." % TOL),
}

PAIR = "Definition eqp (p e : Z * Z) : bool := (fst p =? fst e) && (snd p =? snd e).\n"
CLOSE = "Definition close (n d fn fd : Z) : bool := Z.abs (n * fd - fn * d) * %d <=? Z.abs (n * fd).\n" % TOL
PLAN4_EQB = ("Definition row4_eqb (a b : Z * Z * Z * Z) : bool := let '(a1, a2, a3, a4) := a in let '(b1, b2, b3, b4) := b in\n"
             "  (a1 =? b1) && (a2 =? b2) && (a3 =? b3) && (a4 =? b4).\n")
PLAN5_EQB = ("Definition oband_eqb (a b : option (Z * Z)) : bool := match a, b with\n"
             "  | Some (g, h), Some (g', h') => (g =? g') && (h =? h') | None, None => true | _, _ => false end.\n"
             "Definition row5_eqb (a b : Z * Z * Z * option (Z * Z) * Z) : bool := let '(a1, a2, a3, a4, a5) := a in let '(b1, b2, b3, b4, b5) := b in\n"
             "  (a1 =? b1) && (a2 =? b2) && (a3 =? b3) && oband_eqb a4 b4 && (a5 =? b5).\n")
FAMS.update({
    # OverlapInternal: chunks, per-axis (before, after), itemsize, impl (lo, hi)
    "overlap": ("list (list Z) * list (Z * Z) * Z * (Z * Z)",
                PAIR + "Definition chk (c : list (list Z) * list (Z * Z) * Z * (Z * Z)) : bool := let '(ch, dp, i, e) := c in\n"
                "  eqp (overlap_transfer ch dp i) e."),
    "stack": ("list Z * (Z * Z)",
              PAIR + "Definition chk (c : list Z * (Z * Z)) : bool := let '(nb, e) := c in eqp (stack_transfer nb) e."),
    # CumReduction: chunks, axis, itemsize, impl lo, impl hi as a fraction
    "cum": ("list (list Z) * nat * Z * Z * (Z * Z)",
            CLOSE + "Definition chk (c : list (list Z) * nat * Z * Z * (Z * Z)) : bool := let '(ch, ax, i, lo, hi) := c in\n"
            "  match cum_transfer ch ax i with Some (l, (n, d)) => (l =? lo) && (0 <? d) && close n d (fst hi) (snd hi) | None => false end."),
    "blelloch": ("list (list Z) * nat * Z * (Z * Z)",
                 PAIR + "Definition chk (c : list (list Z) * nat * Z * (Z * Z)) : bool := let '(ch, ax, i, e) := c in\n"
                 "  eqp (blelloch_transfer ch ax i) e."),
    # Shuffle._new_chunks: limit, indexer, impl
    "shuffle_chunks": ("Z * list (list Z) * list (list Z)",
                       "Definition chk (c : Z * list (list Z) * list (list Z)) : bool := let '(lim, ix, e) := c in\n"
                       "  match shuffle_new_chunks lim ix with Some r => zlist2_eqb r e | None => false end."),
    # Shuffle.transfer_bytes: chunks, axis, itemsize, _new_chunks, impl
    "shuffle": ("list (list Z) * nat * Z * list (list Z) * (Z * Z)",
                PAIR + "Definition chk (c : list (list Z) * nat * Z * list (list Z) * (Z * Z)) : bool := let '(ch, ax, i, nc, e) := c in\n"
                "  eqp (shuffle_transfer ch ax i nc) e."),
    # SlidingWindowReduction: chunks, axis, itemsize, window, impl _block_plan, impl supports_native_sliding_window, impl (lo, hi)
    "sliding": ("list (list Z) * nat * Z * Z * list (Z * Z * Z * Z) * bool * (Z * Z)",
                PAIR + PLAN4_EQB +
                "Definition chk (c : list (list Z) * nat * Z * Z * list (Z * Z * Z * Z) * bool * (Z * Z)) : bool := let '(ch, ax, i, w, pl, sup, e) := c in\n"
                "  list_eqb row4_eqb (sliding_plan (nth ax ch []) w) pl && Bool.eqb (supports_sliding (nth ax ch []) w) sup && eqp (sliding_transfer ch ax i w) e."),
    "moving": ("list (list Z) * nat * Z * Z * list (Z * Z * Z * option (Z * Z) * Z) * bool * (Z * Z)",
               PAIR + PLAN5_EQB +
               "Definition chk (c : list (list Z) * nat * Z * Z * list (Z * Z * Z * option (Z * Z) * Z) * bool * (Z * Z)) : bool := let '(ch, ax, i, w, pl, sup, e) := c in\n"
               "  list_eqb row5_eqb (moving_plan (nth ax ch []) w) pl && Bool.eqb (supports_moving (nth ax ch []) w) sup && eqp (moving_transfer ch ax i w) e."),
})

ALIAS_CLASSES = ("RootAlias", "ChunksFreeze", "ChunksOverride", "Concatenate")


def node_model_case(node, tb, nc, sid):
    """the Coq case literal for a node whose class has a closed-form model (known chunks only)"""
    from dask_array._blockwise import Blockwise
    from dask_array._expr import ArrayExpr
    from dask_array._rechunk import P2PRechunk, Rechunk, plan_rechunk
    from dask_array.reductions._reduction import PartialReduce
    from dask_array.slicing._basic import SliceSlicesIntegers

    cls = type(node)
    sid = symbol_ids()          # names / index symbols are numbered per case, so equal cases print equal literals
    owner = next(k for k in cls.__mro__ if "transfer_bytes" in k.__dict__)
    lo, hi = tb
    desc = {"class": cls.__name__, "name": node._name, "chunks": node.chunks, "impl": [lo, hi]}
    if owner is Rechunk:
        old, new, isz = node.array.chunks, node.chunks, node.dtype.itemsize
        steps = plan_rechunk(old, new, isz, node.threshold, node.block_size_limit)
        ilo, ihi = as_int(lo), as_int(hi)
        if ilo is None or ihi is None:
            return "not-integer"
        nc.add("rechunk", ctuple(clayout(old), clist(steps, clayout), cz(isz), f"({cz(ilo)}, {cz(ihi)})"),
               {**desc, "old": old, "steps": steps})
        return "rechunk"
    if owner is P2PRechunk:
        old, new, isz = node.array.chunks, node.chunks, node.dtype.itemsize
        ilo, ihi = as_int(lo), as_int(hi)
        if ilo is None or ihi is None:
            return "not-integer"
        nc.add("p2p", ctuple(clayout(old), clayout(new), cz(isz), f"({cz(ilo)}, {cz(ihi)})"), {**desc, "old": old})
        return "p2p"
    if owner is SliceSlicesIntegers:
        x = node.array
        ilo, ihi = as_int(lo), as_int(hi)
        if ilo is None or ihi is None:
            return "not-integer"
        if not all(isinstance(i, (slice, Integral)) for i in node.index):
            return None
        nc.add("slice", ctuple(clist(x.shape), clayout(x.chunks), clist(node.index, cidx),
                               cbool(node.allow_getitem_optimization), cz(x.dtype.itemsize), f"({cz(ilo)}, {cz(ihi)})"),
               {**desc, "in_chunks": x.chunks, "index": repr(node.index)})
        return "slice"
    if owner is PartialReduce:
        x = node.array
        ilo, ihi = as_int(lo), as_int(hi)
        if ilo is None or ihi is None:
            return "not-integer"
        splits = [node.split_every.get(i) for i in range(x.ndim)]
        nc.add("partial_reduce", ctuple(clist(splits, copt), clayout(x.chunks), cz(x.dtype.itemsize), f"({cz(ilo)}, {cz(ihi)})"),
               {**desc, "in_chunks": x.chunks, "split_every": dict(node.split_every)})
        return "partial_reduce"
    if owner is Blockwise:
        import toolz
        args = []
        for arg, ind in toolz.partition(2, node.args):
            if ind is None or not isinstance(arg, ArrayExpr):
                continue
            nb = as_int(arg.nbytes)
            if nb is None:
                return None
            args.append(ctuple(cz(sid(("name", arg._name))), clist([sid(i) for i in ind]), clist(arg.numblocks), cz(nb)))
        ihi = as_int(hi)
        if ihi is None or not math.isfinite(lo):
            return "not-integer"
        n, d = cfrac(lo)
        nc.add("blockwise", ctuple(clist([sid(i) for i in node.out_ind]), clist(node.numblocks), "[" + "; ".join(args) + "]",
                                   f"({n}, {d})", cz(ihi)), desc)
        return "blockwise"

    from dask_array._overlap import OverlapInternal
    from dask_array._shuffle import Shuffle
    from dask_array.reductions._cumulative import CumReduction, CumReductionBlelloch
    from dask_array.reductions._sliding_window import (MovingWindowReduction, SlidingWindowReduction,
                                                       supports_native_moving_window, supports_native_sliding_window)
    from dask_array.stacking._stack import Stack

    def ipair():
        ilo, ihi = as_int(lo), as_int(hi)
        return None if ilo is None or ihi is None else f"({cz(ilo)}, {cz(ihi)})"

    if owner is OverlapInternal:
        x = node.array
        depths = []
        for ax in range(x.ndim):
            dpt = node.axes.get(ax, 0)
            before, after = dpt if isinstance(dpt, tuple) else (dpt, dpt)
            if not (isinstance(before, (Integral, np.integer)) and isinstance(after, (Integral, np.integer))):
                return None
            depths.append(f"({cz(int(before))}, {cz(int(after))})")
        e = ipair()
        if e is None:
            return "not-integer"
        nc.add("overlap", ctuple(clayout(x.chunks), "[" + "; ".join(depths) + "]", cz(x.dtype.itemsize), e),
               {**desc, "in_chunks": x.chunks, "axes": repr(node.axes)})
        return "overlap"
    if owner is Stack:
        nbs = [as_int(a.nbytes) for a in node.args if isinstance(a, ArrayExpr)]
        e = ipair()
        if e is None or any(v is None for v in nbs):
            return "not-integer"
        nc.add("stack", ctuple(clist(nbs), e), {**desc, "arg_nbytes": nbs})
        return "stack"
    if owner is CumReduction:
        x = node.array
        ilo = as_int(lo)
        if ilo is None or not math.isfinite(hi):
            return "not-integer"
        hn, hd = cfrac(hi)
        nc.add("cum", ctuple(clayout(x.chunks), f"{int(node.axis)}%nat", cz(x.dtype.itemsize), cz(ilo), f"({hn}, {hd})"),
               {**desc, "in_chunks": x.chunks, "axis": node.axis})
        return "cum"
    if owner is CumReductionBlelloch:
        x = node.array
        e = ipair()
        if e is None:
            return "not-integer"
        nc.add("blelloch", ctuple(clayout(x.chunks), f"{int(node.axis)}%nat", cz(x.dtype.itemsize), e),
               {**desc, "in_chunks": x.chunks, "axis": node.axis})
        return "blelloch"
    if owner is Shuffle:
        x = node.array
        e = ipair()
        if e is None:
            return "not-integer"
        new_chunks = [[int(i) for i in idx] for idx in node._new_chunks]
        indexer = [[int(i) for i in idx] for idx in node.indexer]
        nc.add("shuffle_chunks", ctuple(cz(int(node._chunk_size_limit)), clayout(indexer), clayout(new_chunks)),
               {**desc, "in_chunks": x.chunks, "indexer": indexer})
        nc.add("shuffle", ctuple(clayout(x.chunks), f"{int(node.axis)}%nat", cz(x.dtype.itemsize), clayout(new_chunks), e),
               {**desc, "in_chunks": x.chunks, "axis": node.axis, "new_chunks": new_chunks})
        return "shuffle"
    if owner is SlidingWindowReduction:
        x = node.array
        e = ipair()
        if e is None:
            return "not-integer"
        ax, w = int(node.sliding_axis), int(node.window)
        plan = [ctuple(*(cz(int(v)) for v in row)) for row in node._block_plan]
        sup = bool(supports_native_sliding_window(x.chunks[ax], w))
        nc.add("sliding", ctuple(clayout(x.chunks), f"{ax}%nat", cz(x.dtype.itemsize), cz(w), "[" + "; ".join(plan) + "]", cbool(sup), e),
               {**desc, "in_chunks": x.chunks, "axis": ax, "window": w, "supports_native": sup})
        return "sliding"
    if owner is MovingWindowReduction:
        x = node.array
        e = ipair()
        if e is None:
            return "not-integer"
        ax, w = int(node.sliding_axis), int(node.window)
        plan = []
        for start, c, band_start, g, h, middle in node._block_plan:
            band = "None" if g is None else f"(Some ({cz(int(g))}, {cz(int(h))}))"
            plan.append(ctuple(cz(int(start)), cz(int(c)), cz(int(band_start)), band, cz(len(middle))))
        sup = bool(supports_native_moving_window(x.chunks[ax], w))
        nc.add("moving", ctuple(clayout(x.chunks), f"{ax}%nat", cz(x.dtype.itemsize), cz(w), "[" + "; ".join(plan) + "]", cbool(sup), e),
               {**desc, "in_chunks": x.chunks, "axis": ax, "window": w, "supports_native": sup})
        return "moving"
    if owner is ArrayExpr:
        deps = []
        for dep in node.dependencies():
            if not isinstance(dep, ArrayExpr):
                continue
            nb = as_int(dep.nbytes)
            if nb is None:
                return None
            deps.append(ctuple(cz(sid(("name", dep._name))), cz(math.prod(dep.numblocks)), cz(nb)))
        if not (math.isfinite(lo) and math.isfinite(hi)):
            return "not-integer"
        (ln, ld), (hn, hd) = cfrac(lo), cfrac(hi)
        nc.add("default", ctuple(cz(math.prod(node.numblocks)), "[" + "; ".join(deps) + "]", f"({ln}, {ld})", f"({hn}, {hd})"), desc)
        return "default"
    return None


def check_node(chk, node, variant, describe, nc, sid, seen_names):
    from dask_array._expr import ArrayExpr
    from dask_array._rechunk import P2PRechunk, Rechunk

    cls = type(node).__name__
    chk.count("class:" + cls)
    sig = lambda problem: {"class": cls, "problem": problem}  # noqa: E731

    def data(**kw):
        return {**describe(), "variant": variant, "node": cls, "node_name": node._name, **kw}
    try:
        node_chunks = node.chunks
    except Exception as e:  # noqa: BLE001
        # the optimizer built a node whose own `chunks` raises: known finding F11 (property C01), not a transfer estimate
        chk.count(f"skipped:node-chunks-raise:{cls}:{type(e).__name__}")
        return
    try:
        tb = node.transfer_bytes
    except Exception as e:  # noqa: BLE001
        try:
            _ = node.dtype, [d.dtype for d in node.dependencies() if isinstance(d, ArrayExpr)]
        except Exception as e2:  # noqa: BLE001
            # the node itself is broken (its dtype cannot be inferred, e.g. diff of a boolean array): not an estimate problem
            chk.count(f"skipped:node-dtype-raise:{cls}:{type(e2).__name__}")
            return
        chk.violation(f"{cls}.transfer_bytes raised {type(e).__name__}: {str(e)[:120]}", data(), signature=sig("raises:" + type(e).__name__))
        return
    if not (isinstance(tb, tuple) and len(tb) == 2 and all(isinstance(v, Number) and not isinstance(v, bool) for v in tb)):
        chk.violation(f"{cls}.transfer_bytes is not a (min, max) pair of numbers: {tb!r}", data(), signature=sig("not-a-pair"))
        return
    lo, hi = (float(v) if isinstance(v, np.floating) else v for v in tb)
    try:
        deps = [d for d in node.dependencies() if isinstance(d, ArrayExpr)]
    except ModuleNotFoundError:      # P2PRechunk.dependencies() needs `distributed`
        deps = [node.array]
    unknown = chunks_unknown(node_chunks) or any(chunks_unknown(d.chunks) for d in deps)
    d = dict(chunks=node_chunks, dep_chunks=[x.chunks for x in deps], impl=[lo, hi])
    if math.isnan(lo) or math.isnan(hi):
        chk.count("nan-estimate")
        if not unknown:
            chk.violation(f"{cls}.transfer_bytes is NaN although every chunk size of the node and its inputs is known", data(**d), signature=sig("nan-with-known-chunks"))
        elif not (math.isnan(lo) and math.isnan(hi)):
            chk.violation(f"{cls}.transfer_bytes is half NaN: {tb!r}", data(**d), signature=sig("half-nan"))
        return
    if unknown:
        chk.count("finite-estimate-with-unknown-chunks")
    if not (math.isfinite(lo) and math.isfinite(hi)):
        chk.violation(f"{cls}.transfer_bytes is infinite: {tb!r}", data(**d), signature=sig("infinite"))
        return
    if not (0 <= lo <= hi):
        chk.violation(f"{cls}.transfer_bytes = ({lo}, {hi}) violates 0 <= min <= max", data(**d), signature=sig("order"))
    if isinstance(node, (Rechunk, P2PRechunk)) and not unknown and node.chunks == node.array.chunks:
        chk.count("rechunk-to-same-chunks")
        if (lo, hi) != (0, 0):
            chk.violation(f"a rechunk to the same chunks moves ({lo}, {hi}) bytes", data(**d), signature=sig("same-layout-moves"))
    if cls in ALIAS_CLASSES:
        chk.count("alias-node")
        if (lo, hi) != (0, 0):
            chk.violation(f"alias node {cls} moves ({lo}, {hi}) bytes", data(**d), signature=sig("alias-moves"))
    if not deps and (lo, hi) != (0, 0):
        chk.violation(f"leaf node {cls} (no array input) moves ({lo}, {hi}) bytes", data(**d), signature=sig("leaf-moves"))
    # correspondence with the closed-form models (once per distinct node)
    if unknown or node._name in seen_names:
        return
    seen_names.add(node._name)
    if cls in ALIAS_CLASSES:
        chk.traces_validated += (lo, hi) == (0, 0)      # alias_transfer = (0, 0)
        return
    try:
        fam = node_model_case(node, (lo, hi), nc, sid)
    except Exception as e:  # noqa: BLE001  (harness could not extract the model inputs)
        chk.count("model-extract-failed:" + cls + ":" + type(e).__name__)
        return
    if fam == "not-integer":
        chk.violation(f"{cls}.transfer_bytes = ({lo}, {hi}) is not an exactly representable byte count", data(**d), signature=sig("not-integer"))
    elif fam:
        chk.count("model:" + fam)


def fam_nodes(chk, tier):
    import dask_array as da
    from dask_array import _materialize
    rng = chk.rng
    N = 12000 if tier == "thorough" else 900
    streams = itertools.chain(
        progs.gen_programs(rng, N),
        # the overrides without a closed-form model (OverlapInternal, sliding windows, cumulative scans, Shuffle, Stack)
        progs.gen_programs(rng, N // 3, depth_choices=(1, 2, 3), ops=["swv", "map_overlap", "cum", "take", "roll", "stack", "slice", "rechunk", "T"]),
        unknown_programs(rng, N // 5),
        p2p_programs(rng, N // 15),
    )
    nc = NodeCases()
    sid = symbol_ids()
    seen_names = set()
    warnings.simplefilter("ignore")
    # corpus: F24 — a balance=True no-op rechunk lowered with method='p2p' keeps max = nbytes
    x0 = da.from_array(np.arange(10), chunks=5)
    n0 = x0.rechunk((5, 5), balance=True, method="p2p").expr.lower_once({})
    # corpus: F25 — Stack over unknown chunk sizes reports (0.0, nan)
    y0 = x0[x0 > 2]
    chk.case(("corpus", "F25"), nontrivial=True)
    check_node(chk, da.stack([y0, y0]).expr, "raw", lambda: {"program": "x=da.from_array(np.arange(10),chunks=5); y=x[x>2]; da.stack([y,y]).expr"},
               nc, sid, seen_names)
    chk.case(("corpus", "F24"), nontrivial=True)
    check_node(chk, n0, "lowered-once", lambda: {"program": "da.from_array(np.arange(10), chunks=5).rechunk((5, 5), balance=True, method='p2p').expr.lower_once({})"},
               nc, sid, seen_names)
    # directed: rechunks whose plan has SEVERAL stages (fan-in above the degree limit / the graph-size threshold, small block-size
    # limits): the estimate sums every stage
    from dask_array._rechunk import plan_rechunk as _plan
    multi = [("ones(1000, chunks=1).rechunk(1000)", lambda: da.ones(1000, chunks=1).rechunk(1000)),
             ("ones((100,100), chunks=(1,100)).rechunk((100,1))", lambda: da.ones((100, 100), chunks=(1, 100)).rechunk((100, 1))),
             ("ones((60,60), chunks=(2,60)).rechunk((60,3))", lambda: da.ones((60, 60), chunks=(2, 60)).rechunk((60, 3)))]
    for k in range(400 if tier == "thorough" else 60):
        shape = tuple(rng.choice([6, 8, 12, 16]) for _ in range(rng.choice([1, 2, 2, 3])))
        old = tuple(progs.rand_chunks_for(rng, n) if rng.random() < 0.5 else (1,) * n for n in shape)
        new = tuple(progs.rand_chunks_for(rng, n) if rng.random() < 0.7 else (n,) for n in shape)
        thr, lim = rng.choice([1, 2, 3, 4, 8]), rng.choice([8, 32, 64, 256, 10 ** 6])
        multi.append((f"ones({shape}, chunks={old}).rechunk({new}, threshold={thr}, block_size_limit={lim})",
                      lambda shape=shape, old=old, new=new, thr=thr, lim=lim: da.ones(shape, chunks=old, dtype="int64").rechunk(new, threshold=thr, block_size_limit=lim)))
    for label, mk in multi:
        try:
            node = mk().expr
            steps = _plan(node.array.chunks, node.chunks, node.dtype.itemsize, node.threshold, node.block_size_limit)
        except Exception as e:  # noqa: BLE001
            chk.count("skipped:multi-stage:" + type(e).__name__)
            continue
        chk.count("rechunk:stages=" + str(min(len(steps), 4)))
        chk.case(("multi-stage-rechunk", label), nontrivial=len(steps) > 1)
        check_node(chk, node, "raw", lambda label=label: {"program": label}, nc, sid, seen_names)
    n_prog = 0
    for prog, sources, _want in streams:
        def describe(prog=prog, sources=sources):
            inner = prog[1] if prog[0] == "rechunk_p2p" else prog
            dsc = progs.describe(inner, sources)
            if prog[0] == "rechunk_p2p":
                dsc["program"] = f"(rechunk_p2p {dsc['program']} {prog[2]!r})"
            return dsc
        _materialize._LOWER_CACHE.clear()
        try:
            with np.errstate(all="ignore"):
                x = build_any(prog, da, sources)
                _ = x.chunks           # lazily computed: raises for programs that build an inconsistent raw expression (F11)
        except Exception as e:  # noqa: BLE001
            chk.count("skipped:build:" + type(e).__name__)
            continue
        has_unknown = chunks_unknown(x.chunks) or "boolmask" in progs.show(prog if prog[0] != "rechunk_p2p" else prog[1])
        chk.count("program" + (":unknown-chunks" if has_unknown else ""))
        nontrivial = False
        variants = (("raw", lambda: x.expr), ("optimized", lambda: x.expr.optimize()),
                    ("lowered", lambda: x.expr.lower_completely()),
                    ("materialized", lambda: _materialize._materialize(x.expr)))
        for variant, f in (variants[:1] if prog[0] == "rechunk_p2p" else variants):
            try:
                nodes = [f()] if prog[0] == "rechunk_p2p" else list(f().walk())
            except Exception as e:  # noqa: BLE001  (optimizer crashes are other properties' findings)
                chk.count(f"skipped:{variant}:" + type(e).__name__)
                continue
            chk.count("expr:" + variant)
            for node in nodes:
                if not isinstance(node, da._expr.ArrayExpr):
                    chk.count("non-array-node:" + type(node).__name__)
                    continue
                nontrivial = nontrivial or prog[0] == "rechunk_p2p" or bool(node.dependencies())
                check_node(chk, node, variant, describe, nc, sid, seen_names)
        # a rechunk to the same chunks (the collection method short-circuits it, so build the nodes directly)
        n_prog += 1
        if prog[0] != "rechunk_p2p" and not chunks_unknown(x.chunks) and x.ndim and n_prog % 3 == 0:
            from dask_array._rechunk import P2PRechunk, Rechunk, TasksRechunk
            for mk in (lambda: Rechunk(x.expr, x.chunks), lambda: TasksRechunk(x.expr, x.chunks), lambda: P2PRechunk(x.expr, x.chunks)):
                try:
                    node = mk()
                except Exception as e:  # noqa: BLE001
                    chk.count("skipped:same-rechunk:" + type(e).__name__)
                    continue
                check_node(chk, node, "rechunk-to-same-chunks", describe, nc, sid, seen_names)
        try:
            root_tb = [float(v) for v in x.expr.transfer_bytes]
        except Exception as e:  # noqa: BLE001  (already reported by check_node for the root node)
            root_tb = "raises " + type(e).__name__
        chk.case(("prog", progs.show(prog if prog[0] != "rechunk_p2p" else prog[1]), repr(prog[2]) if prog[0] == "rechunk_p2p" else "",
                  repr([s[1] for s in sources])), nontrivial=nontrivial,
                 sample={"program": describe()["program"], "root_transfer": root_tb})
    _materialize._LOWER_CACHE.clear()
    for desc, nodes in direct_nodes(rng, N // 2, da):
        kind = desc.split("(")[0].split(" ")[0]
        if not nodes:
            chk.count("skipped:direct:" + kind + ":" + desc.rsplit(" ", 1)[-1])
            continue
        chk.count("direct:" + kind)
        chk.case(("direct", desc), nontrivial=True, sample=None)
        for node in nodes:
            if isinstance(node, da._expr.ArrayExpr):
                check_node(chk, node, "direct", lambda desc=desc: {"program": desc}, nc, sid, seen_names)
    _materialize._LOWER_CACHE.clear()
    for desc, nodes in direct_nodes2(rng, tier, da):
        kind = "direct2:" + next((k for k in ("SlidingWindowReduction", "MovingWindowReduction", "sliding_window_view", "move_sum", "cumsum", "cumprod",
                                              "OverlapInternal", "Shuffle", "stack") if k in desc), "other")
        if not nodes:
            chk.count("skipped:" + kind + (":" + desc.rsplit(" ", 1)[-1] if " raised " in desc else ":no-node"))
            continue
        chk.count(kind)
        for node in nodes:
            if type(node).__name__ in ("SlidingWindowReduction", "MovingWindowReduction"):
                from dask_array.reductions import _sliding_window as _sw
                sup = (_sw.supports_native_sliding_window if type(node).__name__ == "SlidingWindowReduction"
                       else _sw.supports_native_moving_window)(node.array.chunks[node.sliding_axis], node.window)
                chk.count("window-node:" + type(node).__name__ + (":inside" if sup else ":outside") + "-the-constructor-guard")
        chk.case(("direct2", desc), nontrivial=True, sample=None)
        for node in nodes:
            if isinstance(node, da._expr.ArrayExpr):
                check_node(chk, node, "direct", lambda desc=desc: {"program": desc}, nc, sid, seen_names)
    _materialize._LOWER_CACHE.clear()
    def evaluate(entry):        # the families are independent coqc runs: evaluate them concurrently, report in a fixed order
        fam, items = entry
        ctype, cdef = FAMS[fam]
        return coq_eval_cases(HEADER, ctype, cdef, [lit for lit, _ in items], jobs=4)[0]
    from concurrent.futures import ThreadPoolExecutor
    with ThreadPoolExecutor(max_workers=4) as ex:
        all_mism = list(ex.map(evaluate, list(nc.fam.items())))
    for (fam, items), mism in zip(list(nc.fam.items()), all_mism):
        for i in mism[:5]:
            chk.tie_break("correspondence:transfer_bytes:" + fam, {"case": items[i][0][:600], **items[i][1]})
        chk.traces_validated += len(items) - len(mism)
        chk.count("model-cases:" + fam, len(items))
    chk.count("model-cases:duplicates-not-re-evaluated", nc.dups)
    chk.traces_validated += nc.dups


def replay(path):
    d = json.load(open(path))
    print(json.dumps(d, indent=1, default=str)[:4000])
    data = d.get("data", {})
    if data.get("fn") == "_rechunk_stage_transfer":
        from dask_array._rechunk import _rechunk_stage_transfer
        t = lambda x: tuple(tuple(c) for c in x)  # noqa: E731
        print("now:", _rechunk_stage_transfer(t(data["old"]), t(data["new"]), data["itemsize"]))
    elif data.get("fn") == "moved_fraction":
        from dask_array._expr import moved_fraction
        print("now:", moved_fraction(tuple(data["src"]), tuple(data["dst"])))
    else:
        print("(re-run ./check C27 to reproduce; the program and its sources are in `data`)")


def run(chk: Check):
    from dask_array._expr import moved_fraction
    from dask_array._rechunk import _rechunk_stage_transfer
    chk.rule = ("(a) _rechunk_stage_transfer on every pair of layouts of n<=6 (rank 1), pairs of pairs n<=4 (rank 2) and random related "
                "layouts incl. zero-size chunks, rank<=4: impl == Gallina model exactly, == interval brute force, 0<=min<=max, same->(0,0); "
                "(b) transfer_bytes of every node (walk()) of generated programs, raw/optimized/lowered/materialized, incl. unknown-chunk "
                "(boolean mask) and p2p programs: (min,max) pair, 0<=min<=max, NaN only (and both) with unknown chunks, alias/leaf/same-chunk "
                "rechunk -> (0,0), and per class == the closed-form Gallina model (Rechunk, P2PRechunk, SliceSlicesIntegers, PartialReduce, "
                "Blockwise, default, OverlapInternal, Stack, CumReduction, CumReductionBlelloch, Shuffle + _new_chunks, Sliding/MovingWindowReduction "
                "+ _block_plan + supports_native_*), also on directed nodes: every layout of n<=6 x every window 1..n+1, size-1 / many / irregular "
                "blocks, windows next to the chunk sizes, both scan methods, (before, after) depths, permuting / repeating / oversized shuffle "
                "groups; (c) moved_fraction == model (exact rational vs float), in "
                "[0,1], 0 for identical layouts and pure splits. non-trivial = distinct layouts / a program with a non-leaf node")
    chk.assumptions = [
        "all modelled inputs are integers, so every float intermediate of _rechunk_stage_transfer / Rechunk / P2PRechunk / "
        "SliceSlicesIntegers / PartialReduce is an exactly representable integer while < 2^53 (the harness checks x == int(x) and "
        "|x| < 2^53 and compares int(x) with the model exactly)",
        f"Blockwise.transfer_bytes (1.0/gather) and ArrayExpr.transfer_bytes (out_blocks/dep_blocks) round two float quotients; the "
        f"model keeps exact rationals and the comparison allows relative error 2^-{TOL.bit_length() - 1}",
        "the stages of Rechunk.transfer_bytes come from the real plan_rechunk (an oracle argument of the model `rechunk_transfer`; "
        "the theorem quantifies over all plans whose layouts keep the axis lengths)",
        "NaN early returns (unknown chunk sizes) are outside the Gallina model; the harness checks them against the property only",
        "Transfer2.v: x.nbytes / n (Shuffle, CumReduction*) is modelled by exact integer division (theorem C27_row_bytes_exact: it is the "
        "cross-section); the per-block float sums of the window / overlap estimates are integer-valued doubles (checked x == int(x), < 2^53); "
        "CumReduction's 2*(k-1)/k is kept as an exact rational and compared with relative tolerance 2^-36",
        "Sliding/MovingWindowReduction nodes are also built DIRECTLY for every window 1..n+1, i.e. outside the constructor guards "
        "supports_native_sliding_window / supports_native_moving_window (counted as window-node:*:outside-the-constructor-guard); the "
        "theorems need window >= 1 and non-negative (sliding) / positive (moving) chunks only; window < 1 is outside the model "
        "(the real code then indexes starts[-1])",
        "Shuffle: an index >= the axis length makes the real code raise IndexError (axis_chunks[block]); the model reads 0 there; the "
        "harness only builds in-range indexers (what _validate_indexer / take establish)",
        "theorems need non-negative chunk sizes, equal axis lengths of old and new (what _validate_rechunk enforces) and itemsize >= 0",
    ]
    chk.run_proofs()
    fam_stage(chk, _rechunk_stage_transfer, chk.tier)
    fam_moved_fraction(chk, moved_fraction, chk.tier)
    fam_nodes(chk, chk.tier)
