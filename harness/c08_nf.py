"""C08 model correspondence — normal forms.

The REAL `expr.simplify()` result of generated programs is reified into the Coq `expr` syntax (the reifier of
harness/c02_rules.py; unmodelled classes become opaque leaves) and Coq checks, with the rewrite system of
coq/theories/Rewrite.v (the 18 measure-decreasing simplify rules, closed under every context):

 (i)   applicable (real fixpoint) = false: the real fixpoint is a normal form of the model system.  Where a model rule
       still applies, the harness asks the implementation why it did not fire there (it replays the hook with the gates of
       ArrayExpr._slice_pushdown / _rechunk_pushdown taken apart): a declined pushdown that the gate explains is counted
       `guard-gap:<rule>:<gate>` (the model rules transcribe _accept_slice / _pushdown, not the sharing / block-culling /
       grid gates in front of them); anything else is a tie break; a second real simplify() that changes the expression is
       a C08 violation (reported with run_program's signature).
 (ii)  the number of fired real rewrites that are instances of the 18 rules is <= mu (raw expression) when only such rules
       fired, and the number of sweeps of the real fixpoint loop is <= mu raw.
 (iii) agreement of simplify_model raw with the real result (exact; counted, and every disagreement classified: a guard
       gap, operand chunks the model's [echunks] does not know, or the real result being ANOTHER normal form of the raw
       expression); whether the raw expression is confluent in the model system (normal_forms raw has one element),
       counted; and, for small programs without a guard gap, the real result must be a member of normal_forms raw
       (C08_normal_forms_sound: it is then reachable from raw by steps of the model relation) -- a tie break otherwise.
 The critical pair of C08_confluence_refuted is replayed against the implementation first (corpus entry): both normal forms
 are produced by the real optimizer (simplify(y[:, ::2]) against simplify(simplify(y)[:, ::2])), reify to cp_nf1 / cp_nf2,
 have different names and compute equal arrays.
"""
from __future__ import annotations

import re
import warnings

import numpy as np

import c02_rules
import exprs
import progs
from common import cbool, clist, cnat, coq_eval_expr, ctuple

HEADER = "From DA Require Import PyBase Slicing NdArray ExprRules Rewrite.\nOpen Scope Z_scope.\n"

RULE_NAMES = ["slice_identity", "slice_slice", "transpose_transpose", "transpose_identity", "rechunk_noop",
              "slice_elemwise", "slice_transpose", "slice_arange", "slice_expand_dims", "slice_concat", "slice_stack",
              "slice_full", "slice_broadcast_to", "rechunk_rechunk", "rechunk_elemwise", "rechunk_fromarray",
              "rechunk_expand_dims", "rechunk_transpose"]
N_DOWN = 5

# index of the first rule of simp_rules that fires at the root (18 = none)
WHICH_DEF = ("Fixpoint which_rule (k : nat) (rs : list (expr -> option expr)) (e : expr) : nat :=\n"
             "  match rs with [] => k | r :: t => match r e with Some _ => k | None => which_rule (S k) t e end end.\n")

# raw, real simplify() result, number of fired real rewrites that are instances of the 18 rules, number of real sweeps,
# pure (only rules of the system fired and the raw expression has no opaque inner node), small (confluence search affordable)
CASE_T = "expr * expr * nat * nat * bool * bool"

# the model strategy is stuck below the real result because [echunks] does not know the chunks of an operand
# (Elemwise / Transpose / ExpandDims / Stack nodes): mk_rechunk and the no-op test decline there
ANALYSE_DEF = """Definition unknown_chunks (e : expr) : bool := match echunks e with None => true | Some _ => false end.
Fixpoint chunks_blocked (e : expr) : bool :=
  match e with
  | ERechunk x _ _ _ _ _ =>
      unknown_chunks x ||
      match x with
      | EElemwise _ args => existsb (fun a => negb (is_const a) && unknown_chunks a) args
      | ETranspose y _ => unknown_chunks y
      | _ => false
      end || chunks_blocked x
  | ESlice x _ _ => match x with EBroadcastTo y _ _ => unknown_chunks y | _ => false end || chunks_blocked x
  | ETranspose x _ | EExpandDims x _ | EBroadcastTo x _ _ | ETasksRechunk x _ _ => chunks_blocked x
  | EElemwise _ args => existsb chunks_blocked args
  | EConcat a _ rest | EStack a _ rest => chunks_blocked a || existsb chunks_blocked rest
  | _ => false
  end.
Definition bit (b : bool) (k : nat) : nat := if b then k else O.
(* 1: a rule of the system applies in the real fixpoint;  2: more real rewrites than mu raw;  4: more real sweeps than mu raw;
   8: simplify_model raw differs from the real result;  16: ... and the model is stuck on unknown operand chunks;
   32: raw has more than one normal form;  64: the real result is not among the normal forms of raw *)
Definition analyse (c : """ + CASE_T + """) : nat :=
  let '(raw, simp, n, sw, pure, small) := c in
  let m := simplify_model raw in
  let differs := pure && negb (expr_eqb m simp) in
  let nfs := if small then normal_forms raw else [] in
  (bit (applicable simp) 1 + bit (pure && Nat.ltb (mu raw) n) 2 + bit (pure && Nat.ltb (mu raw) sw) 4 +
   bit differs 8 + bit (differs && chunks_blocked m) 16 +
   bit (small && Nat.ltb 1 (length nfs)) 32 + bit (small && pure && negb (existsb (expr_eqb simp) nfs)) 64)%nat.
"""


def coq_analyse(cases, chunk=120, timeout=900):
    """map analyse cases, evaluated inside Coq (one parse of the case literals for all the checks)"""
    import os
    import shutil
    import tempfile
    from concurrent.futures import ThreadPoolExecutor
    from common import COQ_ARGS, SCRATCH_ROOT, sh
    d = tempfile.mkdtemp(prefix="verif-cases-", dir=SCRATCH_ROOT)
    try:
        files = []
        for k in range(0, len(cases), chunk):
            path = os.path.join(d, f"cases_{k // chunk}.v")
            with open(path, "w") as f:
                f.write(HEADER + "\n" + ANALYSE_DEF + "\n")
                f.write(f"Definition cases : list ({CASE_T}) :=\n [ " + ";\n   ".join(cases[k:k + chunk]) + " ].\n")
                f.write("Eval vm_compute in (map analyse cases).\n")
            files.append((k, path))

        def run(item):
            k, path = item
            rc, out = sh(["timeout", str(timeout), "coqc", *COQ_ARGS, path], timeout=timeout + 30)
            if rc != 0:
                raise RuntimeError("coqc failed on generated cases file:\n" + out[-2000:])
            m = re.search(r"=\s*(\[.*?\])\s*:\s*list nat", out, flags=re.S)
            if not m:
                raise RuntimeError("cannot parse coqc output:\n" + out[-2000:])
            return [int(x) for x in re.findall(r"\d+", m.group(1))]

        with ThreadPoolExecutor(max_workers=min(8, os.cpu_count() or 8)) as ex:
            parts = list(ex.map(run, files))
        codes = [c for part in parts for c in part]
        if len(codes) != len(cases):
            raise RuntimeError(f"analyse returned {len(codes)} codes for {len(cases)} cases")
        return codes
    finally:
        shutil.rmtree(d, ignore_errors=True)


# captured hook -> is it one of the 18 rules of simp_rules?
IN_SYSTEM = {"slice_down", "rechunk_noop", "rechunk_rechunk", "slice_elemwise", "slice_transpose", "slice_arange",
             "slice_expand_dims", "slice_concat", "slice_stack", "slice_full", "slice_broadcast_to", "rechunk_elemwise",
             "rechunk_fromarray", "rechunk_expand_dims", "rechunk_transpose"}


def in_system(hook, before, after):
    key = c02_rules.classify(hook, before, after)
    if key == "transpose_down":
        # Transpose(Transpose) fusion and the identity removal are in the system, the pushdown through Elemwise is not
        return type(after).__name__ != "Elemwise" or type(before.array).__name__ == "Transpose", key
    return key in IN_SYSTEM, key


def array_deps(e):
    from dask_array._expr import ArrayExpr
    return [d for d in e.dependencies() if isinstance(d, ArrayExpr)]


def walk(e, seen=None):
    """every node of the real expression, once per name, with nothing about its parents"""
    seen = {} if seen is None else seen
    if e._name in seen:
        return seen
    seen[e._name] = e
    for d in array_deps(e):
        walk(d, seen)
    return seen


def count_sweeps(expr):
    """Expr.simplify's loop, re-run by hand: number of simplify_once sweeps that changed the name"""
    from dask._expr import collect_dependents
    n, seen = 0, set()
    while n < 10000:
        dependents = collect_dependents(expr)
        new = expr.simplify_once(dependents=dependents, simplified={})
        if new._name == expr._name or new._name in seen:
            break
        seen.add(new._name)
        expr = new
        n += 1
    return n, expr


def explain(s1, node, rule):
    """Why did the implementation not fire the model rule `rule` at `node` of its own fixpoint s1?
    Returns a gate name (explained) or None / fires-on-replay / replay-raises:* (unexplained)."""
    try:
        return _explain(s1, node, rule)
    except Exception as e:  # noqa: BLE001
        return "replay-raises:" + type(e).__name__


def _explain(s1, node, rule):
    from dask._expr import collect_dependents
    from dask_array.slicing._basic import SliceSlicesIntegers
    with exprs.capture_paused(), warnings.catch_warnings():
        warnings.simplefilter("ignore")
        dependents = collect_dependents(s1)
        if RULE_NAMES.index(rule) < N_DOWN:
            out = node._simplify_down()
            return None if out is None or out._name == node._name else "fires-on-replay"
        child = node.array
        out = child._simplify_up(node, dependents)
        if out is not None and out._name != node._name:
            return "fires-on-replay"
        others = child._other_dependents(node, dependents)
        if rule.startswith("slice_"):
            if any(not isinstance(n, SliceSlicesIntegers) for n in others.values()):
                return "shared-child"
            if (not child._allow_no_cull_slice_pushdown and child.dependencies()
                    and not child._slice_pushdown_culls_block(node)):
                return "no-block-culled"
            try:
                res = child._accept_slice(node)
            except Exception as e:  # noqa: BLE001
                return "accept-raises:" + type(e).__name__
            if res is None or res._name == node._name:
                return "accept-declines"
            if child._preserve_grid_contract(node, res, dependents) is None:
                return "grid-contract"
            return None
        if others:
            return "shared-child"
        try:
            res = node._pushdown()
        except Exception as e:  # noqa: BLE001
            return "pushdown-raises:" + type(e).__name__
        if res is None or res._name == node._name:
            return "pushdown-declines"
        if child._preserve_grid_contract(node, res, dependents) is None:
            return "grid-contract"
        return None


class TrackingReifier(c02_rules.Reifier):
    def __init__(self):
        super().__init__()
        self.degraded = False

    def leaf(self, e):
        if array_deps(e):
            self.degraded = True
        return super().leaf(e)


class NormalForms:
    def __init__(self, chk):
        self.chk = chk
        self.cases, self.info = [], []

    def add(self, prog, sources, da, origin):
        chk = self.chk
        from dask_array import _materialize
        _materialize._LOWER_CACHE.clear()
        try:
            with warnings.catch_warnings():
                warnings.simplefilter("ignore")
                raw = progs.build(prog, da, sources, memo={}).expr
        except Exception:  # noqa: BLE001
            chk.count("nf:skipped:construction-raises")
            return
        try:
            with exprs.capture_rewrites() as rec, warnings.catch_warnings():
                warnings.simplefilter("ignore")
                s1 = raw.simplify()
                fired = [f for f in rec if f[0] == "simplify"]
            with warnings.catch_warnings():
                warnings.simplefilter("ignore")
                sweeps, s1b = count_sweeps(raw)
                s2 = s1.simplify()
        except Exception:  # noqa: BLE001   (optimizer crashes are run_program's business)
            chk.count("nf:skipped:simplify-raises")
            return
        if s2._name != s1._name or s1b._name != s1._name:
            # the real fixpoint is not a fixpoint: the property itself fails (same signature as run_program's check)
            chk.violation("simplify is not idempotent", {**progs.describe(prog, sources), "forms": {"simplified": exprs.tree(s1), "resimplified": exprs.tree(s2)}},
                          signature={"class": "not-idempotent", "what": "simplify is not idempot", "family": "normal-forms", "root_op": prog[0]})
        seen, n_in, n_out = set(), 0, 0
        for phase, hook, before, after in fired:
            ident = (hook, before._name, getattr(after, "_name", None))
            if ident in seen:
                continue
            seen.add(ident)
            ok, key = in_system(hook, before, after)
            if ok:
                n_in += 1
            else:
                n_out += 1
                chk.count("nf:rule-outside-system:" + (key or hook))
        r = TrackingReifier()
        try:
            craw = r.child(raw)
            degraded = r.degraded          # an unmodelled node with array operands became a leaf: rewrites below it are invisible
            csimp = r.child(s1)
        except c02_rules.Unmodelled:
            chk.count("nf:skipped:unmodelled-root")
            return
        if degraded:
            chk.count("nf:raw-has-opaque-inner-node")
        structural = craw.count("(E") - craw.count("(ELeaf") - craw.count("(EConst")
        chk.case(("nf", craw), nontrivial=structural > 1)
        chk.count("nf:programs")
        size = craw.count("(E")
        pure = n_out == 0 and not degraded
        self.cases.append(ctuple(craw, csimp, cnat(n_in), cnat(sweeps), cbool(pure), cbool(size <= 9)))
        self.info.append({"prog": progs.show(prog), "desc": progs.describe(prog, sources), "origin": origin, "raw": raw, "s1": s1,
                          "craw": craw, "csimp": csimp, "n_in": n_in, "n_out": n_out, "sweeps": sweeps,
                          "stable": s1b._name == s1._name and s2._name == s1._name, "degraded": degraded, "structural": structural, "size": size, "pure": pure, "small": size <= 9})

    # ------------------------------------------------------------------
    def locate(self, idxs):
        """for the real fixpoints in which a model rule is applicable: which rule, at which real node"""
        nodes, terms = [], []
        for i in idxs:
            for name, node in walk(self.info[i]["s1"]).items():
                r = c02_rules.Reifier()
                try:
                    terms.append(r.node(node))
                except c02_rules.Unmodelled:
                    continue
                nodes.append((i, node))
        out = []
        for k in range(0, len(terms), 300):
            res = coq_eval_expr(HEADER + WHICH_DEF, [f"map (which_rule 0 simp_rules) {clist(terms[k:k + 300], str)}"], timeout=600)
            nums = [int(x) for x in re.findall(r"\d+", res[0].split(":")[0])] if res and not res[0].startswith("<coqc") else []
            if len(nums) != len(terms[k:k + 300]):
                raise RuntimeError("cannot parse which_rule output: " + (res[0][:300] if res else ""))
            out.extend(nums)
        return [(i, node, RULE_NAMES[n]) for (i, node), n in zip(nodes, out) if n < len(RULE_NAMES)]

    def flush(self):
        chk = self.chk
        if not self.cases:
            return
        codes = coq_analyse(self.cases)
        n = len(self.cases)
        stats = {"programs": n}
        has = lambda k, b: bool(codes[k] & b)      # noqa: E731
        # (i) the real fixpoint is a normal form of the model system
        bad = [k for k in range(n) if has(k, 1)]
        stats["real_fixpoint_is_model_normal_form"] = n - len(bad)
        chk.traces_validated += n - len(bad)
        gaps = {}
        if bad:
            located = self.locate(bad)
            found = set()
            for i, node, rule in located:
                found.add(i)
                info = self.info[i]
                why = explain(info["s1"], node, rule)
                if why is None or why == "fires-on-replay" or why.startswith("replay-raises:"):
                    if not info["stable"]:
                        chk.count("nf:real-fixpoint-not-stable(C08 idempotence)")
                        continue
                    chk.tie_break("model-rule-applicable-in-real-fixpoint",
                                  {"rule": rule, "why": why, "program": info["prog"], "node": exprs.tree(node),
                                   "simplified": info["csimp"], **info["desc"]})
                else:
                    key = f"guard-gap:{rule}:{why}"
                    gaps[key] = gaps.get(key, 0) + 1
                    chk.count(key)
            for i in bad:
                if i not in found:
                    chk.tie_break("applicable-but-no-rule-located", {"program": self.info[i]["prog"], "simplified": self.info[i]["csimp"]})
        stats["guard_gaps"] = gaps
        gap_cases = set(bad)
        # (ii) rule applications and sweeps are bounded by mu raw
        pure = [k for k, inf in enumerate(self.info) if inf["pure"]]
        stats["only_system_rules_fired"] = len(pure)
        for k in pure:
            inf = self.info[k]
            if has(k, 2):
                chk.tie_break("more-real-rewrites-than-mu", {"program": inf["prog"], "rewrites": inf["n_in"], "raw": inf["craw"], **inf["desc"]})
            if has(k, 4):
                chk.tie_break("more-real-sweeps-than-mu", {"program": inf["prog"], "sweeps": inf["sweeps"], "raw": inf["craw"], **inf["desc"]})
        chk.traces_validated += len(pure)
        stats["max_real_rewrites"] = max((inf["n_in"] for inf in self.info), default=0)
        stats["max_real_sweeps"] = max((inf["sweeps"] for inf in self.info), default=0)
        # (iii) the model strategy against the real result; confluence of the raw expression in the model system
        differ = {k for k in pure if has(k, 8)}
        blocked = {k for k in differ - gap_cases if has(k, 16)}
        rest = differ - gap_cases - blocked
        # the real result is ANOTHER normal form of the raw expression (the system is not confluent and the real sweep order
        # -- down, up, then the operands within the same sweep -- differs from the model strategy's)
        other_nf = {k for k in rest if self.info[k]["small"] and has(k, 32) and not has(k, 64)}
        other = sorted(rest - other_nf)
        stats["simplify_model_equals_real"] = len(pure) - len(differ)
        stats["simplify_model_differs:guard-gap"] = len(differ & gap_cases)
        stats["simplify_model_differs:model-does-not-know-operand-chunks"] = len(blocked)
        stats["simplify_model_differs:real-is-another-normal-form(non-confluence)"] = len(other_nf)
        stats["simplify_model_differs:other"] = len(other)
        chk.count("nf:simplify_model=real", len(pure) - len(differ))
        chk.count("nf:simplify_model!=real(guard-gap)", len(differ & gap_cases))
        chk.count("nf:simplify_model!=real(model-does-not-know-operand-chunks)", len(blocked))
        chk.count("nf:simplify_model!=real(real-is-another-normal-form)", len(other_nf))
        chk.count("nf:simplify_model!=real(other)", len(other))
        stats["differs_other_samples"] = [{"program": self.info[k]["prog"], "raw": self.info[k]["craw"], "real": self.info[k]["csimp"]}
                                          for k in other[:12]]
        small = [k for k, inf in enumerate(self.info) if inf["small"]]
        noncf = [k for k in small if has(k, 32)]
        stats["confluence_checked"] = len(small)
        stats["non_confluent"] = len(noncf)
        chk.count("nf:raw-confluent", len(small) - len(noncf))
        chk.count("nf:raw-non-confluent", len(noncf))
        stats["non_confluent_samples"] = [{"program": self.info[k]["prog"], "raw": self.info[k]["craw"]} for k in noncf[:5]]
        # among the small pure programs without a guard gap (and where the model knows the chunks it needs) the real result
        # is one of the model's normal forms of the raw expression
        sp = [k for k in small if self.info[k]["pure"] and k not in gap_cases and k not in blocked]
        unreach = [k for k in sp if has(k, 64)]
        stats["real_result_is_a_model_normal_form_of_raw"] = [len(sp) - len(unreach), len(sp)]
        for k in unreach:
            inf = self.info[k]
            chk.tie_break("real-result-not-a-model-normal-form-of-raw", {"program": inf["prog"], "raw": inf["craw"], "real": inf["csimp"], **inf["desc"]})
        chk.traces_validated += len(sp) - len(unreach)
        chk.extra["normal_forms"] = stats


def towers(rng):
    g = progs.Gen(rng, ops=["rechunk", "slice", "slice", "T", "T", "elem2", "elem1", "expand", "concat", "stack"], sources=[])
    p, v = g.program(rng.choice([3, 4, 5, 6]))
    return p, g.sources, v


# the critical pair of coq/theories/Rewrite.v (cp_raw), as a program
CP_SOURCES = [(np.arange(60, dtype="int64").reshape(12, 5), ((4, 2, 5, 1), (3, 1, 1)))]
CP_INNER = ("slice", ("elem", "multiply", ("src", 0), ("const", 2)), (slice(0, 12, 2), slice(2, 4, 2)))
CP_OUTER_INDEX = (slice(0, None, None), slice(0, None, 2))


def replay_critical_pair(chk, da):
    """C08_confluence_refuted against the implementation: simplify(y[:, ::2]) and simplify(simplify(y)[:, ::2])"""
    from dask_array._collection import new_collection
    with warnings.catch_warnings():
        warnings.simplefilter("ignore")
        y = progs.build(CP_INNER, da, CP_SOURCES, memo={})
        a = y[CP_OUTER_INDEX].expr.simplify()
        b = new_collection(y.expr.simplify())[CP_OUTER_INDEX].expr.simplify()
        va, vb = exprs.eval_expr(a), exprs.eval_expr(b)
    r = c02_rules.Reifier()
    ca, cb = r.child(a), r.child(b)
    ok, why = exprs.same(va, vb)
    if not ok:
        chk.violation("the two normal forms of the critical pair compute different arrays", {"a": exprs.tree(a), "b": exprs.tree(b)},
                      signature={"class": "critical-pair-values-differ"})
    chk.count("nf:critical-pair-replayed:" + ("names-differ" if a._name != b._name else "names-equal"))
    res = coq_eval_expr(HEADER, [f"(expr_eqb {ca} cp_nf1, expr_eqb {cb} cp_nf2)"])
    if not res or "(true, true)" not in res[0]:
        chk.tie_break("critical-pair-replay-differs-from-model", {"a": ca, "b": cb, "coq": res[0][:300] if res else ""})
    else:
        chk.traces_validated += 1
    chk.extra["critical_pair"] = {"names_differ": a._name != b._name, "values_equal": bool(ok), "a": exprs.tree(a), "b": exprs.tree(b)}


def fam_normal_forms(chk, da):
    nf = NormalForms(chk)
    replay_critical_pair(chk, da)
    nf.add(("slice", CP_INNER, CP_OUTER_INDEX), CP_SOURCES, da, "corpus:critical-pair")
    n = 3000 if chk.tier == "thorough" else 300
    import random as _random
    rng = _random.Random(f"{chk.pid}-normal-forms-{chk.seed}")      # own stream: the other families keep theirs
    ops = ["elem2", "elem1", "scalar", "T", "T", "slice", "slice", "rechunk", "concat", "stack", "expand", "squeeze"]
    for prog, sources, want in progs.gen_programs(rng, n, ops=ops, depth_choices=(1, 2, 3, 4, 5)):
        nf.add(prog, sources, da, "modelled-ops")
    for _ in range(n // 3):
        prog, sources, want = progs.slice_chain(rng)
        nf.add(prog, sources, da, "slice-chain")
    for _ in range(n // 2):
        prog, sources, want = towers(rng)
        nf.add(prog, sources, da, "towers")
    for prog, sources, want in progs.gen_programs(rng, n // 3, ops=progs.CORE_OPS, depth_choices=(2, 3, 4)):
        nf.add(prog, sources, da, "core-ops")
    nf.flush()
