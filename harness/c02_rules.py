"""C02 model correspondence — translation validation of fired rewrite instances.

Every rewrite instance (rule hook, before expression, after expression) whose rule is one of
the modelled ones (coq/theories/ExprRules.v) is reified into the Coq `expr` syntax and checked
INSIDE Coq:  wfb before = true  and  rule_fn before = Some after  (exact structural equality).
The soundness theorems of coq/Properties/C02.v then apply to the very instance that fired.

Two streams feed the check:
 * the rewrites captured while optimizing generated programs (harness/c02.py, exprs.capture_rewrites);
 * a directed stream: random operands for each modelled rule, the implementation's hook
   (`_simplify_down()`, `child._accept_slice(parent)`, `_pushdown()`) is invoked directly on
   expressions built through the public API; these instances are also executed (before vs
   after, un-optimized) as a property-level oracle.
"""
from __future__ import annotations

import warnings
from numbers import Integral

import numpy as np

import exprs
from common import cbool, clist, cnat, coq_eval_cases, coq_eval_expr, cslice, ctuple, cz

HEADER = "From DA Require Import PyBase Slicing NdArray ExprRules.\nOpen Scope Z_scope.\n"

# rule key -> index in apply_rule (Coq side)
RULES = ["slice_down", "slice_elemwise", "slice_transpose", "transpose_down", "rechunk_noop",
         "rechunk_rechunk", "slice_expand_dims", "slice_arange", "slice_fromarray", "rechunk_fromarray",
         "rechunk_elemwise", "slice_concat", "slice_stack", "slice_full", "elemwise_lower", "rechunk_lower",
         "slice_broadcast_to", "rechunk_concat", "rechunk_expand_dims", "rechunk_transpose"]
RULE_FN = {"slice_down": "rule_slice_down", "slice_elemwise": "rule_slice_elemwise",
           "slice_transpose": "rule_slice_transpose", "transpose_down": "rule_transpose_down",
           "rechunk_noop": "rule_rechunk_noop", "rechunk_rechunk": "rule_rechunk_rechunk",
           "slice_expand_dims": "rule_slice_expand_dims", "slice_arange": "rule_slice_arange",
           "slice_fromarray": "rule_slice_fromarray lim", "rechunk_fromarray": "rule_rechunk_fromarray",
           "rechunk_elemwise": "rule_rechunk_elemwise", "slice_concat": "rule_slice_concat",
           "slice_stack": "rule_slice_stack", "slice_full": "rule_slice_full",
           "elemwise_lower": "rule_elemwise_lower tgt", "rechunk_lower": "rule_rechunk_lower p2p",
           "slice_broadcast_to": "rule_slice_broadcast_to", "rechunk_concat": "rechunk_through_concat",
           "rechunk_expand_dims": "rule_rechunk_expand_dims", "rechunk_transpose": "rule_rechunk_transpose"}

APPLY_DEF = ("Definition apply_rule (r : nat) (lim : Z) (tgt : list (list Z)) (p2p : bool) (e : expr) : option expr :=\n  match r with\n"
             + "".join(f"  | {i}%nat => {RULE_FN[r]} e\n" for i, r in enumerate(RULES))
             + "  | _ => None\n  end.\n")
# rule, _NUMPY_SLICE_PUSHDOWN_NBYTES_LIMIT in force, oracle: unified chunks (Elemwise._lower), oracle: rechunk method is
# p2p (Rechunk._lower), before, after
CASE_T = "nat * Z * list (list Z) * bool * expr * option expr"
CHK_RULE = (APPLY_DEF + "Definition chk (c : " + CASE_T + ") : bool := let '(r, lim, tgt, p2p, b, a) := c in "
            "oexpr_eqb (apply_rule r lim tgt p2p b) a.")
# the hypotheses of the rule's soundness theorem: wfb, plus the rule-specific normal-form hypothesis
HYPS_DEF = ("Definition hyps (r : nat) (b : expr) : bool :=\n  wfb b &&\n  match r with\n"
            f"  | {RULES.index('slice_expand_dims')}%nat => rule_hyps_slice_expand_dims b\n"
            f"  | {RULES.index('slice_fromarray')}%nat => rule_hyps_slice_fromarray b\n"
            "  | _ => true\n  end.\n")
CHK_BOTH = (APPLY_DEF + HYPS_DEF + "Definition chk (c : " + CASE_T + ") : bool := let '(r, lim, tgt, p2p, b, a) := c in "
            "oexpr_eqb (apply_rule r lim tgt p2p b) a && match a with Some _ => hyps r b | None => true end.")


NEW_RULES = ("slice_concat", "slice_stack", "slice_full", "elemwise_lower", "rechunk_lower", "slice_broadcast_to",
             "rechunk_concat", "rechunk_expand_dims", "rechunk_transpose")


# rules that promise to keep the advertised chunks: where the model knows the chunks of both sides, Coq compares them on every
# matched instance (proved for all of them except the slice composition of Rechunk._lower, which is only checked this way)
CHUNK_RULES = ("rechunk_lower", "rechunk_concat", "rechunk_fromarray", "rechunk_rechunk", "rechunk_noop", "slice_full",
               "rechunk_expand_dims")
CHK_CHUNKS = ("Definition chk (c : " + "nat * Z * list (list Z) * bool * expr * option expr" + ") : bool := let '(r, lim, tgt, p2p, b, a) := c in "
              "match a with Some a' => match echunks b, echunks a' with Some x, Some y => zll_eqb x y | _, _ => true end "
              "| None => true end.")


class Unmodelled(Exception):
    pass


def cpidx(x):
    if x is None:
        return "INone"
    if isinstance(x, slice):
        for f in (x.start, x.stop, x.step):
            if f is not None and not isinstance(f, Integral):
                raise Unmodelled("non-integer slice field")
        return f"(ISlice {cslice(x)})"
    if isinstance(x, Integral):
        return f"(IInt {cz(x)})"
    raise Unmodelled("index element " + type(x).__name__)


def czl(xs):
    return clist(xs, cz)


def czll(xss):
    return clist(xss, czl)


def cnatl(xs):
    return clist(xs, cnat)


class Reifier:
    """dask_array expression -> Coq `expr` literal.  Names, scalar operands and Elemwise
    operator tuples are interned as integers (shared by before and after)."""

    STRUCT_CLASSES = {"Elemwise", "Transpose", "SliceSlicesIntegers", "Rechunk", "ExpandDims", "Concatenate", "Arange",
                      "FromArray", "Stack", "Ones", "Zeros", "Full", "TasksRechunk", "BroadcastTo"}

    def __init__(self, opaque=(), strict=()):
        self.names, self.consts, self.ops, self.specs = {}, {}, {}, {}
        self.opaque = set(opaque)      # _names reified as leaves whatever their class
        self.strict = set(strict)      # _names that must not silently degrade to a leaf (the rule looks inside them)
        self.sources = {}              # id(source array) -> Coq `src` term
        self.hints = []                # (base array, base term, region): candidate eager copies base[region]
        self._keep = []                # keeps the interned arrays alive (ids are reused otherwise)

    def source(self, arr):
        key = id(arr)
        if key in self.sources:
            return self.sources[key]
        term = None
        if type(arr) is np.ndarray:
            # equal NumPy sources are the same source (from_array names them by content, and the expression
            # cache may hand back a node built on an equal array object)
            for other in self._keep:
                if (type(other) is np.ndarray and other.shape == arr.shape and other.dtype == arr.dtype
                        and np.array_equal(other, arr)):
                    term = self.sources[id(other)]
                    break
        if term is None and type(arr) is np.ndarray:
            for base, bterm, region in self.hints:
                try:
                    cand = base[region]
                except Exception:  # noqa: BLE001
                    continue
                if cand.shape == arr.shape and cand.dtype == arr.dtype and np.array_equal(cand, arr):
                    term = f"(SSliced {bterm} {clist(region, cslice)})"
                    break
        if term is None:
            shape = getattr(arr, "shape", None)
            if shape is None or not all(isinstance(n, Integral) for n in shape):
                raise Unmodelled("source without a shape")
            term = f"(SBase {len(self.sources) + 1} {czl(shape)})"
        self.sources[key] = term
        self._keep.append(arr)
        return term

    @staticmethod
    def _intern(table, key):
        if key not in table:
            table[key] = len(table) + 1
        return table[key]

    @staticmethod
    def _int_shape(e):
        shape = tuple(e.shape)
        if not all(isinstance(n, Integral) for n in shape):
            raise Unmodelled("unknown shape")
        return [int(n) for n in shape]

    @staticmethod
    def _int_chunks(chunks):
        out = []
        for dim in chunks:
            if not all(isinstance(c, Integral) for c in dim):
                raise Unmodelled("unknown chunks")
            out.append([int(c) for c in dim])
        return out

    def leaf(self, e):
        return f"(ELeaf {self._intern(self.names, e._name)} {czl(self._int_shape(e))} {czll(self._int_chunks(e.chunks))})"

    def child(self, e):
        """structural where the node is modelled, an opaque leaf otherwise"""
        try:
            return self.node(e)
        except Unmodelled:
            if e._name in self.strict and type(e).__name__ in self.STRUCT_CLASSES and e._name not in self.opaque:
                raise      # a modelled class with unmodelled operands (e.g. Elemwise with where=): the instance is unmodelled
            return self.leaf(e)

    def elemwise(self, e, before_ops=None):
        """Elemwise -> EElemwise.  With before_ops (the operands of the rule's `before` Elemwise, position by position):
        an operand the rule replaced (different _name at its position) is reified structurally even when its _name is
        that of an opaque operand (a rechunk of operand j may be the very node that is operand i)."""
        from dask_array._core_utils import is_scalar_for_elemwise
        from dask_array._expr import ArrayExpr
        operands = list(e.elemwise_args)
        op = self._intern(self.ops, (repr(e.op), repr(e.operand("dtype")), repr(e.operand("name")),
                                     repr(e.operand("_user_kwargs"))))
        if e.where is not True or e.out is not None:
            # where= and out= both arrays: they take part block by block like the other operands (op < 0 marks it)
            if not (isinstance(e.where, ArrayExpr) and isinstance(e.out, ArrayExpr)):
                raise Unmodelled("Elemwise with where=/out= (not both arrays)")
            operands += [e.where, e.out]
            op = -op
        args = []
        for i, a in enumerate(operands):
            if isinstance(a, ArrayExpr):
                replaced = (before_ops is not None and i < len(before_ops) and hasattr(before_ops[i], "_name")
                            and before_ops[i]._name != a._name and a._name in self.opaque)
                if replaced:
                    self.opaque.discard(a._name)
                    try:
                        args.append(self.child(a))
                    finally:
                        self.opaque.add(a._name)
                else:
                    args.append(self.child(a))
            elif is_scalar_for_elemwise(a):
                args.append(f"(EConst {self._intern(self.consts, (type(a).__name__, repr(a)))})")
            else:
                raise Unmodelled("Elemwise operand " + type(a).__name__)
        return f"(EElemwise {cz(op)} {clist(args, str)})"

    def node(self, e):
        from dask_array._blockwise import Elemwise
        from dask_array._core_utils import is_scalar_for_elemwise
        from dask_array._expr import ArrayExpr
        from dask_array._rechunk import Rechunk
        from dask_array.creation._arange import Arange
        from dask_array.io._from_array import FromArray
        from dask_array.manipulation._expand import ExpandDims
        from dask_array.manipulation._transpose import Transpose
        from dask_array.slicing._basic import SliceSlicesIntegers
        from dask_array.stacking._concatenate import Concatenate
        from dask_array.stacking._stack import Stack
        from dask_array._rechunk import TasksRechunk
        from dask_array._broadcast_to import BroadcastTo
        from dask_array.creation._ones_zeros import Full, Ones, Zeros
        t = type(e)
        if e._name in self.opaque:
            raise Unmodelled("opaque by request")
        if t is Stack:
            args = e.args
            return f"(EStack {self.child(args[0])} {cnat(e.axis)} {clist([self.child(a) for a in args[1:]], str)})"
        if t in (Ones, Zeros, Full):
            # the constant is identified by (class, dtype, meta, kwargs): everything but shape, chunks and name
            kw = e.operand("kwargs")
            fid = self._intern(self.consts, ("full", t.__name__, repr(e.operand("dtype")), repr(e.operand("meta")),
                                             repr(sorted(kw.items(), key=lambda kv: kv[0])) if isinstance(kw, dict) else repr(kw)))
            return f"(EFull {fid} {czl(self._int_shape(e))} {czll(self._int_chunks(e.chunks))})"
        if t is TasksRechunk:
            tb = (e.threshold, e.block_size_limit)
            prm = 0 if tb == (None, None) else self._intern(self.specs, repr(tb))
            return f"(ETasksRechunk {self.child(e.array)} {czll(self._int_chunks(e.chunks))} {prm})"
        if t is BroadcastTo:
            shp = e.operand("_shape")
            if not all(isinstance(n, Integral) for n in shp):
                raise Unmodelled("unknown shape")
            shp = [int(n) for n in shp]
            ch = self._int_chunks(e.chunks)
            ish = self._int_shape(e.array)
            # a BroadcastTo whose operand no longer broadcasts to its recorded _shape (a rewrite below changed the operand's
            # shape or block grid: known findings F20 / F24) is outside every theorem's hypotheses (wfb): not modelled
            if (len(ish) > len(shp) or any(a != 1 and a != n for a, n in zip(ish, shp[len(shp) - len(ish):]))
                    or [sum(c) for c in ch] != shp):
                raise Unmodelled("ill-formed BroadcastTo (operand does not broadcast to _shape)")
            return f"(EBroadcastTo {self.child(e.array)} {czl(shp)} {czll(ch)})"
        if t is FromArray:
            arr = e.array
            if not hasattr(arr, "dtype"):
                raise Unmodelled("FromArray source without dtype")
            region = e.operand("_region")
            other = self._intern(self.specs, repr((e.operand("lock"), e.operand("getitem"), e.operand("inline_array"),
                                                   e.operand("meta") is None, e.operand("asarray"), e.operand("fancy"))))
            creg = "None" if region is None else f"(Some {clist(region, cslice)})"
            nd = type(arr) in (np.ndarray, np.ma.core.MaskedArray)
            return (f"(ESource {self.source(arr)} {czll(self._int_chunks(e.chunks))} {creg} {cbool(nd)} "
                    f"{cz(arr.dtype.itemsize)} {other})")
        if t is SliceSlicesIntegers:
            return (f"(ESlice {self.child(e.array)} {clist(e.index, cpidx)} "
                    f"{cbool(bool(e.allow_getitem_optimization))})")
        if t is Transpose:
            return f"(ETranspose {self.child(e.array)} {cnatl(e.axes)})"
        if t is Elemwise:
            return self.elemwise(e)
        if t is Rechunk:
            # canonical ids: 0 = the raw _chunks operand is the resolved tuple / all of threshold, limit, method are None
            raw = e.operand("_chunks")
            spec = 0 if (isinstance(raw, tuple) and raw == e.chunks) else self._intern(self.specs, repr(raw))
            tbm = (e.threshold, e.block_size_limit, e.method)
            prm = 0 if tbm == (None, None, None) else self._intern(self.specs, repr(tbm))
            return (f"(ERechunk {self.child(e.array)} {spec} {czll(self._int_chunks(e.chunks))} {prm} "
                    f"{cbool(bool(e.balance))} {cbool(e.method == 'p2p')})")
        if t is ExpandDims:
            return f"(EExpandDims {self.child(e.array)} {cnatl(e.axes)})"
        if t is Concatenate:
            args = e.args
            return f"(EConcat {self.child(args[0])} {cnat(e.axis)} {clist([self.child(a) for a in args[1:]], str)})"
        if t is Arange:
            if not (isinstance(e.start, Integral) and isinstance(e.step, Integral)) or e.like is not None:
                raise Unmodelled("non-integer arange")
            ch = self._int_chunks(e.chunks)
            return f"(EArange {cz(e.start)} {cz(e.step)} {cz(e.num_rows)} {czl(ch[0])})"
        raise Unmodelled(t.__name__)


def classify(rule, before, after):
    """(rule hook name, before, after) -> modelled rule key or None"""
    from dask_array._blockwise import Elemwise
    from dask_array._rechunk import Rechunk
    from dask_array.creation._arange import Arange
    from dask_array.io._from_array import FromArray
    from dask_array.manipulation._expand import ExpandDims
    from dask_array.manipulation._transpose import Transpose
    from dask_array.slicing._basic import SliceSlicesIntegers
    from dask_array.stacking._concatenate import Concatenate
    from dask_array.stacking._stack import Stack
    from dask_array.creation._ones_zeros import Full, Ones, Zeros
    from dask_array._broadcast_to import BroadcastTo
    tb = type(before)
    if rule == "Elemwise._lower" and tb is Elemwise:
        return "elemwise_lower"
    if rule == "Rechunk._lower" and tb is Rechunk:
        return "rechunk_lower"
    if rule == "SliceSlicesIntegers._simplify_down" and tb is SliceSlicesIntegers:
        return "slice_down"
    if rule == "Transpose._simplify_down" and tb is Transpose:
        return "transpose_down"
    if rule == "Rechunk._simplify_down" and tb is Rechunk:
        return "rechunk_noop"
    if rule.endswith("._simplify_up"):
        child = getattr(before, "array", None)
        tc = type(child)
        if tb is SliceSlicesIntegers:
            if rule == "Elemwise._simplify_up" and tc is Elemwise:
                return "slice_elemwise"
            if rule == "Transpose._simplify_up" and tc is Transpose:
                return "slice_transpose"
            if rule == "ExpandDims._simplify_up" and tc is ExpandDims:
                return "slice_expand_dims"
            if rule == "Arange._simplify_up" and tc is Arange:
                return "slice_arange"
            if rule == "FromArray._simplify_up" and tc is FromArray:
                return "slice_fromarray"
            if rule == "Concatenate._simplify_up" and tc is Concatenate:
                return "slice_concat"
            if rule == "Stack._simplify_up" and tc is Stack:
                return "slice_stack"
            if rule == "BroadcastTo._simplify_up" and tc is BroadcastTo:
                return "slice_broadcast_to"
            if rule in ("Ones._simplify_up", "Zeros._simplify_up", "Full._simplify_up") and tc in (Ones, Zeros, Full):
                return "slice_full"
        if tb is Rechunk and rule == "FromArray._simplify_up" and tc is FromArray:
            return "rechunk_fromarray"
        if tb is Rechunk and rule == "Elemwise._simplify_up" and tc is Elemwise:
            return "rechunk_elemwise"
        if tb is Rechunk and rule == "Rechunk._simplify_up" and tc is Rechunk:
            return "rechunk_rechunk"
        if tb is Rechunk and rule == "Concatenate._simplify_up" and tc is Concatenate:
            return "rechunk_concat"
        if tb is Rechunk and rule == "ExpandDims._simplify_up" and tc is ExpandDims:
            return "rechunk_expand_dims"
        if tb is Rechunk and rule == "Transpose._simplify_up" and tc is Transpose:
            return "rechunk_transpose"
    return None


def pushdown_limit():
    from dask_array.io import _from_array
    return int(_from_array._NUMPY_SLICE_PUSHDOWN_NBYTES_LIMIT)


def eager_copy_hints(r, before):
    """FromArray._accept_slice copies a small NumPy source eagerly (source[new_region].copy()): the candidate
    regions, computed here from the slice node alone (integers read as i:i+1, padded with full slices)."""
    fa = before.array
    base = fa.array
    if type(base) is not np.ndarray or fa.operand("_region") is not None:
        return []
    idx = tuple(before.index) + (slice(None),) * (base.ndim - len(before.index))
    region = tuple(slice(i, i + 1) if isinstance(i, Integral) else i for i in idx)
    return [(base, r.sources[id(base)], region)]


def elemwise_lower_oracle(before):
    """Elemwise._lower: the unified layout chunkss chosen by unify_chunks_expr, per OUTPUT axis (the index labels of an
    Elemwise are range(ndim)[::-1])"""
    from dask_array._expr import unify_chunks_expr
    with warnings.catch_warnings():
        warnings.simplefilter("ignore")
        chunkss, _, _ = unify_chunks_expr(*before.args)
    n = len(before.out_ind)
    out = []
    for pos in range(n):
        c = chunkss.get(n - 1 - pos)
        if c is None or not all(isinstance(x, Integral) for x in c):
            raise Unmodelled("unified chunks unknown")
        out.append([int(x) for x in c])
    return czll(out)


def rechunk_lower_oracle(before):
    """Rechunk._lower: what _choose_rechunk_method answers (configuration / distributed client)"""
    from dask_array._rechunk import _choose_rechunk_method
    if before.method is not None or before.threshold is not None or before.block_size_limit is not None:
        raise Unmodelled("rechunk with threshold/block_size_limit/method")
    try:
        return _choose_rechunk_method(before.array.chunks, before.chunks, threshold=before.threshold) == "p2p"
    except Exception:  # noqa: BLE001
        raise Unmodelled("rechunk method choice raises")


def concat_parts_opaque(concat):
    """Rechunk._pushdown_through_concatenate reads the parts' chunks and asks reads whether they absorb a rechunk:
    NumPy reads stay structural, every other part is an opaque leaf"""
    from dask_array.io._from_array import FromArray
    names = []
    for a in concat.args:
        if type(a) is FromArray:
            if type(a.array) not in (np.ndarray, np.ma.core.MaskedArray):
                raise Unmodelled("rechunk through concatenate: read from a store (native chunks)")
        elif getattr(a, "_can_rechunk_pushdown", False):
            raise Unmodelled("rechunk through concatenate: IO part " + type(a).__name__)
        else:
            names.append(a._name)
    return names


def rechunk_lower_opaque(before):
    """Rechunk._lower looks at the child's chunks only, except for a FromArray (read re-cut), a slice (composition:
    the slice's own child is then the opaque one) and a Concatenate (redistribution: not modelled)"""
    from dask_array.io._from_array import FromArray
    from dask_array.slicing._basic import SliceSlicesIntegers
    from dask_array.stacking._concatenate import Concatenate
    child = before.array
    if type(child) is FromArray:
        if type(child.array) not in (np.ndarray, np.ma.core.MaskedArray):
            raise Unmodelled("rechunk_lower: read from a store (native chunks)")
        return []
    if isinstance(child, Concatenate):
        return concat_parts_opaque(child)
    if type(child) is SliceSlicesIntegers:
        return [child.array._name]
    return [child._name]


class RuleCheck:
    """collects instances, then validates them in one Coq batch"""

    def __init__(self, chk):
        self.chk = chk
        self.cases, self.info = [], []
        self.stats = {}
        self.seen = set()

    def bump(self, rule, what):
        d = self.stats.setdefault(rule, {"matched": 0, "mismatched": 0, "unmodelled": 0, "wf_false": 0})
        d[what] += 1
        self.chk.count(f"rule_instance:{rule}:{what}")

    def add(self, hook, before, after, origin):
        key = classify(hook, before, after)
        if key is None:
            self.bump(hook + "(" + type(before).__name__ + ")", "unmodelled")
            return False
        ident = (key, before._name, getattr(after, "_name", None))
        if ident in self.seen:
            return False
        self.seen.add(ident)
        # the no-op rechunk rule only looks at the child's chunks: the child is a leaf carrying them
        # (likewise the operands of an Elemwise a rechunk is pushed through)
        tgt, p2p = "[]", False
        if key == "rechunk_noop":
            opaque = [before.array._name]
        elif key == "rechunk_elemwise":
            opaque = [a._name for a in (*before.array.elemwise_args, before.array.where, before.array.out) if hasattr(a, "_name")]
        elif key == "elemwise_lower":
            opaque = [a._name for a in (*before.elemwise_args, before.where, before.out) if hasattr(a, "_name")]
        elif key == "slice_broadcast_to":
            opaque = [before.array.array._name]       # the new chunks are read off the (sliced) input's chunks
        elif key == "rechunk_transpose":
            opaque = [before.array.array._name]       # x.rechunk(..) compares with x's chunks
        else:
            opaque = ()
        child = getattr(before, "array", None)
        r = Reifier(opaque=opaque, strict=[child._name] if hasattr(child, "_name") else ())
        try:
            if key == "rechunk_lower":
                r.opaque = set(rechunk_lower_opaque(before))
            elif key == "rechunk_concat":
                r.opaque = set(concat_parts_opaque(before.array))
            elif key == "rechunk_transpose":
                raw = before.operand("_chunks")
                if not (isinstance(raw, tuple) and raw == before.chunks):
                    raise Unmodelled("rechunk through transpose: raw chunk spec is not the resolved tuple")
            if key == "elemwise_lower":
                tgt = elemwise_lower_oracle(before)
            elif key == "rechunk_lower":
                p2p = rechunk_lower_oracle(before)
            b = r.node(before)
            if key == "slice_fromarray":
                r.hints.extend(eager_copy_hints(r, before))
            if after is None:
                a = None
            elif key in ("elemwise_lower", "rechunk_elemwise") and type(after).__name__ == "Elemwise":
                src = before if key == "elemwise_lower" else before.array
                a = r.elemwise(after, before_ops=[*src.elemwise_args, src.where, src.out]
                               if (src.where is not True or src.out is not None) else list(src.elemwise_args))
            else:
                a = r.child(after)
        except Unmodelled as e:
            self.bump(key, "unmodelled")
            self.chk.count("rule_unmodelled_reason:" + str(e)[:40])
            return False
        lim = pushdown_limit()
        self.cases.append(ctuple(cnat(RULES.index(key)), cz(lim), tgt, cbool(p2p), b, f"(Some {a})" if a is not None else "None"))
        self.info.append({"rule": key, "hook": hook, "origin": origin, "before": exprs.tree(before), "limit": lim,
                          "tgt": tgt, "p2p": p2p, "after": exprs.tree(after) if after is not None else "None",
                          "before_coq": b, "after_coq": a if a is not None else "None"})
        return True

    def flush(self):
        chk = self.chk
        if not self.cases:
            chk.extra["rule_instances"] = self.stats
            return
        # one Coq batch for "well-formed and the model computes exactly this after"; the rare failures are
        # classified (hypotheses vs rule function) by a second, small batch
        bad, _ = coq_eval_cases(HEADER, CASE_T, CHK_BOTH, self.cases, chunk=200)
        bad_rule, bad_wf = set(), set()
        if bad:
            sub = [self.cases[i] for i in bad]
            r2, _ = coq_eval_cases(HEADER, CASE_T, CHK_RULE, sub, chunk=200)
            bad_rule = {bad[j] for j in r2}
            bad_wf = set(bad) - bad_rule
        shown = 0
        for i, inf in enumerate(self.info):
            if i in bad_rule:
                self.bump(inf["rule"], "mismatched")
                if shown < 5:
                    shown += 1
                    fn = (RULE_FN[inf["rule"]].replace(" lim", " " + cz(inf.get("limit", 0)))
                          .replace(" tgt", " " + inf.get("tgt", "[]")).replace(" p2p", " " + cbool(inf.get("p2p", False))))
                    model = coq_eval_expr(HEADER, [f"{fn} {inf['before_coq']}"])[0]
                    chk.tie_break("correspondence:rule " + inf["rule"], {**inf, "model_after": model})
                else:
                    chk.tie_break("correspondence:rule " + inf["rule"], {k: inf[k] for k in ("rule", "hook", "before", "after")})
            elif i in bad_wf:
                # the implementation fired the rule on an instance outside the theorem's hypotheses
                self.bump(inf["rule"], "wf_false")
                chk.tie_break("correspondence:wf " + inf["rule"], inf)
            else:
                self.bump(inf["rule"], "matched")
                d = self.stats[inf["rule"]]
                if inf["origin"] == "captured":
                    d["matched_captured"] = d.get("matched_captured", 0) + 1
                chk.traces_validated += 1
        # advertised chunks, model level
        sel = [i for i, inf in enumerate(self.info)
               if inf["rule"] in CHUNK_RULES and inf["after_coq"] != "None" and i not in bad_rule and i not in bad_wf]
        if sel:
            badc, _ = coq_eval_cases(HEADER, CASE_T, CHK_CHUNKS, [self.cases[i] for i in sel], chunk=200)
            chk.count("rule_chunks_compared", len(sel))
            for j in badc:
                inf = self.info[sel[j]]
                chk.violation(f"rewrite {inf['rule']} changes the advertised chunks (model level)",
                              {k: inf[k] for k in ("rule", "hook", "before", "after", "before_coq", "after_coq")},
                              signature={"class": "rewrite-changes-chunks-model", "rule": inf["rule"]})
        chk.extra["rule_instances"] = self.stats
        chk.extra["rule_mismatch_samples"] = [
            {k: inf[k] for k in ("rule", "hook", "origin", "before_coq", "after_coq")}
            for i, inf in enumerate(self.info) if i in bad_rule or i in bad_wf][:5]


# --------------------------------------------------------------------------
# directed stream
def _rand_shape(rng, rank=None, dims=(1, 1, 2, 3, 4, 5, 6, 0)):
    rank = rank or rng.choice([1, 1, 2, 2, 3])
    return tuple(rng.choice(dims[:-1] if rng.random() < 0.93 else dims) for _ in range(rank))


def _src(da, progs, rng, shape, base=0):
    data = np.arange(int(np.prod(shape)), dtype="int64").reshape(shape) + base
    return da.from_array(data, chunks=tuple(progs.rand_chunks_for(rng, n) for n in shape))


def _opaque(da, x):
    """a node no slice/rechunk/transposition is pushed into: keeps the rule under test at the top"""
    return da.cumsum(x, axis=0) if x.ndim else x


def directed_instances(chk, da, progs, n):
    """yields (hook name, before expr, after expr) from direct invocations of the hooks"""
    from dask_array._rechunk import Rechunk
    from dask_array.manipulation._transpose import Transpose
    from dask_array.slicing._basic import SliceSlicesIntegers
    rng = chk.rng
    kinds = ["slice_slice", "slice_identity", "slice_elemwise", "slice_elemwise", "slice_transpose", "slice_transpose",
             "transpose_transpose", "transpose_elemwise", "rechunk_rechunk", "rechunk_noop", "slice_expand", "slice_arange",
             "slice_fromarray", "slice_fromarray", "rechunk_fromarray",
             "rechunk_elemwise", "slice_concat", "slice_concat", "slice_stack", "slice_full", "elemwise_lower", "rechunk_lower",
             "rechunk_lower", "slice_broadcast_to", "rechunk_concat", "rechunk_view"]
    for k in range(n):
        kind = kinds[k % len(kinds)]
        with warnings.catch_warnings():
            warnings.simplefilter("ignore")
            try:
                if kind == "slice_slice":
                    shape = _rand_shape(rng)
                    x = _opaque(da, _src(da, progs, rng, shape))
                    a = progs.rand_index(rng, x.shape, allow_none=False, neg_step=rng.random() < 0.3)
                    y = x[a]
                    if type(y.expr) is not SliceSlicesIntegers or y.ndim == 0:
                        continue
                    b = progs.rand_index(rng, y.shape, allow_none=False, neg_step=rng.random() < 0.3)
                    z = y[b]
                    e = z.expr
                    if type(e) is not SliceSlicesIntegers:
                        continue
                    yield "SliceSlicesIntegers._simplify_down", e, e._simplify_down()
                elif kind == "slice_identity":
                    shape = _rand_shape(rng)
                    x = _opaque(da, _src(da, progs, rng, shape))
                    idx = tuple(slice(None) if rng.random() < 0.8 else slice(0, None) for _ in shape)
                    e = SliceSlicesIntegers(x.expr, idx, True)
                    yield "SliceSlicesIntegers._simplify_down", e, e._simplify_down()
                elif kind == "slice_elemwise":
                    shape = _rand_shape(rng)
                    x = _opaque(da, _src(da, progs, rng, shape))
                    args = [x]
                    for j in range(rng.choice([0, 1, 1, 2])):
                        s2 = list(shape[rng.randint(0, len(shape)):]) if rng.random() < 0.5 else list(shape)
                        for q in range(len(s2)):
                            if rng.random() < 0.3:
                                s2[q] = 1
                        args.append(_opaque(da, _src(da, progs, rng, tuple(s2), base=100 * (j + 1))) if s2 else 7)
                    rng.shuffle(args)
                    if len(args) == 1:
                        y = da.negative(args[0]) if rng.random() < 0.5 else da.add(args[0], 3)
                    elif len(args) == 2:
                        y = getattr(da, rng.choice(["add", "subtract", "maximum"]))(*args)
                    else:
                        y = da.where(args[0] > 50, args[1], args[2])
                    idx = progs.rand_index(rng, y.shape, allow_none=False)
                    z = y[idx]
                    e = z.expr
                    from dask_array._blockwise import Elemwise
                    if type(e) is not SliceSlicesIntegers or type(e.array) is not Elemwise:
                        continue
                    yield "Elemwise._simplify_up", e, e.array._accept_slice(e)
                elif kind == "slice_transpose":
                    shape = _rand_shape(rng, rank=rng.choice([2, 2, 3, 3, 4]))
                    x = _opaque(da, _src(da, progs, rng, shape))
                    axes = list(range(len(shape)))
                    rng.shuffle(axes)
                    y = Transpose(x.expr, tuple(axes))
                    from dask_array._new_collection import new_collection
                    yc = new_collection(y)
                    idx = progs.rand_index(rng, yc.shape, allow_none=False)
                    e = yc[idx].expr
                    if type(e) is not SliceSlicesIntegers or type(e.array) is not Transpose:
                        continue
                    yield "Transpose._simplify_up", e, e.array._accept_slice(e)
                elif kind == "transpose_transpose":
                    shape = _rand_shape(rng, rank=rng.choice([2, 2, 3, 3, 4]))
                    x = _opaque(da, _src(da, progs, rng, shape))
                    p = list(range(len(shape)))
                    q = list(range(len(shape)))
                    if rng.random() < 0.8:
                        rng.shuffle(p)
                    if rng.random() < 0.8:
                        rng.shuffle(q)
                    inner = Transpose(x.expr, tuple(p)) if rng.random() < 0.7 else x.expr
                    e = Transpose(inner, tuple(q))
                    yield "Transpose._simplify_down", e, e._simplify_down()
                elif kind == "transpose_elemwise":
                    shape = _rand_shape(rng, rank=rng.choice([2, 2, 3]))
                    x = _opaque(da, _src(da, progs, rng, shape))
                    s2 = tuple(1 if rng.random() < 0.3 else n for n in shape)
                    if rng.random() < 0.25:
                        s2 = s2[1:]
                    y = da.add(x, _opaque(da, _src(da, progs, rng, s2, base=100))) if rng.random() < 0.8 else da.multiply(x, 2)
                    axes = list(range(len(shape)))
                    rng.shuffle(axes)
                    e = Transpose(y.expr, tuple(axes))
                    yield "Transpose._simplify_down", e, e._simplify_down()
                elif kind == "rechunk_rechunk":
                    shape = _rand_shape(rng, dims=(1, 2, 3, 4, 5, 6, 7, 8))
                    x = _opaque(da, _src(da, progs, rng, shape))
                    c1 = tuple(progs.rand_chunks_for(rng, n) for n in shape)
                    c2 = tuple(progs.rand_chunks_for(rng, n) for n in shape)
                    inner = Rechunk(x.expr, c1, None, None, False, None)
                    # (the public rechunk() always passes resolved chunk tuples and balance=False unless asked)
                    e = Rechunk(inner, c2, None, None, False, None)
                    yield "Rechunk._simplify_up", e, e._pushdown()
                elif kind == "rechunk_noop":
                    shape = _rand_shape(rng, dims=(1, 2, 3, 4, 5, 6, 7, 8))
                    x = _src(da, progs, rng, shape)
                    c = x.chunks if rng.random() < 0.6 else tuple(progs.rand_chunks_for(rng, n) for n in shape)
                    e = Rechunk(x.expr, c, None, None, False, None)
                    yield "Rechunk._simplify_down", e, e._simplify_down()
                elif kind == "slice_expand":
                    shape = _rand_shape(rng)
                    x = _opaque(da, _src(da, progs, rng, shape))
                    y = x
                    for _ in range(rng.choice([1, 1, 2])):
                        y = da.expand_dims(y, rng.randint(0, y.ndim))
                    from dask_array.manipulation._expand import ExpandDims
                    if type(y.expr) is not ExpandDims:
                        continue
                    idx = progs.rand_index(rng, y.shape, allow_none=False)
                    e = y[idx].expr
                    if type(e) is not SliceSlicesIntegers or type(e.array) is not ExpandDims:
                        continue
                    yield "ExpandDims._simplify_up", e, e.array._accept_slice(e)
                elif kind == "slice_arange":
                    n = rng.randint(0, 14)
                    start, step = rng.randint(-5, 5), rng.choice([1, 1, 2, 3, -1, -2])
                    x = da.arange(start, start + n * step, step, chunks=(progs.rand_chunks_for(rng, n),), dtype="int64")
                    if x.shape[0] == 0 and rng.random() < 0.7:
                        continue
                    idx = progs.rand_index(rng, x.shape, allow_none=False)
                    e = x[idx].expr
                    from dask_array.creation._arange import Arange
                    if type(e) is not SliceSlicesIntegers or type(e.array) is not Arange:
                        continue
                    yield "Arange._simplify_up", e, e.array._accept_slice(e)
                elif kind == "slice_fromarray":
                    from dask_array._new_collection import new_collection
                    from dask_array.io import _from_array
                    from dask_array.io._from_array import FromArray
                    shape = _rand_shape(rng)
                    x = _src(da, progs, rng, shape)
                    unit = rng.random() < 0.8
                    idx = progs.rand_index(rng, x.shape, allow_none=False, neg_step=False)
                    if unit:
                        idx = tuple(slice(i.start, i.stop) if isinstance(i, slice) else i for i in idx)
                    mode = rng.choice(["eager", "region", "region2"])
                    saved = _from_array._NUMPY_SLICE_PUSHDOWN_NBYTES_LIMIT
                    try:
                        if mode != "eager":
                            _from_array._NUMPY_SLICE_PUSHDOWN_NBYTES_LIMIT = -1     # forces the deferred-region branch
                        e = x[idx].expr
                        if type(e) is not SliceSlicesIntegers or type(e.array) is not FromArray:
                            continue
                        a = e.array._accept_slice(e)
                        if mode == "region2" and type(a) is FromArray and a.ndim:
                            y = new_collection(a)
                            idx2 = progs.rand_index(rng, y.shape, allow_none=False, neg_step=False)
                            idx2 = tuple(slice(i.start, i.stop) if isinstance(i, slice) else i for i in idx2)
                            e2 = y[idx2].expr
                            if type(e2) is SliceSlicesIntegers and type(e2.array) is FromArray:
                                yield "FromArray._simplify_up", e2, e2.array._accept_slice(e2)
                                continue
                        yield "FromArray._simplify_up", e, a
                    finally:
                        _from_array._NUMPY_SLICE_PUSHDOWN_NBYTES_LIMIT = saved
                elif kind == "rechunk_elemwise":
                    shape = _rand_shape(rng, dims=(1, 2, 3, 4, 5, 6, 7, 8))
                    x = _src(da, progs, rng, shape)
                    s2 = tuple(1 if rng.random() < 0.3 else n for n in shape)
                    if rng.random() < 0.3:
                        s2 = s2[rng.randint(0, len(s2)):]
                    y = da.add(x, _src(da, progs, rng, s2, base=100)) if (s2 and rng.random() < 0.8) else da.multiply(x, 2)
                    c = tuple(progs.rand_chunks_for(rng, n) for n in y.shape)
                    e = Rechunk(y.expr, c, None, None, False, None)
                    from dask_array._blockwise import Elemwise
                    if type(e.array) is not Elemwise:
                        continue
                    yield "Elemwise._simplify_up", e, e._pushdown()
                elif kind in ("slice_concat", "slice_stack"):
                    from dask_array._new_collection import new_collection
                    from dask_array.stacking._concatenate import Concatenate
                    from dask_array.stacking._stack import Stack
                    shape = list(_rand_shape(rng))
                    k = rng.choice([2, 2, 3, 4])
                    if kind == "slice_concat":
                        axis = rng.randrange(len(shape))
                        parts = []
                        for j in range(k):
                            s2 = list(shape)
                            s2[axis] = rng.choice([1, 1, 2, 3, 4, 5])
                            parts.append(_opaque(da, _src(da, progs, rng, tuple(s2), base=100 * j)))
                        y = da.concatenate(parts, axis=axis)
                        cls = Concatenate
                    else:
                        axis = rng.randint(0, len(shape))
                        parts = [_opaque(da, _src(da, progs, rng, tuple(shape), base=100 * j)) for j in range(k)]
                        y = da.stack(parts, axis=axis)
                        cls = Stack
                    if type(y.expr) is not cls:
                        continue
                    r0 = rng.random()
                    if r0 < 0.55:      # slices only, unit steps on the joined axis: the accepted family
                        idx = progs.rand_index(rng, y.shape, allow_none=False, allow_int=False, neg_step=rng.random() < 0.3)
                        idx = list(idx)
                        if axis < len(idx) and isinstance(idx[axis], slice) and rng.random() < 0.85:
                            idx[axis] = slice(idx[axis].start, idx[axis].stop)
                        idx = tuple(idx)
                    else:              # anything: integers, steps, empty selections (declines included)
                        idx = progs.rand_index(rng, y.shape, allow_none=False, neg_step=rng.random() < 0.3)
                    e = y[idx].expr
                    if type(e) is not SliceSlicesIntegers or type(e.array) is not cls:
                        continue
                    yield cls.__name__ + "._simplify_up", e, e.array._accept_slice(e)
                elif kind == "rechunk_view":
                    from dask_array.manipulation._expand import ExpandDims
                    shape = _rand_shape(rng, dims=(1, 2, 3, 4, 5, 6, 7, 8))
                    x = _opaque(da, _src(da, progs, rng, shape))
                    if rng.random() < 0.5:
                        axes = list(range(len(shape)))
                        rng.shuffle(axes)
                        y = Transpose(x.expr, tuple(axes))
                        hook = "Transpose._simplify_up"
                    else:
                        y = x
                        for _ in range(rng.choice([1, 1, 2])):
                            y = da.expand_dims(y, rng.randint(0, y.ndim))
                        y = y.expr
                        if type(y) is not ExpandDims:
                            continue
                        hook = "ExpandDims._simplify_up"
                    c = tuple(progs.rand_chunks_for(rng, n) for n in y.shape)
                    e = Rechunk(y, c, None, None, False, None)
                    yield hook, e, e._pushdown()
                elif kind == "rechunk_concat":
                    from dask_array.stacking._concatenate import Concatenate
                    shape = list(_rand_shape(rng, dims=(1, 2, 3, 4, 5, 6, 7, 8)))
                    axis = rng.randrange(len(shape))
                    parts = []
                    for j in range(rng.choice([2, 2, 3])):
                        s2 = list(shape)
                        s2[axis] = rng.choice([1, 2, 3, 4, 5, 6])
                        p = _src(da, progs, rng, tuple(s2), base=100 * j)
                        parts.append(p if rng.random() < 0.5 else _opaque(da, p))
                    y = da.concatenate(parts, axis=axis)
                    if type(y.expr) is not Concatenate:
                        continue
                    c = list(y.chunks)
                    for q in range(len(c)):
                        r0 = rng.random()
                        if q == axis and r0 < 0.6:
                            c[q] = progs.rand_chunks_for(rng, y.shape[q])
                        elif q != axis and r0 < 0.5:
                            c[q] = progs.rand_chunks_for(rng, y.shape[q])
                    e = Rechunk(y.expr, tuple(c), None, None, False, None)
                    if rng.random() < 0.5:
                        yield "Concatenate._simplify_up", e, e._pushdown()
                    else:
                        yield "Rechunk._lower", e, e._lower()
                elif kind == "slice_broadcast_to":
                    from dask_array._broadcast_to import BroadcastTo
                    shape = _rand_shape(rng)
                    s2 = tuple(1 if rng.random() < 0.35 else n for n in shape)
                    x = _opaque(da, _src(da, progs, rng, s2))
                    new = tuple(rng.choice([1, 2, 3]) for _ in range(rng.choice([0, 0, 1, 2])))
                    target = new + tuple(rng.choice([1, 2, 3, 4]) if (a == 1 and rng.random() < 0.8) else n for a, n in zip(s2, shape))
                    y = da.broadcast_to(x, target)
                    if type(y.expr) is not BroadcastTo:
                        continue
                    if rng.random() < 0.6:
                        idx = progs.rand_index(rng, y.shape, allow_none=False, allow_int=False, neg_step=False)
                        idx = tuple(slice(i.start, i.stop) for i in idx)
                    else:
                        idx = progs.rand_index(rng, y.shape, allow_none=False)
                    e = y[idx].expr
                    if type(e) is not SliceSlicesIntegers or type(e.array) is not BroadcastTo:
                        continue
                    yield "BroadcastTo._simplify_up", e, e.array._accept_slice(e)
                elif kind == "slice_full":
                    from dask_array.creation._ones_zeros import BroadcastTrick
                    shape = _rand_shape(rng)
                    chunks = tuple(progs.rand_chunks_for(rng, n) for n in shape)
                    f = rng.choice(["ones", "zeros", "full"])
                    y = da.full(shape, 7, chunks=chunks, dtype="int64") if f == "full" else getattr(da, f)(shape, chunks=chunks, dtype="int64")
                    idx = progs.rand_index(rng, y.shape, allow_none=False)
                    e = y[idx].expr
                    if type(e) is not SliceSlicesIntegers or not isinstance(e.array, BroadcastTrick):
                        continue
                    yield type(e.array).__name__ + "._simplify_up", e, e.array._accept_slice(e)
                elif kind == "elemwise_lower":
                    from dask_array._blockwise import Elemwise
                    shape = _rand_shape(rng, dims=(1, 2, 3, 4, 5, 6, 7, 8))
                    x = _src(da, progs, rng, shape)
                    s2 = tuple(1 if rng.random() < 0.25 else n for n in shape)
                    if rng.random() < 0.3:
                        s2 = s2[rng.randint(0, len(s2)):]
                    r0 = rng.random()
                    if r0 < 0.12:
                        # the rechunk the unification inserts for x is the very node that is the other operand
                        y = da.add(x.rechunk(tuple(progs.rand_chunks_for(rng, n) for n in shape)), x)
                    elif r0 < 0.6 and s2:
                        y = da.add(x, _src(da, progs, rng, s2, base=100))
                    elif r0 < 0.8 and s2:
                        y = da.where(_src(da, progs, rng, s2, base=100) > 103, x, _src(da, progs, rng, shape, base=200))
                    else:
                        y = da.multiply(x, 2)
                    e = y.expr
                    if type(e) is not Elemwise:
                        continue
                    yield "Elemwise._lower", e, e._lower()
                elif kind == "rechunk_lower":
                    shape = _rand_shape(rng, dims=(1, 2, 3, 4, 5, 6, 7, 8, 9, 12))
                    r0 = rng.random()
                    if r0 < 0.25:
                        x = _src(da, progs, rng, shape)                   # a NumPy read: re-cut
                    elif r0 < 0.45:
                        x = _opaque(da, _src(da, progs, rng, shape))
                    else:                                                 # a slice of an opaque node: composition
                        base = _opaque(da, _src(da, progs, rng, shape))
                        idx = progs.rand_index(rng, base.shape, allow_none=False, neg_step=False)
                        if rng.random() < 0.85:
                            idx = tuple(slice(i.start, i.stop) if isinstance(i, slice) else i for i in idx)
                        x = base[idx]
                        if type(x.expr) is not SliceSlicesIntegers or x.ndim == 0:
                            continue
                    if rng.random() < 0.15:
                        c = x.chunks
                    else:
                        c = tuple(progs.rand_chunks_for(rng, n) for n in x.shape)
                    e = Rechunk(x.expr, c, None, None, rng.random() < 0.1, None)
                    yield "Rechunk._lower", e, e._lower()
                elif kind == "rechunk_fromarray":
                    shape = _rand_shape(rng, dims=(1, 2, 3, 4, 5, 6, 7, 8))
                    x = _src(da, progs, rng, shape)
                    c = tuple(progs.rand_chunks_for(rng, n) for n in shape)
                    e = Rechunk(x.expr, c, None, None, False, None)
                    if e.chunks == x.chunks:
                        continue
                    yield "FromArray._simplify_up", e, e._pushdown()
            except (IndexError, ValueError, NotImplementedError) as exc:
                chk.count("directed-skipped:" + type(exc).__name__)
                continue


def balance_corpus(chk, da):
    """C02-A: Rechunk(Rechunk(x, c1, balance=True), c2) -> Rechunk(x, c2, balance=True) re-balances c2:
    the rewrite changes the advertised chunks (the model's rule keeps them: chunks = c2)."""
    x = da.from_array(np.arange(5), chunks=(5,))
    with warnings.catch_warnings():
        warnings.simplefilter("ignore")
        y = da.cumsum(x, 0).rechunk((4,), balance=True).rechunk((2,))
        before = y.expr
        after = before._pushdown()
        chk.case(("rule", "rechunk_rechunk", "balance-corpus"), nontrivial=True)
        if after is not None and after.chunks != before.chunks:
            chk.violation("Rechunk(Rechunk(x, c1, balance=True), c2) -> Rechunk(x, c2, balance=True) changes the advertised chunks",
                          {"program": "da.cumsum(da.from_array(np.arange(5), chunks=5), 0).rechunk(4, balance=True).rechunk(2)",
                           "chunks_before": before.chunks, "chunks_after": after.chunks},
                          signature={"class": "rewrite-changes-chunks", "rule": "rechunk_rechunk", "balance": "inner"})


def balance_pushdown_corpus(chk, da):
    """C02-B: Rechunk(view(x), c, balance=True) pushed through a Transpose / an Elemwise re-derives the operand rechunk
    from the RAW chunk spec and drops balance: the rewritten node advertises the un-balanced chunks (values unchanged).
    (The ExpandDims pushdown uses the settled self.chunks and keeps them.)"""
    progsrc = {
        "transpose": ("da.cumsum(da.from_array(np.arange(30).reshape(3, 10), chunks=(3, 10)), 0).T.rechunk((4, 3), balance=True)",
                      lambda: da.cumsum(da.from_array(np.arange(30).reshape(3, 10), chunks=(3, 10)), 0).T.rechunk((4, 3), balance=True)),
        "elemwise": ("(da.cumsum(da.from_array(np.arange(10), chunks=10), 0) + 1).rechunk(4, balance=True)",
                     lambda: (da.cumsum(da.from_array(np.arange(10), chunks=10), 0) + 1).rechunk(4, balance=True)),
    }
    for through, (text, build) in progsrc.items():
        with warnings.catch_warnings():
            warnings.simplefilter("ignore")
            before = build().expr
            after = before._pushdown()
        chk.case(("rule", "rechunk_" + through, "balance-corpus"), nontrivial=True)
        if after is not None and after.chunks != before.chunks:
            chk.violation(f"Rechunk({through}(x), c, balance=True) pushed through the {through} re-derives the rechunk from the raw "
                          "spec without balancing: the advertised chunks change",
                          {"program": text, "chunks_before": before.chunks, "chunks_after": after.chunks},
                          signature={"class": "rewrite-changes-chunks", "rule": "rechunk_" + through, "balance": "outer"})


def run_directed(chk, rc, da, progs, n):
    """directed stream: model correspondence + execution oracle for each instance"""
    balance_corpus(chk, da)
    balance_pushdown_corpus(chk, da)
    for hook, before, after in directed_instances(chk, da, progs, n):
        key = classify(hook, before, after) if after is not None else None
        if after is None:
            # the implementation declined: the model must decline too
            k2 = classify(hook, before, before)
            if k2 in NEW_RULES:
                if rc.add(hook, before, None, "directed(declined)"):
                    chk.count("rule_declined:" + k2)
                continue
            if k2 is not None:
                r = Reifier()
                try:
                    b = r.node(before)
                except Unmodelled:
                    continue
                rc.cases.append(ctuple(cnat(RULES.index(k2)), cz(pushdown_limit()), "[]", "false", b, "None"))
                rc.info.append({"rule": k2, "hook": hook, "origin": "directed(declined)", "before": exprs.tree(before),
                                "limit": pushdown_limit(), "after": "None", "before_coq": b, "after_coq": "None"})
                chk.count("rule_declined:" + k2)
            continue
        if not rc.add(hook, before, after, "directed"):
            continue
        chk.case(("rule", key, before._name), nontrivial=True,
                 sample={"rule": key, "before": exprs.tree(before), "after": exprs.tree(after)})
        try:
            vb = exprs.eval_expr(before)
        except Exception:  # noqa: BLE001
            chk.count("rule-skipped:before-raises")
            continue
        try:
            va = exprs.eval_expr(after)
        except Exception as e:  # noqa: BLE001
            chk.violation(f"directed rewrite {key} turned a computable expression into one that raises: {type(e).__name__}: {str(e)[:120]}",
                          {"rule": key, "before": exprs.tree(before), "after": exprs.tree(after)},
                          signature={"class": "directed-rewrite-raises", "rule": key})
            continue
        ok, why = exprs.same(va, vb)
        if not ok:
            chk.violation(f"directed rewrite {key} changed the denoted array ({why})",
                          {"rule": key, "before": exprs.tree(before), "after": exprs.tree(after),
                           "before_value": vb.tolist() if vb.size <= 40 else None,
                           "after_value": va.tolist() if va.size <= 40 else None},
                          signature={"class": "directed-rewrite-changes-value", "rule": key})
