"""C02 model correspondence — translation validation of fired rewrite instances.

Every rewrite instance (rule hook, before expression, after expression) whose rule is one of
the modelled ones (coq/theories/ExprRules.v) is reified into the Coq `expr` syntax and checked
INSIDE Coq:  wfb before = true  and  rule_fn before = Some after  (exact structural equality).
The soundness theorems of coq/Properties/C02.v then apply to the very instance that fired.

Two streams feed the check:
 * the rewrites captured while optimizing generated programs (harness/c02.py, exprs.capture_rewrites);
 * a directed stream: random operands for each modelled rule, the implementation's hook
   (`_simplify_down()`, `child._accept_slice(parent)`, `_pushdown()`) is invoked directly on
   expressions built through the public API; these instances are also executed (before vs
   after, un-optimized) as a property-level oracle.
"""
from __future__ import annotations

import warnings
from numbers import Integral

import numpy as np

import exprs
from common import cbool, clist, cnat, coq_eval_cases, coq_eval_expr, cslice, ctuple, cz

HEADER = "From DA Require Import PyBase Slicing NdArray ExprRules.\nOpen Scope Z_scope.\n"

# rule key -> index in apply_rule (Coq side)
RULES = ["slice_down", "slice_elemwise", "slice_transpose", "transpose_down", "rechunk_noop",
         "rechunk_rechunk", "slice_expand_dims", "slice_arange", "slice_fromarray", "rechunk_fromarray",
         "rechunk_elemwise"]
RULE_FN = {"slice_down": "rule_slice_down", "slice_elemwise": "rule_slice_elemwise",
           "slice_transpose": "rule_slice_transpose", "transpose_down": "rule_transpose_down",
           "rechunk_noop": "rule_rechunk_noop", "rechunk_rechunk": "rule_rechunk_rechunk",
           "slice_expand_dims": "rule_slice_expand_dims", "slice_arange": "rule_slice_arange",
           "slice_fromarray": "rule_slice_fromarray lim", "rechunk_fromarray": "rule_rechunk_fromarray",
           "rechunk_elemwise": "rule_rechunk_elemwise"}

APPLY_DEF = ("Definition apply_rule (r : nat) (lim : Z) (e : expr) : option expr :=\n  match r with\n"
             + "".join(f"  | {i}%nat => {RULE_FN[r]} e\n" for i, r in enumerate(RULES))
             + "  | _ => None\n  end.\n")
CASE_T = "nat * Z * expr * option expr"      # rule, _NUMPY_SLICE_PUSHDOWN_NBYTES_LIMIT in force, before, after
CHK_RULE = (APPLY_DEF + "Definition chk (c : nat * Z * expr * option expr) : bool := let '(r, lim, b, a) := c in "
            "oexpr_eqb (apply_rule r lim b) a.")
# the hypotheses of the rule's soundness theorem: wfb, plus the rule-specific normal-form hypothesis
HYPS_DEF = ("Definition hyps (r : nat) (b : expr) : bool :=\n  wfb b &&\n  match r with\n"
            f"  | {RULES.index('slice_expand_dims')}%nat => rule_hyps_slice_expand_dims b\n"
            f"  | {RULES.index('slice_fromarray')}%nat => rule_hyps_slice_fromarray b\n"
            "  | _ => true\n  end.\n")
CHK_BOTH = (APPLY_DEF + HYPS_DEF + "Definition chk (c : nat * Z * expr * option expr) : bool := let '(r, lim, b, a) := c in "
            "oexpr_eqb (apply_rule r lim b) a && match a with Some _ => hyps r b | None => true end.")


class Unmodelled(Exception):
    pass


def cpidx(x):
    if x is None:
        return "INone"
    if isinstance(x, slice):
        for f in (x.start, x.stop, x.step):
            if f is not None and not isinstance(f, Integral):
                raise Unmodelled("non-integer slice field")
        return f"(ISlice {cslice(x)})"
    if isinstance(x, Integral):
        return f"(IInt {cz(x)})"
    raise Unmodelled("index element " + type(x).__name__)


def czl(xs):
    return clist(xs, cz)


def czll(xss):
    return clist(xss, czl)


def cnatl(xs):
    return clist(xs, cnat)


class Reifier:
    """dask_array expression -> Coq `expr` literal.  Names, scalar operands and Elemwise
    operator tuples are interned as integers (shared by before and after)."""

    STRUCT_CLASSES = {"Elemwise", "Transpose", "SliceSlicesIntegers", "Rechunk", "ExpandDims", "Concatenate", "Arange",
                      "FromArray"}

    def __init__(self, opaque=(), strict=()):
        self.names, self.consts, self.ops, self.specs = {}, {}, {}, {}
        self.opaque = set(opaque)      # _names reified as leaves whatever their class
        self.strict = set(strict)      # _names that must not silently degrade to a leaf (the rule looks inside them)
        self.sources = {}              # id(source array) -> Coq `src` term
        self.hints = []                # (base array, base term, region): candidate eager copies base[region]
        self._keep = []                # keeps the interned arrays alive (ids are reused otherwise)

    def source(self, arr):
        key = id(arr)
        if key in self.sources:
            return self.sources[key]
        term = None
        if type(arr) is np.ndarray:
            # equal NumPy sources are the same source (from_array names them by content, and the expression
            # cache may hand back a node built on an equal array object)
            for other in self._keep:
                if (type(other) is np.ndarray and other.shape == arr.shape and other.dtype == arr.dtype
                        and np.array_equal(other, arr)):
                    term = self.sources[id(other)]
                    break
        if term is None and type(arr) is np.ndarray:
            for base, bterm, region in self.hints:
                try:
                    cand = base[region]
                except Exception:  # noqa: BLE001
                    continue
                if cand.shape == arr.shape and cand.dtype == arr.dtype and np.array_equal(cand, arr):
                    term = f"(SSliced {bterm} {clist(region, cslice)})"
                    break
        if term is None:
            shape = getattr(arr, "shape", None)
            if shape is None or not all(isinstance(n, Integral) for n in shape):
                raise Unmodelled("source without a shape")
            term = f"(SBase {len(self.sources) + 1} {czl(shape)})"
        self.sources[key] = term
        self._keep.append(arr)
        return term

    @staticmethod
    def _intern(table, key):
        if key not in table:
            table[key] = len(table) + 1
        return table[key]

    @staticmethod
    def _int_shape(e):
        shape = tuple(e.shape)
        if not all(isinstance(n, Integral) for n in shape):
            raise Unmodelled("unknown shape")
        return [int(n) for n in shape]

    @staticmethod
    def _int_chunks(chunks):
        out = []
        for dim in chunks:
            if not all(isinstance(c, Integral) for c in dim):
                raise Unmodelled("unknown chunks")
            out.append([int(c) for c in dim])
        return out

    def leaf(self, e):
        return f"(ELeaf {self._intern(self.names, e._name)} {czl(self._int_shape(e))} {czll(self._int_chunks(e.chunks))})"

    def child(self, e):
        """structural where the node is modelled, an opaque leaf otherwise"""
        try:
            return self.node(e)
        except Unmodelled:
            if e._name in self.strict and type(e).__name__ in self.STRUCT_CLASSES and e._name not in self.opaque:
                raise      # a modelled class with unmodelled operands (e.g. Elemwise with where=): the instance is unmodelled
            return self.leaf(e)

    def node(self, e):
        from dask_array._blockwise import Elemwise
        from dask_array._core_utils import is_scalar_for_elemwise
        from dask_array._expr import ArrayExpr
        from dask_array._rechunk import Rechunk
        from dask_array.creation._arange import Arange
        from dask_array.io._from_array import FromArray
        from dask_array.manipulation._expand import ExpandDims
        from dask_array.manipulation._transpose import Transpose
        from dask_array.slicing._basic import SliceSlicesIntegers
        from dask_array.stacking._concatenate import Concatenate
        t = type(e)
        if e._name in self.opaque:
            raise Unmodelled("opaque by request")
        if t is FromArray:
            arr = e.array
            if not hasattr(arr, "dtype"):
                raise Unmodelled("FromArray source without dtype")
            region = e.operand("_region")
            other = self._intern(self.specs, repr((e.operand("lock"), e.operand("getitem"), e.operand("inline_array"),
                                                   e.operand("meta") is None, e.operand("asarray"), e.operand("fancy"))))
            creg = "None" if region is None else f"(Some {clist(region, cslice)})"
            nd = type(arr) in (np.ndarray, np.ma.core.MaskedArray)
            return (f"(ESource {self.source(arr)} {czll(self._int_chunks(e.chunks))} {creg} {cbool(nd)} "
                    f"{cz(arr.dtype.itemsize)} {other})")
        if t is SliceSlicesIntegers:
            return (f"(ESlice {self.child(e.array)} {clist(e.index, cpidx)} "
                    f"{cbool(bool(e.allow_getitem_optimization))})")
        if t is Transpose:
            return f"(ETranspose {self.child(e.array)} {cnatl(e.axes)})"
        if t is Elemwise:
            if e.where is not True or e.out is not None:
                raise Unmodelled("Elemwise with where=/out=")
            op = self._intern(self.ops, (repr(e.op), repr(e.operand("dtype")), repr(e.operand("name")),
                                         repr(e.operand("_user_kwargs"))))
            args = []
            for a in e.elemwise_args:
                if isinstance(a, ArrayExpr):
                    args.append(self.child(a))
                elif is_scalar_for_elemwise(a):
                    args.append(f"(EConst {self._intern(self.consts, (type(a).__name__, repr(a)))})")
                else:
                    raise Unmodelled("Elemwise operand " + type(a).__name__)
            return f"(EElemwise {op} {clist(args, str)})"
        if t is Rechunk:
            # canonical ids: 0 = the raw _chunks operand is the resolved tuple / all of threshold, limit, method are None
            raw = e.operand("_chunks")
            spec = 0 if (isinstance(raw, tuple) and raw == e.chunks) else self._intern(self.specs, repr(raw))
            tbm = (e.threshold, e.block_size_limit, e.method)
            prm = 0 if tbm == (None, None, None) else self._intern(self.specs, repr(tbm))
            return (f"(ERechunk {self.child(e.array)} {spec} {czll(self._int_chunks(e.chunks))} {prm} "
                    f"{cbool(bool(e.balance))} {cbool(e.method == 'p2p')})")
        if t is ExpandDims:
            return f"(EExpandDims {self.child(e.array)} {cnatl(e.axes)})"
        if t is Concatenate:
            args = e.args
            return f"(EConcat {self.child(args[0])} {cnat(e.axis)} {clist([self.child(a) for a in args[1:]], str)})"
        if t is Arange:
            if not (isinstance(e.start, Integral) and isinstance(e.step, Integral)) or e.like is not None:
                raise Unmodelled("non-integer arange")
            ch = self._int_chunks(e.chunks)
            return f"(EArange {cz(e.start)} {cz(e.step)} {cz(e.num_rows)} {czl(ch[0])})"
        raise Unmodelled(t.__name__)


def classify(rule, before, after):
    """(rule hook name, before, after) -> modelled rule key or None"""
    from dask_array._blockwise import Elemwise
    from dask_array._rechunk import Rechunk
    from dask_array.creation._arange import Arange
    from dask_array.io._from_array import FromArray
    from dask_array.manipulation._expand import ExpandDims
    from dask_array.manipulation._transpose import Transpose
    from dask_array.slicing._basic import SliceSlicesIntegers
    tb = type(before)
    if rule == "SliceSlicesIntegers._simplify_down" and tb is SliceSlicesIntegers:
        return "slice_down"
    if rule == "Transpose._simplify_down" and tb is Transpose:
        return "transpose_down"
    if rule == "Rechunk._simplify_down" and tb is Rechunk:
        return "rechunk_noop"
    if rule.endswith("._simplify_up"):
        child = getattr(before, "array", None)
        tc = type(child)
        if tb is SliceSlicesIntegers:
            if rule == "Elemwise._simplify_up" and tc is Elemwise:
                return "slice_elemwise"
            if rule == "Transpose._simplify_up" and tc is Transpose:
                return "slice_transpose"
            if rule == "ExpandDims._simplify_up" and tc is ExpandDims:
                return "slice_expand_dims"
            if rule == "Arange._simplify_up" and tc is Arange:
                return "slice_arange"
            if rule == "FromArray._simplify_up" and tc is FromArray:
                return "slice_fromarray"
        if tb is Rechunk and rule == "FromArray._simplify_up" and tc is FromArray:
            return "rechunk_fromarray"
        if tb is Rechunk and rule == "Elemwise._simplify_up" and tc is Elemwise:
            return "rechunk_elemwise"
        if tb is Rechunk and rule == "Rechunk._simplify_up" and tc is Rechunk:
            return "rechunk_rechunk"
    return None


def pushdown_limit():
    from dask_array.io import _from_array
    return int(_from_array._NUMPY_SLICE_PUSHDOWN_NBYTES_LIMIT)


def eager_copy_hints(r, before):
    """FromArray._accept_slice copies a small NumPy source eagerly (source[new_region].copy()): the candidate
    regions, computed here from the slice node alone (integers read as i:i+1, padded with full slices)."""
    fa = before.array
    base = fa.array
    if type(base) is not np.ndarray or fa.operand("_region") is not None:
        return []
    idx = tuple(before.index) + (slice(None),) * (base.ndim - len(before.index))
    region = tuple(slice(i, i + 1) if isinstance(i, Integral) else i for i in idx)
    return [(base, r.sources[id(base)], region)]


class RuleCheck:
    """collects instances, then validates them in one Coq batch"""

    def __init__(self, chk):
        self.chk = chk
        self.cases, self.info = [], []
        self.stats = {}
        self.seen = set()

    def bump(self, rule, what):
        d = self.stats.setdefault(rule, {"matched": 0, "mismatched": 0, "unmodelled": 0, "wf_false": 0})
        d[what] += 1
        self.chk.count(f"rule_instance:{rule}:{what}")

    def add(self, hook, before, after, origin):
        key = classify(hook, before, after)
        if key is None:
            self.bump(hook + "(" + type(before).__name__ + ")", "unmodelled")
            return False
        ident = (key, before._name, getattr(after, "_name", None))
        if ident in self.seen:
            return False
        self.seen.add(ident)
        # the no-op rechunk rule only looks at the child's chunks: the child is a leaf carrying them
        # (likewise the operands of an Elemwise a rechunk is pushed through)
        if key == "rechunk_noop":
            opaque = [before.array._name]
        elif key == "rechunk_elemwise":
            opaque = [a._name for a in before.array.elemwise_args if hasattr(a, "_name")]
        else:
            opaque = ()
        child = getattr(before, "array", None)
        r = Reifier(opaque=opaque, strict=[child._name] if hasattr(child, "_name") else ())
        try:
            b = r.node(before)
            if key == "slice_fromarray":
                r.hints.extend(eager_copy_hints(r, before))
            a = r.child(after)
        except Unmodelled as e:
            self.bump(key, "unmodelled")
            self.chk.count("rule_unmodelled_reason:" + str(e)[:40])
            return False
        lim = pushdown_limit()
        self.cases.append(ctuple(cnat(RULES.index(key)), cz(lim), b, f"(Some {a})"))
        self.info.append({"rule": key, "hook": hook, "origin": origin, "before": exprs.tree(before), "limit": lim,
                          "after": exprs.tree(after), "before_coq": b, "after_coq": a})
        return True

    def flush(self):
        chk = self.chk
        if not self.cases:
            chk.extra["rule_instances"] = self.stats
            return
        # one Coq batch for "well-formed and the model computes exactly this after"; the rare failures are
        # classified (hypotheses vs rule function) by a second, small batch
        bad, _ = coq_eval_cases(HEADER, CASE_T, CHK_BOTH, self.cases, chunk=200)
        bad_rule, bad_wf = set(), set()
        if bad:
            sub = [self.cases[i] for i in bad]
            r2, _ = coq_eval_cases(HEADER, CASE_T, CHK_RULE, sub, chunk=200)
            bad_rule = {bad[j] for j in r2}
            bad_wf = set(bad) - bad_rule
        shown = 0
        for i, inf in enumerate(self.info):
            if i in bad_rule:
                self.bump(inf["rule"], "mismatched")
                if shown < 5:
                    shown += 1
                    fn = RULE_FN[inf["rule"]].replace(" lim", " " + cz(inf.get("limit", 0)))
                    model = coq_eval_expr(HEADER, [f"{fn} {inf['before_coq']}"])[0]
                    chk.tie_break("correspondence:rule " + inf["rule"], {**inf, "model_after": model})
                else:
                    chk.tie_break("correspondence:rule " + inf["rule"], {k: inf[k] for k in ("rule", "hook", "before", "after")})
            elif i in bad_wf:
                # the implementation fired the rule on an instance outside the theorem's hypotheses
                self.bump(inf["rule"], "wf_false")
                chk.tie_break("correspondence:wf " + inf["rule"], inf)
            else:
                self.bump(inf["rule"], "matched")
                d = self.stats[inf["rule"]]
                if inf["origin"] == "captured":
                    d["matched_captured"] = d.get("matched_captured", 0) + 1
                chk.traces_validated += 1
        chk.extra["rule_instances"] = self.stats
        chk.extra["rule_mismatch_samples"] = [
            {k: inf[k] for k in ("rule", "hook", "origin", "before_coq", "after_coq")}
            for i, inf in enumerate(self.info) if i in bad_rule or i in bad_wf][:5]


# --------------------------------------------------------------------------
# directed stream
def _rand_shape(rng, rank=None, dims=(1, 1, 2, 3, 4, 5, 6, 0)):
    rank = rank or rng.choice([1, 1, 2, 2, 3])
    return tuple(rng.choice(dims[:-1] if rng.random() < 0.93 else dims) for _ in range(rank))


def _src(da, progs, rng, shape, base=0):
    data = np.arange(int(np.prod(shape)), dtype="int64").reshape(shape) + base
    return da.from_array(data, chunks=tuple(progs.rand_chunks_for(rng, n) for n in shape))


def _opaque(da, x):
    """a node no slice/rechunk/transposition is pushed into: keeps the rule under test at the top"""
    return da.cumsum(x, axis=0) if x.ndim else x


def directed_instances(chk, da, progs, n):
    """yields (hook name, before expr, after expr) from direct invocations of the hooks"""
    from dask_array._rechunk import Rechunk
    from dask_array.manipulation._transpose import Transpose
    from dask_array.slicing._basic import SliceSlicesIntegers
    rng = chk.rng
    kinds = ["slice_slice", "slice_identity", "slice_elemwise", "slice_elemwise", "slice_transpose", "slice_transpose",
             "transpose_transpose", "transpose_elemwise", "rechunk_rechunk", "rechunk_noop", "slice_expand", "slice_arange",
             "slice_fromarray", "slice_fromarray", "rechunk_fromarray",
         "rechunk_elemwise"]
    for k in range(n):
        kind = kinds[k % len(kinds)]
        with warnings.catch_warnings():
            warnings.simplefilter("ignore")
            try:
                if kind == "slice_slice":
                    shape = _rand_shape(rng)
                    x = _opaque(da, _src(da, progs, rng, shape))
                    a = progs.rand_index(rng, x.shape, allow_none=False, neg_step=rng.random() < 0.3)
                    y = x[a]
                    if type(y.expr) is not SliceSlicesIntegers or y.ndim == 0:
                        continue
                    b = progs.rand_index(rng, y.shape, allow_none=False, neg_step=rng.random() < 0.3)
                    z = y[b]
                    e = z.expr
                    if type(e) is not SliceSlicesIntegers:
                        continue
                    yield "SliceSlicesIntegers._simplify_down", e, e._simplify_down()
                elif kind == "slice_identity":
                    shape = _rand_shape(rng)
                    x = _opaque(da, _src(da, progs, rng, shape))
                    idx = tuple(slice(None) if rng.random() < 0.8 else slice(0, None) for _ in shape)
                    e = SliceSlicesIntegers(x.expr, idx, True)
                    yield "SliceSlicesIntegers._simplify_down", e, e._simplify_down()
                elif kind == "slice_elemwise":
                    shape = _rand_shape(rng)
                    x = _opaque(da, _src(da, progs, rng, shape))
                    args = [x]
                    for j in range(rng.choice([0, 1, 1, 2])):
                        s2 = list(shape[rng.randint(0, len(shape)):]) if rng.random() < 0.5 else list(shape)
                        for q in range(len(s2)):
                            if rng.random() < 0.3:
                                s2[q] = 1
                        args.append(_opaque(da, _src(da, progs, rng, tuple(s2), base=100 * (j + 1))) if s2 else 7)
                    rng.shuffle(args)
                    if len(args) == 1:
                        y = da.negative(args[0]) if rng.random() < 0.5 else da.add(args[0], 3)
                    elif len(args) == 2:
                        y = getattr(da, rng.choice(["add", "subtract", "maximum"]))(*args)
                    else:
                        y = da.where(args[0] > 50, args[1], args[2])
                    idx = progs.rand_index(rng, y.shape, allow_none=False)
                    z = y[idx]
                    e = z.expr
                    from dask_array._blockwise import Elemwise
                    if type(e) is not SliceSlicesIntegers or type(e.array) is not Elemwise:
                        continue
                    yield "Elemwise._simplify_up", e, e.array._accept_slice(e)
                elif kind == "slice_transpose":
                    shape = _rand_shape(rng, rank=rng.choice([2, 2, 3, 3, 4]))
                    x = _opaque(da, _src(da, progs, rng, shape))
                    axes = list(range(len(shape)))
                    rng.shuffle(axes)
                    y = Transpose(x.expr, tuple(axes))
                    from dask_array._new_collection import new_collection
                    yc = new_collection(y)
                    idx = progs.rand_index(rng, yc.shape, allow_none=False)
                    e = yc[idx].expr
                    if type(e) is not SliceSlicesIntegers or type(e.array) is not Transpose:
                        continue
                    yield "Transpose._simplify_up", e, e.array._accept_slice(e)
                elif kind == "transpose_transpose":
                    shape = _rand_shape(rng, rank=rng.choice([2, 2, 3, 3, 4]))
                    x = _opaque(da, _src(da, progs, rng, shape))
                    p = list(range(len(shape)))
                    q = list(range(len(shape)))
                    if rng.random() < 0.8:
                        rng.shuffle(p)
                    if rng.random() < 0.8:
                        rng.shuffle(q)
                    inner = Transpose(x.expr, tuple(p)) if rng.random() < 0.7 else x.expr
                    e = Transpose(inner, tuple(q))
                    yield "Transpose._simplify_down", e, e._simplify_down()
                elif kind == "transpose_elemwise":
                    shape = _rand_shape(rng, rank=rng.choice([2, 2, 3]))
                    x = _opaque(da, _src(da, progs, rng, shape))
                    s2 = tuple(1 if rng.random() < 0.3 else n for n in shape)
                    if rng.random() < 0.25:
                        s2 = s2[1:]
                    y = da.add(x, _opaque(da, _src(da, progs, rng, s2, base=100))) if rng.random() < 0.8 else da.multiply(x, 2)
                    axes = list(range(len(shape)))
                    rng.shuffle(axes)
                    e = Transpose(y.expr, tuple(axes))
                    yield "Transpose._simplify_down", e, e._simplify_down()
                elif kind == "rechunk_rechunk":
                    shape = _rand_shape(rng, dims=(1, 2, 3, 4, 5, 6, 7, 8))
                    x = _opaque(da, _src(da, progs, rng, shape))
                    c1 = tuple(progs.rand_chunks_for(rng, n) for n in shape)
                    c2 = tuple(progs.rand_chunks_for(rng, n) for n in shape)
                    inner = Rechunk(x.expr, c1, None, None, False, None)
                    # (the public rechunk() always passes resolved chunk tuples and balance=False unless asked)
                    e = Rechunk(inner, c2, None, None, False, None)
                    yield "Rechunk._simplify_up", e, e._pushdown()
                elif kind == "rechunk_noop":
                    shape = _rand_shape(rng, dims=(1, 2, 3, 4, 5, 6, 7, 8))
                    x = _src(da, progs, rng, shape)
                    c = x.chunks if rng.random() < 0.6 else tuple(progs.rand_chunks_for(rng, n) for n in shape)
                    e = Rechunk(x.expr, c, None, None, False, None)
                    yield "Rechunk._simplify_down", e, e._simplify_down()
                elif kind == "slice_expand":
                    shape = _rand_shape(rng)
                    x = _opaque(da, _src(da, progs, rng, shape))
                    y = x
                    for _ in range(rng.choice([1, 1, 2])):
                        y = da.expand_dims(y, rng.randint(0, y.ndim))
                    from dask_array.manipulation._expand import ExpandDims
                    if type(y.expr) is not ExpandDims:
                        continue
                    idx = progs.rand_index(rng, y.shape, allow_none=False)
                    e = y[idx].expr
                    if type(e) is not SliceSlicesIntegers or type(e.array) is not ExpandDims:
                        continue
                    yield "ExpandDims._simplify_up", e, e.array._accept_slice(e)
                elif kind == "slice_arange":
                    n = rng.randint(0, 14)
                    start, step = rng.randint(-5, 5), rng.choice([1, 1, 2, 3, -1, -2])
                    x = da.arange(start, start + n * step, step, chunks=(progs.rand_chunks_for(rng, n),), dtype="int64")
                    if x.shape[0] == 0 and rng.random() < 0.7:
                        continue
                    idx = progs.rand_index(rng, x.shape, allow_none=False)
                    e = x[idx].expr
                    from dask_array.creation._arange import Arange
                    if type(e) is not SliceSlicesIntegers or type(e.array) is not Arange:
                        continue
                    yield "Arange._simplify_up", e, e.array._accept_slice(e)
                elif kind == "slice_fromarray":
                    from dask_array._new_collection import new_collection
                    from dask_array.io import _from_array
                    from dask_array.io._from_array import FromArray
                    shape = _rand_shape(rng)
                    x = _src(da, progs, rng, shape)
                    unit = rng.random() < 0.8
                    idx = progs.rand_index(rng, x.shape, allow_none=False, neg_step=False)
                    if unit:
                        idx = tuple(slice(i.start, i.stop) if isinstance(i, slice) else i for i in idx)
                    mode = rng.choice(["eager", "region", "region2"])
                    saved = _from_array._NUMPY_SLICE_PUSHDOWN_NBYTES_LIMIT
                    try:
                        if mode != "eager":
                            _from_array._NUMPY_SLICE_PUSHDOWN_NBYTES_LIMIT = -1     # forces the deferred-region branch
                        e = x[idx].expr
                        if type(e) is not SliceSlicesIntegers or type(e.array) is not FromArray:
                            continue
                        a = e.array._accept_slice(e)
                        if mode == "region2" and type(a) is FromArray and a.ndim:
                            y = new_collection(a)
                            idx2 = progs.rand_index(rng, y.shape, allow_none=False, neg_step=False)
                            idx2 = tuple(slice(i.start, i.stop) if isinstance(i, slice) else i for i in idx2)
                            e2 = y[idx2].expr
                            if type(e2) is SliceSlicesIntegers and type(e2.array) is FromArray:
                                yield "FromArray._simplify_up", e2, e2.array._accept_slice(e2)
                                continue
                        yield "FromArray._simplify_up", e, a
                    finally:
                        _from_array._NUMPY_SLICE_PUSHDOWN_NBYTES_LIMIT = saved
                elif kind == "rechunk_elemwise":
                    shape = _rand_shape(rng, dims=(1, 2, 3, 4, 5, 6, 7, 8))
                    x = _src(da, progs, rng, shape)
                    s2 = tuple(1 if rng.random() < 0.3 else n for n in shape)
                    if rng.random() < 0.3:
                        s2 = s2[rng.randint(0, len(s2)):]
                    y = da.add(x, _src(da, progs, rng, s2, base=100)) if (s2 and rng.random() < 0.8) else da.multiply(x, 2)
                    c = tuple(progs.rand_chunks_for(rng, n) for n in y.shape)
                    e = Rechunk(y.expr, c, None, None, False, None)
                    from dask_array._blockwise import Elemwise
                    if type(e.array) is not Elemwise:
                        continue
                    yield "Elemwise._simplify_up", e, e._pushdown()
                elif kind == "rechunk_fromarray":
                    shape = _rand_shape(rng, dims=(1, 2, 3, 4, 5, 6, 7, 8))
                    x = _src(da, progs, rng, shape)
                    c = tuple(progs.rand_chunks_for(rng, n) for n in shape)
                    e = Rechunk(x.expr, c, None, None, False, None)
                    if e.chunks == x.chunks:
                        continue
                    yield "FromArray._simplify_up", e, e._pushdown()
            except (IndexError, ValueError, NotImplementedError) as exc:
                chk.count("directed-skipped:" + type(exc).__name__)
                continue


def balance_corpus(chk, da):
    """C02-A: Rechunk(Rechunk(x, c1, balance=True), c2) -> Rechunk(x, c2, balance=True) re-balances c2:
    the rewrite changes the advertised chunks (the model's rule keeps them: chunks = c2)."""
    x = da.from_array(np.arange(5), chunks=(5,))
    with warnings.catch_warnings():
        warnings.simplefilter("ignore")
        y = da.cumsum(x, 0).rechunk((4,), balance=True).rechunk((2,))
        before = y.expr
        after = before._pushdown()
        chk.case(("rule", "rechunk_rechunk", "balance-corpus"), nontrivial=True)
        if after is not None and after.chunks != before.chunks:
            chk.violation("Rechunk(Rechunk(x, c1, balance=True), c2) -> Rechunk(x, c2, balance=True) changes the advertised chunks",
                          {"program": "da.cumsum(da.from_array(np.arange(5), chunks=5), 0).rechunk(4, balance=True).rechunk(2)",
                           "chunks_before": before.chunks, "chunks_after": after.chunks},
                          signature={"class": "rewrite-changes-chunks", "rule": "rechunk_rechunk", "balance": "inner"})


def run_directed(chk, rc, da, progs, n):
    """directed stream: model correspondence + execution oracle for each instance"""
    balance_corpus(chk, da)
    for hook, before, after in directed_instances(chk, da, progs, n):
        key = classify(hook, before, after) if after is not None else None
        if after is None:
            # the implementation declined: the model must decline too
            k2 = classify(hook, before, before)
            if k2 is not None:
                r = Reifier()
                try:
                    b = r.node(before)
                except Unmodelled:
                    continue
                rc.cases.append(ctuple(cnat(RULES.index(k2)), cz(pushdown_limit()), b, "None"))
                rc.info.append({"rule": k2, "hook": hook, "origin": "directed(declined)", "before": exprs.tree(before),
                                "limit": pushdown_limit(), "after": "None", "before_coq": b, "after_coq": "None"})
                chk.count("rule_declined:" + k2)
            continue
        if not rc.add(hook, before, after, "directed"):
            continue
        chk.case(("rule", key, before._name), nontrivial=True,
                 sample={"rule": key, "before": exprs.tree(before), "after": exprs.tree(after)})
        try:
            vb = exprs.eval_expr(before)
        except Exception:  # noqa: BLE001
            chk.count("rule-skipped:before-raises")
            continue
        try:
            va = exprs.eval_expr(after)
        except Exception as e:  # noqa: BLE001
            chk.violation(f"directed rewrite {key} turned a computable expression into one that raises: {type(e).__name__}: {str(e)[:120]}",
                          {"rule": key, "before": exprs.tree(before), "after": exprs.tree(after)},
                          signature={"class": "directed-rewrite-raises", "rule": key})
            continue
        ok, why = exprs.same(va, vb)
        if not ok:
            chk.violation(f"directed rewrite {key} changed the denoted array ({why})",
                          {"rule": key, "before": exprs.tree(before), "after": exprs.tree(after),
                           "before_value": vb.tolist() if vb.size <= 40 else None,
                           "after_value": va.tolist() if va.size <= 40 else None},
                          signature={"class": "directed-rewrite-changes-value", "rule": key})
