"""C23 — a random array is one fixed realization."""
from __future__ import annotations

import random

import warnings

import cloudpickle
import numpy as np

import progs
from common import Check

GEN_DISTS = {
    "random": lambda g, size, chunks: g.random(size, chunks=chunks),
    "normal": lambda g, size, chunks: g.normal(1.0, 2.0, size=size, chunks=chunks),
    "uniform": lambda g, size, chunks: g.uniform(-1, 3, size=size, chunks=chunks),
    "integers": lambda g, size, chunks: g.integers(0, 100, size=size, chunks=chunks),
    "poisson": lambda g, size, chunks: g.poisson(3.0, size=size, chunks=chunks),
    "standard_normal": lambda g, size, chunks: g.standard_normal(size=size, chunks=chunks),
    "exponential": lambda g, size, chunks: g.exponential(2.0, size=size, chunks=chunks),
    "binomial": lambda g, size, chunks: g.binomial(10, 0.3, size=size, chunks=chunks),
    "gamma": lambda g, size, chunks: g.gamma(2.0, 1.5, size=size, chunks=chunks),
    "beta": lambda g, size, chunks: g.beta(2.0, 3.0, size=size, chunks=chunks),
    "laplace": lambda g, size, chunks: g.laplace(0.0, 1.0, size=size, chunks=chunks),
    "geometric": lambda g, size, chunks: g.geometric(0.3, size=size, chunks=chunks),
    "choice-int": lambda g, size, chunks: g.choice(10, size=size, chunks=chunks),
    "choice-array-p": lambda g, size, chunks: g.choice(np.arange(5.0), size=size, chunks=chunks, p=np.array([0.1, 0.2, 0.3, 0.2, 0.2])),
}
BITGENS = ["PCG64", "MT19937", "Philox", "SFC64"]
RS_DISTS = {
    "random_sample": lambda g, size, chunks: g.random_sample(size, chunks=chunks),
    "normal": lambda g, size, chunks: g.normal(1.0, 2.0, size=size, chunks=chunks),
    "randint": lambda g, size, chunks: g.randint(0, 100, size=size, chunks=chunks),
    "poisson": lambda g, size, chunks: g.poisson(3.0, size=size, chunks=chunks),
    "uniform": lambda g, size, chunks: g.uniform(-1, 3, size=size, chunks=chunks),
    "choice-int": lambda g, size, chunks: g.choice(10, size=size, chunks=chunks),
    "gamma": lambda g, size, chunks: g.gamma(2.0, 1.5, size=size, chunks=chunks),
}


def alive_together(chk, da, rng):
    """random arrays that differ in ONE ingredient of the realization (chunk boundaries at equal block count, bit generator kind,
    seed, distribution parameter), each computed ALONE first, then all built and computed while the others are alive: each must
    reproduce the realization it has alone, and so must differences of pairs"""
    import gc
    n = 120 if chk.tier == "thorough" else 16
    for it in range(n):
        seed = rng.randint(0, 10 ** 6)
        size = rng.choice([(10,), (12,), (4, 6)])
        if len(size) == 1:
            layouts = [((5, size[0] - 5),), ((4, size[0] - 4),), ((6, size[0] - 6),), ((size[0],),), ((3, 3, size[0] - 6),), ((2, 4, size[0] - 6),)]
        else:
            layouts = [((2, 2), (3, 3)), ((1, 3), (3, 3)), ((2, 2), (2, 4)), ((4,), (1, 2, 3)), ((4,), (3, 2, 1))]
        dname = rng.choice(["normal", "random", "integers", "choice-int", "standard_normal"])
        members = []
        for lay in layouts:
            members.append((f"default_rng({seed}) chunks={lay}", lambda lay=lay: GEN_DISTS[dname](da.random.default_rng(seed), size, lay)))
        for bg in BITGENS:
            members.append((f"Generator({bg}({seed})) chunks={layouts[0]}",
                            lambda bg=bg: GEN_DISTS[dname](da.random.Generator(getattr(np.random, bg)(seed)), size, layouts[0])))
        members.append((f"default_rng({seed + 1}) chunks={layouts[0]}", lambda: GEN_DISTS[dname](da.random.default_rng(seed + 1), size, layouts[0])))
        if dname in RS_DISTS:
            for lay in layouts[:3]:
                members.append((f"RandomState({seed}) chunks={lay}", lambda lay=lay: RS_DISTS[dname](da.random.RandomState(seed), size, lay)))
        solo = {}
        for label, mk in members:
            try:
                with warnings.catch_warnings():
                    warnings.simplefilter("ignore")
                    a = mk()
                    solo[label] = (a.chunks, a.compute(scheduler="sync"))
            except Exception as e:  # noqa: BLE001
                chk.count("together:raises:" + type(e).__name__)
                chk.violation(f"a seeded random array cannot be computed: {type(e).__name__}: {str(e)[:80]}", {"dist": dname, "seed": seed, "size": size, "member": label},
                              signature={"class": "random-raises", "kind": label.split("(")[0], "error": type(e).__name__})
            a = None
            gc.collect()
        alive = []
        for label, mk in members:
            if label not in solo:
                continue
            with warnings.catch_warnings():
                warnings.simplefilter("ignore")
                a = mk()
                alive.append((label, a))
                got = a.compute(scheduler="sync")
            chk.count("together:" + dname)
            chk.case(("together", dname, seed, size, label), nontrivial=True, sample={"dist": dname, "member": label} if it < 1 and len(alive) < 3 else None)
            problems = []
            if a.chunks != solo[label][0]:
                problems.append(f"built with chunks {solo[label][0]} but reports {a.chunks} while other arrays from the same seed are alive")
            if got.shape != solo[label][1].shape or not np.array_equal(got, solo[label][1]):
                problems.append("rebuilding with the same seed, shape and chunks while other random arrays are alive gives another realization")
            if len(alive) > 1:
                l0, a0 = alive[rng.randrange(len(alive) - 1)]
                try:
                    with warnings.catch_warnings():
                        warnings.simplefilter("ignore")
                        dgot = (a - a0).compute(scheduler="sync")
                    if not np.allclose(dgot, solo[label][1] - solo[l0][1]):
                        problems.append(f"(this - [{l0}]) is not computed from the two realizations")
                except Exception as e:  # noqa: BLE001
                    problems.append(f"difference with [{l0}] raises {type(e).__name__}")
            if problems:
                chk.violation("; ".join(problems[:2]), {"dist": dname, "seed": seed, "size": size, "member": label,
                                                        "alive": [l for l, _ in alive[:-1]]},
                              signature={"class": "realization", "kind": "alive-together", "problem": problems[0][:30], "dist": dname})
            else:
                chk.traces_validated += 1
        del alive
        gc.collect()


def derived(rng, x, v):
    """(description, dask collection, function of the realization) pairs"""
    out = []
    nd = v.ndim
    idx = progs.rand_index(rng, v.shape, allow_none=False)
    out.append((f"x[{idx}]", x[idx], v[idx]))
    ch = tuple(progs.rand_chunks_for(rng, n) for n in v.shape)
    out.append((f"x.rechunk({ch})", x.rechunk(ch), v))
    out.append(("x.T", x.T, v.T))
    out.append(("x + x[::-1]", x + x[::-1], v + v[::-1]))
    out.append(("(x * 2 - x).sum(axis=0)", (x * 2 - x).sum(axis=0), (v * 2 - v).sum(axis=0)))
    out.append(("x.rechunk(..)[idx] + 1", x.rechunk(ch)[idx] + 1, v[idx] + 1))
    if nd:
        ax = rng.randrange(nd)
        out.append((f"x.max(axis={ax})", x.max(axis=ax), v.max(axis=ax)))
        out.append((f"cumsum(axis={ax})", x.cumsum(axis=ax), v.cumsum(axis=ax)))
    # the array combined with reductions of fused chains over OTHER (deterministic) data: several fusion groups joined by a
    # reduction, the random leaf sitting next to sibling elementwise ops (add / mul / neg / sub ...)
    if nd and v.size:
        import dask_array as da
        on = np.arange(float(3 * v.size)).reshape((3,) + v.shape) % 7
        o = da.from_array(on, chunks=(2,) + tuple(max(1, s // 2) for s in v.shape))
        S, Sn = ((o + 1) * 3).sum(axis=0), ((on + 1) * 3).sum(axis=0)
        out.append(("S*2 + x", S * 2 + x, Sn * 2 + v))
        out.append(("(S-2) + x", (S - 2) + x, (Sn - 2) + v))
        out.append(("-S + x*3", -S + x * 3, -Sn + v * 3))
        out.append(("x - S.max()", x - S.max(), v - Sn.max()))
        out.append(("(S + x).sum()", (S + x).sum(), (Sn + v).sum()))
        out.append(("where(S > 40, x, -x)", da.where(S > 40, x, -x), np.where(Sn > 40, v, -v)))
    rng.shuffle(out)
    return out


def run(chk: Check):
    import dask_array as da
    chk.rule = ("distributions x {Generator, RandomState} x seeds x shapes x chunkings: the array is computed (the realization), computed "
                "again, rebuilt from the same seed, round-tripped through cloudpickle; then slices, rechunks, transposes, elemwise "
                "combinations, reductions, scans of it (optimized and fused) are computed in a shuffled order and compared with the same "
                "NumPy function of that one realization; non-trivial = array with more than one block.  Alive-together family: arrays differing in "
                "one ingredient (chunk boundaries at equal block count, bit generator kind PCG64/MT19937/Philox/SFC64, seed) are computed alone, "
                "then rebuilt while all others are alive: same chunks, same realization, differences of pairs computed from both realizations")
    chk.assumptions = ["NumPy's SeedSequence / bit generators are an oracle (the realization itself is not compared with NumPy's stream)"]
    chk.run_proofs()
    model_family(chk, da)
    rng = chk.rng
    alive_together(chk, da, rng)
    n = 2500 if chk.tier == "thorough" else 160
    for it in range(n):
        kind = rng.choice(["generator", "generator", "randomstate", "generator:" + rng.choice(BITGENS)])
        dists = GEN_DISTS if kind.startswith("generator") else RS_DISTS
        dname = rng.choice(sorted(dists))
        seed = rng.randint(0, 10 ** 6)
        rank = rng.choice([1, 2, 2, 3])
        shape = tuple(rng.choice([1, 2, 3, 5, 8]) for _ in range(rank))
        chunks = tuple(progs.rand_chunks_for(rng, s) for s in shape)

        def make():
            if kind.startswith("generator:"):
                g = da.random.Generator(getattr(np.random, kind.split(":")[1])(seed))
            else:
                g = da.random.default_rng(seed) if kind == "generator" else da.random.RandomState(seed)
            return dists[dname](g, shape, chunks)

        desc = {"kind": kind, "dist": dname, "seed": seed, "shape": shape, "chunks": chunks}
        chk.count(f"{kind}:{dname}")
        try:
            with warnings.catch_warnings():
                warnings.simplefilter("ignore")
                x = make()
                v = x.compute(scheduler="sync")
        except Exception as e:  # noqa: BLE001
            # every (kind, distribution) pair of this family computes on the unchanged tree: a raise means the values are not
            # reproducible from the seed any more (there are none)
            chk.count("raises:" + type(e).__name__)
            chk.violation(f"a seeded random array cannot be computed: {type(e).__name__}: {str(e)[:80]}", desc,
                          signature={"class": "random-raises", "kind": kind.split(":")[0], "error": type(e).__name__})
            continue
        nblocks = int(np.prod([len(c) for c in chunks]))
        chk.case(("rand", kind, dname, seed, shape, chunks), nontrivial=nblocks > 1, sample=desc if it < 4 else None)
        problems = []
        with warnings.catch_warnings():
            warnings.simplefilter("ignore")
            if not np.array_equal(x.compute(scheduler="sync"), v):
                problems.append("computing twice gives different values")
            if not np.array_equal(x.compute(scheduler="threads"), v):
                problems.append("threaded compute gives different values")
            y = make()
            if not np.array_equal(y.compute(scheduler="sync"), v):
                problems.append("rebuilding from the same seed, shape and chunks gives different values")
            z = cloudpickle.loads(cloudpickle.dumps(x))
            if not np.array_equal(z.compute(scheduler="sync"), v):
                problems.append("cloudpickle round trip changes the realization")
            for how, coll, want in derived(rng, x, v):
                try:
                    got = coll.compute(scheduler="sync")
                except Exception as e:  # noqa: BLE001
                    problems.append(f"{how} raises {type(e).__name__}")
                    continue
                ok, why = progs.values_equal(got, want)
                if not ok:
                    problems.append(f"{how} is not computed from the realization x.compute() shows ({why})")
                else:
                    chk.traces_validated += 1
            if not np.array_equal(x.compute(scheduler="sync"), v):
                problems.append("realization changed after derived computations")
        if problems:
            chk.violation("; ".join(problems[:3]), desc, signature={"class": "realization", "kind": kind, "problem": problems[0][:30], "dist": dname})


def replay(path):
    print(open(path).read())


# ==========================================================================
# Model correspondence (coq/theories/RngModel.v): the real per-block seeds of Random nodes
from itertools import product as _product  # noqa: E402

from common import clist, coq_eval_cases, ctuple, cz  # noqa: E402

M_HEADER = "From DA Require Import PyBase RngModel.\nOpen Scope Z_scope.\n"
A_CASE = "Z * list (list Z) * list (list seed) * nat"
A_CHK = "Definition chk (c : " + A_CASE + ") : bool := let '(root, sizess, obs, final) := c in arrays_ok root sizess obs final."


def seeds_of(x):
    """[(entropy, spawn key)] of the per-block SeedSequences a Generator-backed Random node derived"""
    out = []
    for s in x.expr.bitgens:
        key = tuple(s.spawn_key)
        if len(key) != 1:
            return None
        out.append((int(s.entropy), int(key[0])))
    return out


def model_family(chk, da):
    rng = random.Random(f"{chk.pid}-model-family-{chk.seed}")     # own stream: the checks above keep theirs
    cases, descs = [], []
    n = 3000 if chk.tier == "thorough" else 250
    for it in range(n):
        seed = rng.randint(0, 10 ** 6)
        g = da.random.default_rng(seed)
        ss = g._bit_generator._seed_seq
        specs, obs, sizess = [], [], []
        problems = []
        arrays = []
        for _ in range(rng.choice([1, 2, 3, 4])):
            rank = rng.choice([1, 2, 2, 3])
            shape = tuple(rng.choice([1, 2, 3, 5, 8]) for _ in range(rank))
            chunks = tuple(progs.rand_chunks_for(rng, s) for s in shape)
            dname = rng.choice(sorted(d for d in GEN_DISTS if not d.startswith("choice")))     # Random._info nodes (the model's scope)
            before = ss.n_children_spawned
            with warnings.catch_warnings():
                warnings.simplefilter("ignore")
                x = GEN_DISTS[dname](g, shape, chunks)
            sd = seeds_of(x)
            if sd is None:
                problems.append("a block seed is not a direct child of the generator's SeedSequence")
                break
            nblocks = int(np.prod([len(c) for c in chunks]))
            specs.append((dname, shape, chunks))
            arrays.append(x)
            obs.append(sd)
            # block sizes as Random._info lays them out (row-major product of the chunks); the model only needs how many
            sizes = [int(np.prod(b)) for b in _product(*chunks)]
            sizess.append(sizes)
            if len(sd) != nblocks:
                problems.append(f"{len(sd)} seeds for {nblocks} blocks")
            if [tuple(b) for b in x.expr._info[2]] != [tuple(b) for b in _product(*chunks)]:
                problems.append("block sizes are not the row-major product of the chunks")
            if ss.n_children_spawned != before + nblocks:
                problems.append(f"constructing one array advanced the generator by {ss.n_children_spawned - before}, not by its {nblocks} blocks")
        chk.count(f"model-arrays:{len(specs)}")
        chk.case(("rng-model", seed, tuple(specs)), nontrivial=sum(len(o) for o in obs) > 1, sample={"seed": seed, "arrays": specs} if it < 2 else None)
        if not problems and arrays:
            # computing, deriving, pickling must not touch the generator or the seeds
            x = arrays[rng.randrange(len(arrays))]
            before = ss.n_children_spawned
            with warnings.catch_warnings():
                warnings.simplefilter("ignore")
                x.compute(scheduler="sync")
                (x + 1).sum().compute(scheduler="sync")
                z = cloudpickle.loads(cloudpickle.dumps(x))
            if ss.n_children_spawned != before:
                problems.append("computing / deriving / pickling advanced the generator")
            if seeds_of(z) != seeds_of(x):
                problems.append("the unpickled node has other seeds")
            # rebuild from the same seed
            g2 = da.random.default_rng(seed)
            with warnings.catch_warnings():
                warnings.simplefilter("ignore")
                again = [seeds_of(GEN_DISTS[d](g2, sh, ch)) for d, sh, ch in specs]
            if again != obs:
                problems.append("rebuilding the same arrays from the same seed gives other seeds")
        if problems:
            chk.violation("; ".join(problems[:3]), {"seed": seed, "arrays": specs}, signature={"class": "seeds", "problem": problems[0][:30]})
            continue
        cases.append(ctuple(cz(seed), clist(sizess, clist), clist(obs, lambda o: clist(o, lambda p: f"sd {p[0]} {p[1]}")),
                            f"{ss.n_children_spawned}%nat"))
        descs.append({"seed": seed, "arrays": specs, "seeds": obs})
    for i in coq_eval_cases(M_HEADER, A_CASE, A_CHK, cases)[0]:
        chk.tie_break("rng-model", {"case": descs[i], "literal": cases[i][:800]})
    chk.traces_validated += len(cases)

    # RandomState: one 16-byte draw per array, per-block seeds derived from it: distinct, stable, deterministic
    for it in range(n // 5):
        seed = rng.randint(0, 10 ** 6)
        shape = tuple(rng.choice([2, 3, 5, 8]) for _ in range(rng.choice([1, 2])))
        chunks = tuple(progs.rand_chunks_for(rng, s) for s in shape)
        rs = da.random.RandomState(seed)
        pos0 = rs._numpy_state.get_state()[2]
        with warnings.catch_warnings():
            warnings.simplefilter("ignore")
            x = rs.normal(1.0, 2.0, size=shape, chunks=chunks)
            y = rs.normal(1.0, 2.0, size=shape, chunks=chunks)
            x2 = da.random.RandomState(seed).normal(1.0, 2.0, size=shape, chunks=chunks)
        sx, sy, sx2 = list(x.expr.bitgens), list(y.expr.bitgens), list(x2.expr.bitgens)
        nblocks = int(np.prod([len(c) for c in chunks]))
        problems = []
        if len(sx) != nblocks or len(set(sx)) != nblocks:
            problems.append("per-block seeds are not one distinct seed per block")
        if set(sx) & set(sy):
            problems.append("two successive arrays share a seed")
        if sx != sx2:
            problems.append("rebuilding from the same seed gives other seeds")
        if list(cloudpickle.loads(cloudpickle.dumps(x)).expr.bitgens) != sx:
            problems.append("the unpickled node has other seeds")
        chk.count("model-randomstate")
        chk.case(("rng-model-rs", seed, shape, chunks), nontrivial=nblocks > 1)
        if problems:
            chk.violation("; ".join(problems), {"seed": seed, "shape": shape, "chunks": chunks}, signature={"class": "seeds", "kind": "randomstate", "problem": problems[0][:30]})
        else:
            chk.traces_validated += 1

    # array-valued distribution parameters (corpus: findings C23-A, C23-B)
    def param_case(label, make):
        chk.count("array-param:" + label)
        try:
            with warnings.catch_warnings():
                warnings.simplefilter("ignore")
                g = da.random.default_rng(42)
                x = make(g)
                before = g._bit_generator._seed_seq.n_children_spawned
                a = (x + 1).compute(scheduler="sync") - 1
                b = x.compute(scheduler="sync")
                after = g._bit_generator._seed_seq.n_children_spawned
        except Exception as e:  # noqa: BLE001
            chk.violation(f"a random array with an array-valued parameter cannot be computed: {type(e).__name__}: {str(e)[:80]}", {"case": label},
                          signature={"class": "array-param-raises", "error": type(e).__name__})
            return
        chk.case(("array-param", label), nontrivial=True)
        if not np.allclose(a, b) or after != before:
            chk.violation("a derived computation of a random array with an array-valued parameter does not see the realization x.compute() shows "
                          f"(the Random node is re-constructed while lowering and draws {after - before} new seeds from the generator)",
                          {"case": label, "spawned_before": before, "spawned_after": after},
                          signature={"class": "realization", "array_param": True})
        else:
            chk.traces_validated += 1
    param_case("normal(loc=dask array broadcast over size)",
               lambda g: g.normal(da.from_array(np.arange(3.0), chunks=3), 1.0, size=(4, 3), chunks=(2, 3)))
    param_case("normal(loc=dask array with the same chunks)",
               lambda g: g.normal(da.from_array(np.arange(12.0).reshape(4, 3), chunks=(2, 3)), 1.0, size=(4, 3), chunks=(2, 3)))
    param_case("poisson(lam=dask array, other chunks)",
               lambda g: g.poisson(da.from_array(np.arange(1.0, 7.0), chunks=2), size=(6,), chunks=3))
    param_case("uniform(low=dask array)",
               lambda g: g.uniform(da.from_array(np.arange(6.0), chunks=3), 10.0, size=(6,), chunks=3))
