"""C23 — a random array is one fixed realization."""
from __future__ import annotations

import warnings

import cloudpickle
import numpy as np

import progs
from common import Check

GEN_DISTS = {
    "random": lambda g, size, chunks: g.random(size, chunks=chunks),
    "normal": lambda g, size, chunks: g.normal(1.0, 2.0, size=size, chunks=chunks),
    "uniform": lambda g, size, chunks: g.uniform(-1, 3, size=size, chunks=chunks),
    "integers": lambda g, size, chunks: g.integers(0, 100, size=size, chunks=chunks),
    "poisson": lambda g, size, chunks: g.poisson(3.0, size=size, chunks=chunks),
    "standard_normal": lambda g, size, chunks: g.standard_normal(size=size, chunks=chunks),
    "exponential": lambda g, size, chunks: g.exponential(2.0, size=size, chunks=chunks),
    "binomial": lambda g, size, chunks: g.binomial(10, 0.3, size=size, chunks=chunks),
}
RS_DISTS = {
    "random_sample": lambda g, size, chunks: g.random_sample(size, chunks=chunks),
    "normal": lambda g, size, chunks: g.normal(1.0, 2.0, size=size, chunks=chunks),
    "randint": lambda g, size, chunks: g.randint(0, 100, size=size, chunks=chunks),
    "poisson": lambda g, size, chunks: g.poisson(3.0, size=size, chunks=chunks),
    "uniform": lambda g, size, chunks: g.uniform(-1, 3, size=size, chunks=chunks),
}


def derived(rng, x, v):
    """(description, dask collection, function of the realization) pairs"""
    out = []
    nd = v.ndim
    idx = progs.rand_index(rng, v.shape, allow_none=False)
    out.append((f"x[{idx}]", x[idx], v[idx]))
    ch = tuple(progs.rand_chunks_for(rng, n) for n in v.shape)
    out.append((f"x.rechunk({ch})", x.rechunk(ch), v))
    out.append(("x.T", x.T, v.T))
    out.append(("x + x[::-1]", x + x[::-1], v + v[::-1]))
    out.append(("(x * 2 - x).sum(axis=0)", (x * 2 - x).sum(axis=0), (v * 2 - v).sum(axis=0)))
    out.append(("x.rechunk(..)[idx] + 1", x.rechunk(ch)[idx] + 1, v[idx] + 1))
    if nd:
        ax = rng.randrange(nd)
        out.append((f"x.max(axis={ax})", x.max(axis=ax), v.max(axis=ax)))
        out.append((f"cumsum(axis={ax})", x.cumsum(axis=ax), v.cumsum(axis=ax)))
    rng.shuffle(out)
    return out


def run(chk: Check):
    import dask_array as da
    chk.rule = ("distributions x {Generator, RandomState} x seeds x shapes x chunkings: the array is computed (the realization), computed "
                "again, rebuilt from the same seed, round-tripped through cloudpickle; then slices, rechunks, transposes, elemwise "
                "combinations, reductions, scans of it (optimized and fused) are computed in a shuffled order and compared with the same "
                "NumPy function of that one realization; non-trivial = array with more than one block")
    chk.assumptions = ["NumPy's SeedSequence / bit generators are an oracle (the realization itself is not compared with NumPy's stream)"]
    chk.run_proofs()
    rng = chk.rng
    n = 2500 if chk.tier == "thorough" else 160
    for it in range(n):
        kind = rng.choice(["generator", "generator", "randomstate"])
        dists = GEN_DISTS if kind == "generator" else RS_DISTS
        dname = rng.choice(sorted(dists))
        seed = rng.randint(0, 10 ** 6)
        rank = rng.choice([1, 2, 2, 3])
        shape = tuple(rng.choice([1, 2, 3, 5, 8]) for _ in range(rank))
        chunks = tuple(progs.rand_chunks_for(rng, s) for s in shape)

        def make():
            g = da.random.default_rng(seed) if kind == "generator" else da.random.RandomState(seed)
            return dists[dname](g, shape, chunks)

        desc = {"kind": kind, "dist": dname, "seed": seed, "shape": shape, "chunks": chunks}
        chk.count(f"{kind}:{dname}")
        try:
            with warnings.catch_warnings():
                warnings.simplefilter("ignore")
                x = make()
                v = x.compute(scheduler="sync")
        except Exception as e:  # noqa: BLE001
            chk.count("skipped:raises:" + type(e).__name__)
            continue
        nblocks = int(np.prod([len(c) for c in chunks]))
        chk.case(("rand", kind, dname, seed, shape, chunks), nontrivial=nblocks > 1, sample=desc if it < 4 else None)
        problems = []
        with warnings.catch_warnings():
            warnings.simplefilter("ignore")
            if not np.array_equal(x.compute(scheduler="sync"), v):
                problems.append("computing twice gives different values")
            if not np.array_equal(x.compute(scheduler="threads"), v):
                problems.append("threaded compute gives different values")
            y = make()
            if not np.array_equal(y.compute(scheduler="sync"), v):
                problems.append("rebuilding from the same seed, shape and chunks gives different values")
            z = cloudpickle.loads(cloudpickle.dumps(x))
            if not np.array_equal(z.compute(scheduler="sync"), v):
                problems.append("cloudpickle round trip changes the realization")
            for how, coll, want in derived(rng, x, v):
                try:
                    got = coll.compute(scheduler="sync")
                except Exception as e:  # noqa: BLE001
                    problems.append(f"{how} raises {type(e).__name__}")
                    continue
                ok, why = progs.values_equal(got, want)
                if not ok:
                    problems.append(f"{how} is not computed from the realization x.compute() shows ({why})")
                else:
                    chk.traces_validated += 1
            if not np.array_equal(x.compute(scheduler="sync"), v):
                problems.append("realization changed after derived computations")
        if problems:
            chk.violation("; ".join(problems[:3]), desc, signature={"class": "realization", "kind": kind, "problem": problems[0][:30]})


def replay(path):
    print(open(path).read())
