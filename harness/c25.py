"""C25 — store writes exactly the array into the requested target regions.

Correspondence: impl (dask_array.io._store.store, to_npy_stack / from_npy_stack) vs the
Gallina model (coq/theories/StoreModel.v) evaluated inside Coq, plus the property-level
oracle (NumPy assignment `t[region][:shape] = a`, frame untouched, read-back equals source)."""
from __future__ import annotations

import itertools
import os
import shutil
import tempfile
import threading
import warnings

import numpy as np

from common import SCRATCH_ROOT, Check, cbool, clist, copt, coq_eval_cases, coq_eval_expr, cslice, ctuple, cz, err_kind
from c13 import compositions, cpidx, sl_repr

HEADER = "From DA Require Import PyBase Slicing StoreModel.\nOpen Scope Z_scope.\n"
SENTINEL = -1
BASE = 1_000_000

SIG_DEDUP = {"fn": "store", "class": "equal-content-targets-deduplicated"}
SIG_SHORT = {"fn": "store", "class": "short-region-silent-drop"}
SIG_UNPICK = {"fn": "store", "class": "return-stored-unpicklable-target-raises"}


# ---------------------------------------------------------------------------
# targets and locks
_LOCKS = {}     # RecTarget.lock_key -> CountLock (kept out of the object so that it stays picklable)


class RecTarget:
    """A non-NumPy target: records every __setitem__ (index, value) before applying it."""

    def __init__(self, arr, lock=None):
        self.a = arr
        self.log = []
        self.lock_key = None
        if lock is not None:
            self.lock_key = id(lock)
            _LOCKS[self.lock_key] = lock
        self.unlocked_writes = 0

    def __setitem__(self, k, v):
        if self.lock_key is not None and not _LOCKS[self.lock_key].held:
            self.unlocked_writes += 1
        self.log.append((k, np.array(v, copy=True)))
        self.a[k] = v

    def __getitem__(self, k):
        return self.a[k]


class CountLock:
    """A lock object shared among all writes that counts acquire/release."""

    def __init__(self):
        self._l = threading.Lock()
        self.acquired = 0
        self.released = 0
        self.held = False

    def acquire(self, *a, **k):
        r = self._l.acquire(*a, **k)
        self.acquired += 1
        self.held = True
        return r

    def release(self):
        self.held = False
        self.released += 1
        self._l.release()

    def __enter__(self):
        self.acquire()
        return self

    def __exit__(self, *a):
        self.release()


# ---------------------------------------------------------------------------
# generators
def gen_chunks(rng, n, max_blocks=8, zero_p=0.08):
    """chunk sizes of an axis of length n; size-1 blocks are frequent"""
    if n == 0:
        return (0,)
    r = rng.random()
    if r < 0.12:
        cs = [1] * n if n <= max_blocks else [n]
    elif r < 0.25:
        cs = [n]
    elif r < 0.45 and n >= 3:   # a body followed by trailing 1-blocks
        k = rng.randint(1, min(3, n - 1, max_blocks - 1))
        cs = [n - k] + [1] * k
    else:
        k = min(rng.choice([1, 2, 2, 3, 4, 5, 8]), n, max_blocks)
        cuts = sorted(rng.sample(range(1, n), k - 1)) if k > 1 else []
        cs = [b - a for a, b in zip([0] + cuts, cuts + [n])]
    if rng.random() < zero_p:
        cs.insert(rng.randrange(len(cs) + 1), 0)
    return tuple(cs)


def gen_axis_region(rng, n):
    """(slice, N): the slice designates >= n cells of a target axis of length N (usually exactly n)."""
    kind = rng.choice(["full", "offset", "offset", "offset-open", "stepped", "stepped", "unit-step"])
    extra = rng.choice([0, 0, 0, 1, 3])
    if kind == "full":
        return slice(None), n + extra, kind
    if kind in ("offset", "unit-step"):
        a = rng.randint(0, 6)
        stop = a + n + (extra if rng.random() < 0.5 else 0)
        N = max(stop, a + n) + rng.choice([0, 0, 2])
        return slice(a, stop, 1 if kind == "unit-step" else None), N, kind
    if kind == "offset-open":
        a = rng.randint(0, 6)
        return slice(a, None), a + n + extra, kind
    k = rng.choice([2, 2, 3, 4])
    a = rng.randint(0, 3)
    last = a + (n - 1) * k if n > 0 else a
    if rng.random() < 0.4:
        stop = None
        N = (last + 1 if n > 0 else a) + rng.choice([0, 0, 1, k, 2 * k])
    else:
        stop = (last + rng.randint(1, k)) if n > 0 else a
        N = max(stop, last + 1) + rng.choice([0, 0, 2])
    return slice(a if rng.random() < 0.8 or a else None, stop, k), N, kind


def shorten(rng, s, N, n):
    """make the region designate fewer than n cells (n >= 1)"""
    a, b, k = s.indices(N)
    want = rng.randint(0, n - 1)
    if rng.random() < 0.5:
        # shrink the target
        N2 = a + (want - 1) * k + 1 if want > 0 else rng.randint(0, a)
        return s if s.stop is None or s.stop > N2 else slice(s.start, None, s.step), N2
    stop = a + (want - 1) * k + 1 if want > 0 else a
    return slice(s.start, stop, s.step), N


def gen_shape(rng):
    rank = rng.choice([1, 1, 2, 2, 3])
    if rank == 1:
        return (rng.choice([1, 2, 3, 5, 7, 12, 24, rng.randint(1, 24)]),)
    if rank == 2:
        return tuple(rng.choice([1, 2, 3, 4, 6, 9, 24, rng.randint(1, 24)]) for _ in range(2))
    return tuple(rng.choice([1, 2, 3, 4, 5, 7, rng.randint(1, 24)]) for _ in range(3))


def gen_pair(rng, k, mode, malformed=None):
    """one (source, target, region) triple.  Returns a dict describing it."""
    shape = gen_shape(rng)
    if rng.random() < 0.02:
        shape = tuple(0 if rng.random() < 0.5 else s for s in shape)
    maxb = {1: 10, 2: 6, 3: 4}[len(shape)]
    chunks = tuple(gen_chunks(rng, n, max_blocks=maxb) for n in shape)
    rank = len(shape)
    kinds = []
    if mode == "none":
        region = None
        tshape = [n + rng.choice([0, 0, 0, 2]) for n in shape]
    else:
        nreg = rank if mode != "short" else rng.randint(0, rank - 1)
        region, tshape = [], []
        for ax in range(rank):
            if ax < nreg:
                s, N, kind = gen_axis_region(rng, shape[ax])
                region.append(s)
                tshape.append(N)
                kinds.append(kind)
            else:
                tshape.append(shape[ax] + rng.choice([0, 0, 2]))
        if mode == "ints":
            for _ in range(rng.choice([1, 1, 2])):
                pos = rng.randint(0, len(region))
                N = rng.randint(1, 4)
                i = rng.randint(0, N - 1)
                if rng.random() < 0.3:
                    i -= N
                # an int may only be inserted among the region entries (target axes line up with them)
                region.insert(pos, i)
                tshape.insert(pos, N)
        region = tuple(region)
    bad = None
    if malformed == "short":
        cand = [ax for ax in range(rank) if shape[ax] >= 1]
        if cand:
            ax = rng.choice(cand)
            if region is None:
                tshape[ax] = rng.randint(0, shape[ax] - 1)
            else:
                pos = [i for i, r in enumerate(region) if isinstance(r, slice)]
                if ax < len(pos):
                    s, N = shorten(rng, region[pos[ax]], tshape[pos[ax]], shape[ax])
                    region = region[:pos[ax]] + (s,) + region[pos[ax] + 1:]
                    tshape[pos[ax]] = N
                else:
                    off = len(region) - len(pos)
                    tshape[ax + off] = rng.randint(0, shape[ax] - 1)
            # favour the silent case: trailing 1-blocks on the short axis
            if rng.random() < 0.5 and shape[ax] >= 2:
                k1 = rng.randint(1, min(3, shape[ax] - 1))
                chunks = chunks[:ax] + ((shape[ax] - k1,) + (1,) * k1,) + chunks[ax + 1:]
            bad = "short"
    elif malformed == "negative" and region:
        pos = [i for i, r in enumerate(region) if isinstance(r, slice)]
        if pos:
            p = rng.choice(pos)
            s, N = region[p], tshape[p]
            a, b, st = s.indices(N)
            which = rng.choice(["start", "stop", "step"])
            if which == "start" and N > 0:
                s = slice(a - N if a < N else -1, s.stop, s.step)
            elif which == "stop" and N > 0:
                s = slice(s.start, (b - N) if b < N else -1, s.step)
            else:
                s = slice(s.start, s.stop, -rng.choice([1, 2]))
            region = region[:p] + (s,) + region[p + 1:]
            bad = "negative"
    elif malformed == "zero-step" and region:
        pos = [i for i, r in enumerate(region) if isinstance(r, slice)]
        if pos:
            p = rng.choice(pos)
            region = region[:p] + (slice(region[p].start, region[p].stop, 0),) + region[p + 1:]
            bad = "zero-step"
    return {"shape": tuple(shape), "chunks": chunks, "region": region, "tshape": tuple(tshape),
            "base": BASE * (k + 1), "kinds": kinds, "bad": bad}


def source_array(p):
    size = int(np.prod(p["shape"])) if p["shape"] else 1
    return (p["base"] + np.arange(size, dtype=np.int64)).reshape(p["shape"])


def region_repr(r):
    if r is None:
        return "None"
    return "(" + "".join((sl_repr(x) if isinstance(x, slice) else str(x)) + ", " for x in r) + ")"


def cregion(r):
    return copt(r, lambda t: clist(t, cpidx))


def fits(p):
    """independent oracle: does every region axis designate at least as many cells as the source has?"""
    region, tshape, shape = p["region"], p["tshape"], p["shape"]
    if any(isinstance(r, slice) and r.step == 0 for r in (region or ())):
        return False
    lens = []
    ax_t = 0
    for r in (region or ()):
        if isinstance(r, slice):
            lens.append(len(range(*r.indices(tshape[ax_t]))))
        ax_t += 1
    lens += list(tshape[ax_t:])
    return len(lens) == len(shape) and all(L >= n for L, n in zip(lens, shape))


def expected_target(p, t0, a):
    e = t0.copy()
    if a.size == 0:
        return e
    v = e[p["region"]] if p["region"] is not None else e
    v[tuple(slice(0, s) for s in a.shape)] = a
    return e


def block_of(p, v):
    """block coordinates of a written value (its first element identifies it)"""
    first = int(np.asarray(v).flat[0]) - p["base"]
    pos = np.unravel_index(first, p["shape"])
    coords = []
    for ax, start in enumerate(pos):
        cs = p["chunks"][ax]
        starts = [0] + list(itertools.accumulate(cs))[:-1]
        cand = [b for b, (s0, c) in enumerate(zip(starts, cs)) if s0 == start and c > 0]
        coords.append(cand[-1])
    return coords


def positions(idx, tshape):
    """cells selected by a recorded index tuple, as a boolean count array increment"""
    m = np.zeros(tshape, dtype=np.int64)
    m[idx] += 1
    return m


# ---------------------------------------------------------------------------
def run_store(pairs, opts, da, dask):
    """Runs one store call.  Returns a dict with the observations."""
    store = da.store
    sources, targets, t0s, arrs = [], [], [], []
    lock = {"true": True, "false": False, "lock": threading.Lock(), "count": CountLock()}[opts["lock"]]
    shared = {}
    for p in pairs:
        a = source_array(p)
        arrs.append(a)
        sources.append(da.from_array(a, chunks=p["chunks"]))
        key = p.get("share")
        if key is not None and key in shared:
            t = shared[key]
        else:
            t = np.full(p["tshape"], SENTINEL, dtype=np.int64)
            if opts["target"] == "rec":
                t = RecTarget(t, lock if isinstance(lock, CountLock) else None)
            if key is not None:
                shared[key] = t
        targets.append(t)
        t0s.append(np.full(p["tshape"], SENTINEL, dtype=np.int64))
    regions_arg = [p["region"] for p in pairs]
    single = len(pairs) == 1 and opts.get("single", True)
    if all(r is None for r in regions_arg) and opts.get("regions_none", True):
        regions_arg = None
    elif single:
        regions_arg = regions_arg[0]
    kw = {}
    if opts["scheduler"] != "default":
        kw["scheduler"] = opts["scheduler"]
    obs = {"error": None, "returned": None, "untouched_before_compute": True}
    try:
        res = store(sources[0] if single else sources, targets[0] if single else targets, lock=lock,
                    regions=regions_arg, compute=opts["compute"], return_stored=opts["return_stored"],
                    **(kw if opts["compute"] else {}))
        if not opts["compute"]:
            for t in targets:
                arr = t.a if isinstance(t, RecTarget) else t
                if (arr != SENTINEL).any():
                    obs["untouched_before_compute"] = False
            if opts["return_stored"]:
                rs = (res,) if not isinstance(res, tuple) else res
                obs["returned"] = [(np.asarray(r.compute(**kw)), r.chunks) for r in rs]
            else:
                dask.compute(res, **kw)
        elif opts["return_stored"]:
            rs = (res,) if not isinstance(res, tuple) else res
            obs["returned"] = [(np.asarray(r.compute(**kw)), r.chunks) for r in rs]
        else:
            obs["result_is_none"] = res is None
    except Exception as e:  # noqa: BLE001
        obs["error"] = err_kind(e)
        obs["error_msg"] = str(e)[:200]
    obs["targets"] = targets
    obs["arrays"] = arrs
    obs["lock"] = lock
    return obs


def opts_repr(o):
    return {k: o[k] for k in ("lock", "scheduler", "compute", "return_stored", "target")}


def gen_opts(rng):
    return {"lock": rng.choice(["true", "true", "false", "lock", "count"]),
            "scheduler": rng.choice(["sync", "sync", "threads", "default"]),
            "compute": rng.random() < 0.75,
            "return_stored": rng.random() < 0.3,
            "target": rng.choice(["numpy", "rec", "rec"])}


def describe(pairs, opts):
    return {"pairs": [{"shape": p["shape"], "chunks": p["chunks"], "region": region_repr(p["region"]),
                       "tshape": p["tshape"], "base": p["base"], "share": p.get("share")} for p in pairs],
            "opts": opts_repr(opts)}


def repro(pairs, opts):
    parts_s, parts_t, parts_r = [], [], []
    for p in pairs:
        size = int(np.prod(p["shape"])) if p["shape"] else 1
        parts_s.append(f"da.from_array({p['base']}+np.arange({size}).reshape({p['shape']}), chunks={p['chunks']})")
        parts_t.append(f"np.full({p['tshape']}, -1)")
        parts_r.append(region_repr(p["region"]).replace("slice(", "slice(").replace(",)", ",)"))
    return (f"ts=[{', '.join(parts_t)}]; da.store([{', '.join(parts_s)}], ts, regions=[{', '.join(parts_r)}], "
            f"lock={ {'true': True, 'false': False}.get(opts['lock'], 'threading.Lock()') }, compute={opts['compute']}, "
            f"return_stored={opts['return_stored']}); ts")


# ---------------------------------------------------------------------------
ND_TYPE = ("bool * option (list pidx) * list (list Z) * list Z * option (list (list Z * list pidx)) * outcome")
ND_CHK = """
Definition nth_slices (chunks : list (list Z)) (coords : list Z) : list pslice :=
  map (fun cc => nth (Z.to_nat (snd cc)) (block_slices (fst cc)) colon) (combine chunks coords).
Definition rec_ok (region : option (list pidx)) (chunks : list (list Z)) (r : list Z * list pidx) : bool :=
  match store_index_nd region (map ISlice (nth_slices chunks (fst r))) with
  | Some i => list_eqb pidx_eqb i (snd r)
  | None => false
  end.
Definition nonempty_blocks (chunks : list (list Z)) : nat :=
  length (filter (fun bs => negb (existsb (Z.eqb 0) (map block_len bs))) (cart (map block_slices chunks))).
Definition completed (o : outcome) : bool := match o with OExact | OInexact => true | _ => false end.
Definition chk (c : """ + ND_TYPE + """) : bool :=
  let '(rs, region, chunks, Ns, recs, obs) := c in
  outcome_eqb (store_outcome_rs rs region Ns chunks) obs &&
  match recs with
  | None => true
  | Some rs => forallb (rec_ok region chunks) rs &&
               (negb (completed obs) || Nat.eqb (length rs) (nonempty_blocks chunks))
  end.
"""


def check_store_call(chk, pairs, opts, da, dask, nd_cases, nd_inputs, stream):
    """Run, check against the property oracle, queue the model comparison."""
    obs = run_store(pairs, opts, da, dask)
    desc = describe(pairs, opts)
    well = all(p["bad"] is None for p in pairs)
    all_fit = all(fits(p) for p in pairs)
    empty = all(0 in p["shape"] for p in pairs)     # nothing to write: every block is skipped
    chk.count(f"{stream}:pairs={len(pairs)}")
    chk.count(f"{stream}:lock={opts['lock']}")
    chk.count(f"{stream}:sched={opts['scheduler']}")
    chk.count(f"{stream}:compute={opts['compute']},return_stored={opts['return_stored']}")
    chk.count(f"{stream}:target={opts['target']}")
    for p in pairs:
        chk.count(f"{stream}:rank={len(p['shape'])}")
        chk.count(f"{stream}:region=" + ("None" if p["region"] is None else
                                         "ints" if any(not isinstance(r, slice) for r in p["region"]) else
                                         "short-tuple" if len(p["region"]) < len(p["shape"]) else "slices"))
        for kd in p["kinds"]:
            chk.count(f"{stream}:axis-region={kd}")
        if any(1 in cs for cs in p["chunks"]):
            chk.count(f"{stream}:has-size-1-block")
        if any(0 in cs for cs in p["chunks"]):
            chk.count(f"{stream}:has-size-0-block")
        if p["bad"]:
            chk.count(f"{stream}:bad={p['bad']}")
    if any(p.get("share") for p in pairs):
        chk.count(f"{stream}:two-sources-one-target")
    nblocks = sum(int(np.prod([len(c) for c in p["chunks"]])) for p in pairs)
    chk.case(("store", repr(desc)), nontrivial=nblocks > len(pairs),
             sample={"fn": "store", **desc, "error": obs["error"]})

    problems = []
    # ---- property-level oracle
    finals = []
    for p, t, a in zip(pairs, obs["targets"], obs["arrays"]):
        finals.append(t.a if isinstance(t, RecTarget) else t)
    if obs["error"] is None and empty and not all_fit:
        pass
    elif obs["error"] is None:
        if not all_fit:
            sig = dict(SIG_SHORT)
            chk.violation("store with a region/target smaller than the source returned normally and dropped source values",
                          {"fn": "store", **desc, "repro": repro(pairs, opts)}, signature=sig)
        else:
            # group pairs by target object: expected = successive NumPy assignments (disjoint by construction)
            seen = {}
            for p, t, a in zip(pairs, obs["targets"], obs["arrays"]):
                e = seen.get(id(t))
                if e is None:
                    e = np.full(p["tshape"], SENTINEL, dtype=np.int64)
                e = expected_target(p, e, a)
                seen[id(t)] = e
            for p, t, f in zip(pairs, obs["targets"], finals):
                if not np.array_equal(f, seen[id(t)]):
                    problems.append("final target differs from the NumPy assignment t[region][:shape] = a (or the frame was touched)")
                    break
        if not opts["compute"] and not obs["untouched_before_compute"]:
            problems.append("compute=False wrote to a target before the result was computed")
        if opts["compute"] and not opts["return_stored"] and not obs.get("result_is_none", True):
            problems.append("compute=True, return_stored=False did not return None")
        if obs["returned"] is not None and all_fit:
            if len(obs["returned"]) != len(pairs):
                problems.append("return_stored returned a different number of arrays")
            else:
                for (val, rchunks), a, p in zip(obs["returned"], obs["arrays"], pairs):
                    if not np.array_equal(val, a):
                        problems.append("return_stored array differs from the source")
                    if tuple(tuple(c) for c in rchunks) != tuple(tuple(c) for c in p["chunks"]):
                        problems.append("return_stored array has different chunks from the source")
    else:
        if well and all_fit:
            problems.append(f"store raised {obs['error']}: {obs.get('error_msg')}")
    lock = obs["lock"]
    if isinstance(lock, CountLock):
        if lock.acquired != lock.released or lock.held:
            problems.append(f"lock acquired {lock.acquired} times, released {lock.released} times")
        if obs["error"] is None and lock.acquired < nblocks:
            problems.append(f"lock acquired {lock.acquired} times for {nblocks} block tasks")
    # recorded writes: in-bounds (nothing clipped), pairwise disjoint, values = the block
    for p, t in zip(pairs, obs["targets"]):
        if not isinstance(t, RecTarget):
            continue
        if t.unlocked_writes:
            problems.append("a write happened while the shared lock was not held")
    for t in {id(t): t for t in obs["targets"] if isinstance(t, RecTarget)}.values():
        cnt = np.zeros(t.a.shape, dtype=np.int64)
        for k, v in t.log:
            try:
                m = positions(k, t.a.shape)
            except Exception:  # noqa: BLE001
                continue
            if obs["error"] is None and all_fit and int(m.sum()) != v.size:
                problems.append(f"write index {k} selects {int(m.sum())} cells for a block of {v.size} values")
            cnt += m
        if cnt.size and cnt.max() > 1:
            problems.append("two block writes overlap")
    if problems:
        sig = {"fn": "store", "class": "wrong-result"}
        chk.violation("; ".join(sorted(set(problems))), {"fn": "store", **desc, "error": obs["error"],
                                                         "repro": repro(pairs, opts)}, signature=sig)

    # ---- model comparison: one Coq case per pair
    for p, t in zip(pairs, obs["targets"]):
        if obs["error"] is None:
            o = "OExact" if fits(p) or 0 in p["shape"] else "OInexact"
        else:
            o = {"NotImplemented": "ONotImpl", "ValueError": "OValueErr", "IndexError": "OIndexErr"}.get(obs["error"], "OIndexErr")
        if len(pairs) > 1 and obs["error"] is not None:
            continue  # which pair failed is not observable
        recs = None
        if isinstance(t, RecTarget):
            recs = []
            lo, hi = p["base"], p["base"] + BASE
            for k, v in t.log:
                if v.size and lo <= int(v.flat[0]) < hi:
                    kk = k if isinstance(k, tuple) else (k,)
                    recs.append((block_of(p, v), kk))
            recs.sort(key=lambda r: r[0])
        nd_cases.append(ctuple(cbool(opts["return_stored"]), cregion(p["region"]), clist(p["chunks"], clist), clist(p["tshape"]),
                               copt(recs, lambda rs: clist(rs, lambda r: ctuple(clist(r[0]), clist(r[1], cpidx)))), o))
        nd_inputs.append((p, opts, o, None if recs is None else [(c, region_repr(k)) for c, k in recs]))
    return obs


def flush_nd(chk, nd_cases, nd_inputs):
    mism, _ = coq_eval_cases(HEADER, ND_TYPE, ND_CHK, nd_cases, chunk=300)
    for i in mism[:5]:
        p, opts, o, recs = nd_inputs[i]
        model = coq_eval_expr(HEADER, [f"store_outcome_rs {cbool(opts['return_stored'])} {cregion(p['region'])} {clist(p['tshape'])} {clist(p['chunks'], clist)}"])[0]
        chk.tie_break("correspondence:store(nd)", {"pair": describe([p], opts), "impl_outcome": o, "model_outcome": model,
                                                   "impl_writes": recs})
    chk.traces_validated += len(nd_cases) - len(mism)


# ---------------------------------------------------------------------------
def fam_store_nd(chk, da, dask, tier):
    rng = chk.rng
    nd_cases, nd_inputs = [], []
    # corpus: the minimal reproducers of the known findings come first
    x_pairs = [{"shape": (6,), "chunks": ((2, 2, 2),), "region": None, "tshape": (6,), "base": BASE, "kinds": [], "bad": None},
               {"shape": (6,), "chunks": ((2, 2, 2),), "region": None, "tshape": (6,), "base": BASE, "kinds": [], "bad": None}]
    dedup_case(chk, x_pairs, da)
    unpicklable_case(chk, da)
    short = [{"shape": (6,), "chunks": ((3, 1, 1, 1),), "region": (slice(0, 4),), "tshape": (10,), "base": BASE,
              "kinds": [], "bad": "short"}]
    check_store_call(chk, short, {"lock": "true", "scheduler": "sync", "compute": True, "return_stored": False,
                                  "target": "rec"}, da, dask, nd_cases, nd_inputs, "corpus")
    N = 9000 if tier == "thorough" else 600
    for _ in range(N):
        npairs = rng.choice([1, 1, 1, 2, 3])
        opts = gen_opts(rng)
        pairs = []
        for k in range(npairs):
            mode = rng.choice(["none", "tuple", "tuple", "tuple", "short", "ints"])
            pairs.append(gen_pair(rng, k, mode))
        if npairs >= 2 and rng.random() < 0.3:
            # two sources into one target, side by side along a new leading split: same tshape, disjoint regions
            p0 = pairs[0]
            p1 = dict(p0, base=BASE * 2)
            if p0["region"] is not None and p0["region"] and isinstance(p0["region"][0], slice) and len(p0["region"]) == len(p0["shape"]):
                s = p0["region"][0]
                a, b, k = s.indices(p0["tshape"][0])
                if k == 1:
                    n0 = p0["shape"][0]
                    off = p0["tshape"][0]
                    big = (off + a + n0 + 1,) + tuple(p0["tshape"][1:])
                    p0 = dict(p0, tshape=big, share="T")
                    p1 = dict(p1, tshape=big, share="T", region=(slice(off + a, off + a + n0),) + tuple(p0["region"][1:]))
                    pairs = [p0, p1] + pairs[2:]
        opts["single"] = rng.random() < 0.7
        opts["regions_none"] = rng.random() < 0.7
        check_store_call(chk, pairs, opts, da, dask, nd_cases, nd_inputs, "store")
    # malformed stream: region / target too small, negative fields, zero step
    M = 5000 if tier == "thorough" else 300
    for _ in range(M):
        opts = gen_opts(rng)
        opts["scheduler"] = rng.choice(["sync", "sync", "threads"])
        kind = rng.choice(["short", "short", "short", "negative", "zero-step"])
        mode = rng.choice(["none", "tuple", "tuple", "short", "ints"]) if kind == "short" else rng.choice(["tuple", "tuple", "ints"])
        p = gen_pair(rng, 0, mode, malformed=kind)
        opts["single"] = True
        check_store_call(chk, [p], opts, da, dask, nd_cases, nd_inputs, "malformed")
    flush_nd(chk, nd_cases, nd_inputs)


class HandleTarget:
    """a target that cannot be pickled (holds a lock, like an open file handle / h5py dataset)"""

    def __init__(self, n):
        self.a = np.full(n, SENTINEL, dtype=np.int64)
        self.handle = threading.Lock()

    def __setitem__(self, k, v):
        self.a[k] = v

    def __getitem__(self, k):
        return self.a[k]


def unpicklable_case(chk, da):
    a = BASE + np.arange(6, dtype=np.int64)
    x = da.from_array(a, chunks=2)
    chk.count("corpus:unpicklable-target")
    chk.case(("store-unpicklable",), nontrivial=True)
    for rs, compute in ((False, True), (True, False), (True, True)):
        t = HandleTarget(6)
        try:
            r = da.store(x, t, return_stored=rs, compute=compute, scheduler="sync")
            val = np.asarray(r.compute(scheduler="sync")) if rs else None
            if not compute and not rs:
                r.compute(scheduler="sync")
            err = None
        except Exception as e:  # noqa: BLE001
            err = type(e).__name__
        ok = err is None and np.array_equal(t.a, a) and (val is None or np.array_equal(val, a))
        if not ok:
            chk.violation(f"store(x, target, return_stored={rs}, compute={compute}) on a target that cannot be pickled "
                          f"raised {err} (after writing: {np.array_equal(t.a, a)})",
                          {"fn": "store", "return_stored": rs, "compute": compute, "error": err,
                           "repro": "class T:\n  def __init__(s): s.a=np.zeros(6); s.h=threading.Lock()\n  def __setitem__(s,k,v): s.a[k]=v\n"
                                    "  def __getitem__(s,k): return s.a[k]\nda.store(da.from_array(np.arange(6.),chunks=2), T(), return_stored=True)"},
                          signature=dict(SIG_UNPICK) if (rs and compute) else {"fn": "store", "class": "unpicklable-target"})


def dedup_case(chk, pairs, da):
    """two DISTINCT targets with equal contents and the same source: both must be written"""
    a = source_array(pairs[0])
    x = da.from_array(a, chunks=pairs[0]["chunks"])
    t1 = np.full(pairs[0]["tshape"], SENTINEL, dtype=np.int64)
    t2 = np.full(pairs[0]["tshape"], SENTINEL, dtype=np.int64)
    da.store([x, x], [t1, t2], scheduler="sync")
    chk.count("corpus:equal-content-targets")
    chk.case(("store-dedup", repr(pairs)), nontrivial=True)
    if not (np.array_equal(t1, a) and np.array_equal(t2, a)):
        chk.violation("store([x, x], [t1, t2]) with two distinct targets of equal contents wrote only one of them "
                      "(task names are tokenized on the target's contents, the two store-map layers collapse)",
                      {"fn": "store", "t1": t1.tolist(), "t2": t2.tolist(),
                       "repro": "x=da.from_array(np.arange(6),chunks=2); t1=np.full(6,-1); t2=np.full(6,-1); da.store([x,x],[t1,t2]); t2"},
                      signature=dict(SIG_DEDUP))


# ---------------------------------------------------------------------------
AX_TYPE = "option pslice * list Z * list Z * list Z * sres (list Z) * option (list (list Z))"
AX_CHK = """
Definition sres_list_eqb (a b : list (sres (list Z))) : bool :=
  list_eqb (fun x y => match x, y with SOk p, SOk q => zlist_eqb p q | _, _ => false end) a b.
Definition chk (c : """ + AX_TYPE + """) : bool :=
  let '(region, cs, src, tgt, obs, loaded) := c in
  match store_axis region cs src tgt, obs with
  | SOk a, SOk b =>
      zlist_eqb a b &&
      match loaded with
      | None => true
      | Some blocks => sres_list_eqb (load_stored 0 region cs b) (map SOk blocks)
      end
  | SNotImpl, SNotImpl => true
  | SValueErr, SValueErr => true
  | _, _ => false
  end.
"""


def fam_store_1d(chk, da, dask, tier):
    """the whole 1-d store evaluated in Coq (store_axis) against the final target, errors included"""
    rng = chk.rng
    inputs = []
    # exhaustive small scope
    top = 5 if tier == "thorough" else 4
    for n in range(1, top + 1):
        for cs in compositions(n):
            layouts = [cs]
            if len(cs) <= 2:
                layouts += [cs[:i] + (0,) + cs[i:] for i in range(len(cs) + 1)]
            for lay in layouts:
                regs = [(None, n), (None, n + 1), (None, n - 1)]
                for a in (0, 1, 2):
                    for k in (None, 1, 2, 3):
                        kk = k or 1
                        last = a + (n - 1) * kk
                        for stop in (None, last + 1, last + kk, last, last - kk + 1):
                            for N in (last + 1, last + 2, last):
                                if stop is not None and stop < 0 or N < 0:
                                    continue
                                regs.append((slice(a, stop, k), N))
                regs.append((slice(-n, None), n))
                regs.append((slice(0, -1), n + 1))
                regs.append((slice(0, n, 0), n))
                for r, N in regs:
                    inputs.append((r, lay, N))
    if tier != "thorough":
        rng.shuffle(inputs)
        inputs = inputs[:700]
    inputs.insert(0, (slice(0, 4), (3, 1, 1, 1), 10))       # corpus: silent drop
    for _ in range(12000 if tier == "thorough" else 700):
        n = rng.choice([1, 2, 3, 5, 8, 13, 24, rng.randint(1, 24)])
        cs = gen_chunks(rng, n, max_blocks=10, zero_p=0.12)
        if rng.random() < 0.15:
            r, N = None, n + rng.choice([0, 0, 2])
        else:
            r, N, _ = gen_axis_region(rng, n)
        z = rng.random()
        if z < 0.2:
            if r is None:
                N = rng.randint(0, n - 1)
            else:
                r, N = shorten(rng, r, N, n)
        elif z < 0.25 and r is not None:
            r = slice(-rng.randint(1, N) if N else -1, r.stop, r.step)
        elif z < 0.28 and r is not None:
            r = slice(r.start, r.stop, 0)
        inputs.append((r, cs, N))
    cases = []
    for r, cs, N in inputs:
        n = sum(cs)
        a = BASE + np.arange(n, dtype=np.int64)
        x = da.from_array(a, chunks=(cs,))
        t = np.full((N,), SENTINEL, dtype=np.int64)
        rs = rng.random() < 0.3
        sched = rng.choice(["sync", "sync", "threads"])
        region = None if r is None else (r,)
        loaded = None
        try:
            res = da.store(x, t, regions=region, lock=rng.choice([True, False]), return_stored=rs, scheduler=sched)
            err = None
            if rs:
                val = np.asarray(res.compute(scheduler=sched))
                offs = [0] + list(itertools.accumulate(res.chunks[0]))
                loaded = [val[i:j].tolist() for i, j in zip(offs[:-1], offs[1:])]
        except Exception as e:  # noqa: BLE001
            err = err_kind(e)
        if r is None:
            fit = N >= n
        elif r.step == 0:
            fit = False
        else:
            fit = len(range(*r.indices(N))) >= n
        chk.count("store1d:" + ("region=None" if r is None else "stepped" if (r.step or 1) > 1 else "unit"))
        chk.count("store1d:" + ("raises:" + err if err else "fits" if fit else "short-silent"))
        chk.case(("store1d", region_repr(region), cs, N), nontrivial=len(cs) > 1,
                 sample={"fn": "store(1d)", "region": region_repr(region), "chunks": cs, "target_len": N, "error": err})
        data = {"fn": "store", "region": region_repr(region), "chunks": cs, "target_len": N, "final": t.tolist(),
                "repro": f"t=np.full({N},-1); da.store(da.from_array({BASE}+np.arange({n}),chunks=({cs},)), t, regions={region_repr(region)}); t"}
        if err is None:
            if not fit:
                chk.violation("store with a region/target smaller than the source returned normally and dropped source values",
                              data, signature=dict(SIG_SHORT))
            else:
                e = np.full((N,), SENTINEL, dtype=np.int64)
                v = e[r] if r is not None else e
                v[:n] = a
                if not np.array_equal(t, e):
                    chk.violation("final target differs from t[region][:n] = a", data, signature={"fn": "store", "class": "wrong-result"})
                if loaded is not None and sum(loaded, []) != a.tolist():
                    chk.violation("return_stored array differs from the source", data, signature={"fn": "store", "class": "wrong-result"})
        elif fit and err != "NotImplemented":
            chk.violation(f"store raised {err} on a region that fits", data, signature={"fn": "store", "class": "raises"})
        elif err == "NotImplemented" and not (r is not None and any(v is not None and v < 0 for v in (r.start, r.stop, r.step))):
            chk.violation("store raised NotImplementedError for a region without negative fields", data,
                          signature={"fn": "store", "class": "raises"})
        obs = {"NotImplemented": "SNotImpl", "ValueError": "SValueErr"}.get(err, "SValueErr") if err else f"(SOk {clist(t.tolist())})"
        cases.append(ctuple(copt(r, cslice), clist(cs), clist(a.tolist()), clist([SENTINEL] * N), obs,
                            copt(loaded, lambda bl: clist(bl, clist))))
    mism, _ = coq_eval_cases(HEADER, AX_TYPE, AX_CHK, cases, chunk=300)
    for i in mism[:5]:
        r, cs, N = inputs[i]
        n = sum(cs)
        model = coq_eval_expr(HEADER, [f"store_axis {copt(r, cslice)} {clist(cs)} {clist((BASE + np.arange(n)).tolist())} {clist([SENTINEL] * N)}"])[0]
        chk.tie_break("correspondence:store(1d)", {"region": region_repr(None if r is None else (r,)), "chunks": cs, "target_len": N,
                                                   "impl": cases[i][-400:], "model": model[:600]})
    chk.traces_validated += len(cases) - len(mism)


# ---------------------------------------------------------------------------
NPY_TYPE = "Z * list (list Z) * list (list Z) * option Z"
NPY_CHK = """
Definition chk (c : """ + NPY_TYPE + """) : bool :=
  let '(axis, chunks, got, nfiles) := c in
  zlist2_eqb (npy_stack_chunks axis chunks) got && oZ_eqb (npy_stack_nfiles axis got) nfiles.
"""


def fam_npy_stack(chk, da, tier):
    rng = chk.rng
    cases, inputs = [], []
    root = tempfile.mkdtemp(prefix="verif-c25-npy-", dir=SCRATCH_ROOT)
    try:
        for it in range(1500 if tier == "thorough" else 100):
            shape = gen_shape(rng)
            chunks = tuple(gen_chunks(rng, n, max_blocks=6, zero_p=0.0) for n in shape)
            rank = len(shape)
            axis = rng.randrange(rank)
            neg = rng.random() < 0.1
            if it % 8 == 0:
                # many files: block k must be read back from "<k>.npy" (10.npy sorts before 2.npy as a string)
                nb = rng.choice([11, 12, 13, 21, 101])
                sizes = tuple(rng.choice([1, 1, 2]) for _ in range(nb)) if nb < 100 else (1,) * nb
                shape = tuple(sum(sizes) if k == axis else min(n, 3) for k, n in enumerate(shape))
                chunks = tuple(sizes if k == axis else (shape[k],) for k in range(rank))
                neg = False
                chk.count("npy:more-than-10-files")
            if neg:
                axis -= rank
            a = BASE + np.arange(int(np.prod(shape)), dtype=np.int64).reshape(shape)
            x = da.from_array(a, chunks=chunks)
            d = os.path.join(root, f"s{it}")
            da.to_npy_stack(d, x, axis=axis)
            files = sorted(f for f in os.listdir(d) if f.endswith(".npy"))
            y = da.from_npy_stack(d)
            val = np.asarray(y.compute(scheduler="sync"))
            got = tuple(tuple(int(c) for c in cs) for cs in y.chunks)
            chk.count(f"npy:rank={rank}")
            chk.count("npy:axis<0" if neg else "npy:axis>=0")
            chk.case(("npy", shape, chunks, axis), nontrivial=len(chunks[axis]) > 1,
                     sample={"fn": "to_npy_stack/from_npy_stack", "shape": shape, "chunks": chunks, "axis": axis, "files": len(files)})
            problems = []
            if not np.array_equal(val, a) or val.dtype != a.dtype:
                problems.append("round trip changes the values")
            if y.shape != a.shape:
                problems.append("round trip changes the shape")
            if not neg:
                if got[axis] != tuple(chunks[axis]):
                    problems.append("chunks along the stacking axis are not preserved")
                if len(files) != len(chunks[axis]):
                    problems.append("number of .npy files differs from the number of blocks along the axis")
                else:
                    offs = [0] + list(itertools.accumulate(chunks[axis]))
                    for i in range(len(files)):
                        slab = np.load(os.path.join(d, f"{i}.npy"))
                        sl = [slice(None)] * rank
                        sl[axis] = slice(offs[i], offs[i + 1])
                        if not np.array_equal(slab, a[tuple(sl)]):
                            problems.append(f"file {i}.npy is not the {i}-th slab along the axis")
                            break
            else:
                if len(files) != 1:
                    problems.append("negative axis: expected the single-file layout the code produces")
                chk.count("npy:negative-axis-writes-one-file(axis chunks ignored)")
            if problems:
                chk.violation("; ".join(problems), {"fn": "npy_stack", "shape": shape, "chunks": chunks, "axis": axis},
                              signature={"fn": "npy_stack", "class": "wrong-result"})
            cases.append(ctuple(cz(axis), clist(chunks, clist), clist(got, clist), copt(len(files))))
            inputs.append((shape, chunks, axis, got, len(files)))
            shutil.rmtree(d, ignore_errors=True)
    finally:
        shutil.rmtree(root, ignore_errors=True)
    mism, _ = coq_eval_cases(HEADER, NPY_TYPE, NPY_CHK, cases)
    for i in mism[:5]:
        shape, chunks, axis, got, nf = inputs[i]
        chk.tie_break("correspondence:npy_stack", {"shape": shape, "chunks": chunks, "axis": axis, "impl_chunks": got, "files": nf})
    chk.traces_validated += len(cases) - len(mism)


# ---------------------------------------------------------------------------
def replay(path):
    import json
    import dask
    import dask_array as da
    r = json.load(open(path))
    print(json.dumps(r, indent=1))
    d = r.get("data", {})
    rep = d.get("repro")
    if rep:
        print("re-running:", rep)
        env = {"da": da, "np": np, "dask": dask, "threading": threading, "slice": slice}
        *stmts, last = [s.strip() for s in rep.split(";")]
        try:
            for s in stmts:
                exec(s, env)
            print("impl now:", eval(last, env))
        except Exception as e:  # noqa: BLE001
            print("impl now raises:", type(e).__name__, e)
    else:
        print("(re-run the check to reproduce; inputs are in `data`)")


class PlainTarget:
    """a picklable non-NumPy target (module level: a process pool could ship it)"""

    def __init__(self, shape):
        self.a = np.full(shape, -1.0)

    def __setitem__(self, k, v):
        self.a[k] = v


def fam_store_directed(chk, da, dask):
    """(1) a serializing scheduler configured globally and no scheduler= argument: as soon as ANY target is an in-memory NumPy
    array the store must run locally, also when other targets of the same call are not ndarrays; (2) zero-dimensional sources
    stored with an all-integer region write exactly that cell"""
    a = np.arange(24.0).reshape(4, 6) + 1
    for mix in ("numpy+plain", "plain+numpy", "numpy+numpy", "numpy"):
        chk.count("store-directed:config-scheduler:" + mix)
        chk.case(("store-directed", "scheduler", mix), nontrivial=True)
        x = da.from_array(a, chunks=(2, 3))
        tn, tp, tn2 = np.full((6, 8), -1.0), PlainTarget((6, 8)), np.full((6, 8), -1.0)
        region = (slice(1, 5), slice(2, 8))
        srcs, tgts = {"numpy+plain": ([x, x * 2], [tn, tp]), "plain+numpy": ([x * 2, x], [tp, tn]),
                      "numpy+numpy": ([x, x * 2], [tn, tn2]), "numpy": ([x], [tn])}[mix]
        try:
            with dask.config.set(scheduler="processes"), warnings.catch_warnings():
                warnings.simplefilter("ignore")
                da.store(srcs, tgts, regions=[region] * len(srcs))
        except Exception as e:  # noqa: BLE001
            chk.violation(f"store with a globally configured process scheduler raises {type(e).__name__}: {str(e)[:100]}", {"targets": mix},
                          signature={"fn": "store", "class": "config-scheduler-raises"})
            continue
        want = np.full((6, 8), -1.0)
        want[region] = a
        if not np.array_equal(tn, want):
            chk.violation("store under a globally configured process scheduler left the in-memory NumPy target unwritten "
                          "(it was written in a worker's copy)", {"targets": mix, "target": tn.tolist()},
                          signature={"fn": "store", "class": "wrong-result", "via": "config-scheduler", "targets": mix})
        else:
            chk.traces_validated += 1
    b = np.arange(24.0).reshape(4, 6)
    for k, (mk, val, region, tshape) in enumerate([
            (lambda: da.from_array(b, chunks=(2, 3)).sum(), b.sum(), (1, 2), (3, 4)),
            (lambda: da.from_array(b, chunks=(2, 3)).max(), b.max(), (2, 0), (3, 4)),
            (lambda: da.from_array(b, chunks=(2, 3))[1, 2], b[1, 2], (0,), (5,)),
            (lambda: da.from_array(b, chunks=(2, 3)).mean(), b.mean(), (1, 1, 0), (2, 2, 2))]):
        for kind in ("numpy", "recording"):
            chk.count("store-directed:0d-with-region")
            chk.case(("store-directed", "0d", k, kind), nontrivial=True)
            base = np.full(tshape, -1.0)
            tgt = base if kind == "numpy" else RecTarget(base)
            try:
                with warnings.catch_warnings():
                    warnings.simplefilter("ignore")
                    da.store(mk(), tgt, regions=region, scheduler="sync")
            except Exception as e:  # noqa: BLE001
                chk.violation(f"storing a 0-d source with an integer region raises {type(e).__name__}: {str(e)[:100]}", {"region": region, "target_shape": tshape},
                              signature={"fn": "store", "class": "0d-region-raises"})
                continue
            want = np.full(tshape, -1.0)
            want[region] = val
            if not np.array_equal(base, want):
                chk.violation("a 0-d source stored with an all-integer region wrote outside its cell", {"region": region, "target": base.tolist(), "want": want.tolist()},
                              signature={"fn": "store", "class": "wrong-result", "via": "0d-region"})
            else:
                chk.traces_validated += 1


def run(chk: Check):
    import dask
    import dask_array as da
    chk.rule = ("generated + exhaustive-small stores: sources of rank 1-3 (dims <= 24, random chunkings with size-1 and size-0 "
                "blocks), regions None / full / offset / open / stepped slices / shorter tuples / integer entries, 1-3 "
                "(source, target) pairs per call incl. two sources into one target, lock True/False/Lock/counting lock, "
                "compute=False then compute, return_stored, sync and threaded schedulers, NumPy and recording non-NumPy "
                "targets; every call: final targets vs NumPy assignment t[region][:shape] = a with sentinel frame, recorded "
                "per-block write indices vs the Gallina model's store_index_nd (exact, inside Coq), outcome class vs "
                "store_outcome; 1-d calls additionally vs store_axis / load_stored evaluated in Coq cell by cell; malformed "
                "stream (region or target too small, negative fields, zero step) must raise; npy-stack round trips on "
                "/var/tmp vs npy_stack_chunks; non-trivial = more than one block / more than one file")
    chk.assumptions = ["NumPy basic-slice assignment semantics as transcribed in np_setitem/index_shape/bcast_rev (validated by the "
                       "1-d and outcome correspondences, error cases included)",
                       "the lock only brackets the write and never changes values (checked dynamically with a counting lock)",
                       "tasks of one store run against the live target objects (local schedulers)"]
    chk.trusted_base = ["recording target harness/c25.py:RecTarget (identifies the written block by its first value)"]
    chk.run_proofs()
    fam_store_directed(chk, da, dask)
    fam_store_nd(chk, da, dask, chk.tier)
    fam_store_1d(chk, da, dask, chk.tier)
    fam_npy_stack(chk, da, chk.tier)
