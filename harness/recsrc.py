"""A recording array-like source for the C24 check.

`RecSource` is deliberately NOT an np.ndarray subclass (and has no
`__array_function__`), so `da.from_array` takes the non-NumPy path: every block
is read through `getter(a, b, asarray, lock)` -> `a[b]`, and every request tuple
is appended to `.log`.  Optional features:

* `.chunks` attribute advertising a storage grid (chunk *sizes* per axis, as
  zarr/h5py expose it) -- only set when `storage` is given;
* `.shards` attribute (zarr 3) -- only set when `shards` is given;
* a lock (`RecLock`) that counts acquire/release and lets the source assert that
  it is held while `__getitem__` runs;
* `rec_getitem(...)`: a custom `getitem=` callable for `from_array` that logs
  through a side channel, in the two signatures users write (`(a, b)` and
  `(a, b, asarray=True, lock=None)`).
"""
from __future__ import annotations

import sys

import numpy as np


class RecLock:
    """A context-manager lock that counts its uses (not thread safe: the harness
    computes with scheduler="sync")."""

    def __init__(self):
        self.held = 0
        self.acquired = 0
        self.released = 0

    def acquire(self, *a, **k):
        self.held += 1
        self.acquired += 1
        return True

    def release(self):
        self.held -= 1
        self.released += 1

    def __enter__(self):
        self.acquire()
        return self

    def __exit__(self, *a):
        self.release()

    def __bool__(self):
        return True


class RecSource:
    def __init__(self, data, storage=None, shards=None, lock=None):
        self._data = np.asarray(data)
        self.shape = self._data.shape
        self.dtype = self._data.dtype
        self.ndim = self._data.ndim
        self.log = []            # every DATA request, as a tuple of (start, stop, step) / ("int", k) entries
        self.meta_probes = []    # zero-size requests issued by dask_array._utils.meta_from_array (metadata, not data)
        self.bad = []            # requests that are not tuples of in-range unit-step slices
        self.unlocked = 0        # reads performed while `lock` was not held
        self._lock = lock
        if storage is not None:
            self.chunks = tuple(storage)
        if shards is not None:
            self.shards = tuple(shards)

    def __len__(self):
        return self.shape[0]

    def _from_meta_probe(self):
        fr = sys._getframe(2)
        for _ in range(8):
            if fr is None:
                return False
            if fr.f_code.co_name == "meta_from_array":
                return True
            fr = fr.f_back
        return False

    def _record(self, key):
        if not isinstance(key, tuple):
            key = (key,)
        if self._from_meta_probe():
            self.meta_probes.append(key)
            return
        ent = []
        ok = len(key) == self.ndim
        for k, n in zip(key, self.shape):
            if isinstance(k, slice):
                ent.append((k.start, k.stop, k.step))
                if not (isinstance(k.start, (int, np.integer)) and isinstance(k.stop, (int, np.integer))
                        and k.step in (None, 1) and 0 <= k.start <= k.stop <= n):
                    ok = False
            else:
                ent.append(("int", int(k)))
                if not (0 <= int(k) < n):
                    ok = False
        ent = tuple(ent)
        self.log.append(ent)
        if not ok:
            self.bad.append(ent)
        if self._lock is not None and not self._lock.held:
            self.unlocked += 1

    def __getitem__(self, key):
        self._record(key)
        return self._data[key]


def rec_getitem(style):
    """custom getitem callables; `.calls` counts invocations"""
    if style == "two":
        def g(a, b):
            g.calls += 1
            return np.asarray(a[b])
    elif style == "kw":
        def g(a, b, asarray=True, lock=None):
            g.calls += 1
            if lock:
                lock.acquire()
            try:
                c = a[b]
                if asarray:
                    c = np.asarray(c)
            finally:
                if lock:
                    lock.release()
            return c
    else:
        raise ValueError(style)
    g.calls = 0
    return g
