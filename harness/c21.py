"""C21 — the Frisky records path computes the same results as the dask graph.

(The native Rust layers cannot be built here — every `_frisky_layer()` that needs the extension raises ImportError
and the walk falls back to the generic `GraphRecordsLayer` translation, which is what this check exercises; the one
native layer that is pure Python, FusedBlockwiseLayer, does run.)

Two families:
  * differential execution (check_collection, the shared walk): the real records are executed in-process and compared
    with what `__dask_graph__()` computes;
  * model correspondence (model_correspondence): real and synthetic `_task_spec` graphs and the records the real
    `GraphRecordsLayer.to_task_records()` makes of them are reified into Coq and compared structurally with the
    model `flatten` of coq/theories/Records.v (theorems: coq/Properties/C21.v); likewise `_check_complete` and the
    visiting order of `_walk_records` with a shared `seen`."""
from __future__ import annotations

import numbers
import re
import warnings

import dask.local
import numpy as np
import toolz
from dask._task_spec import Alias, DataNode, GraphNode, List, NestedContainer, Set, Task, TaskRef, Tuple
from dask._task_spec import Dict as TSDict
from dask._task_spec import convert_legacy_graph
from dask.core import flatten

import progs
from c10 import fp
from common import Check, clist, coq_eval_cases, ctuple


def err_sig(e):
    return re.sub(r"[0-9(),\[\]'-]+", "#", f"{type(e).__name__}: {e}")[:36]


def resolve(arg, cache):
    if isinstance(arg, TaskRef):
        return cache[str(arg.key)]
    if isinstance(arg, list):
        return [resolve(a, cache) for a in arg]
    if isinstance(arg, tuple):
        return tuple(resolve(a, cache) for a in arg)
    if isinstance(arg, dict):
        return {k: resolve(v, cache) for k, v in arg.items()}
    return arg


def refs_in(arg, acc):
    if isinstance(arg, TaskRef):
        acc.add(str(arg.key))
    elif isinstance(arg, (list, tuple)):
        for a in arg:
            refs_in(a, acc)
    elif isinstance(arg, dict):
        for a in arg.values():
            refs_in(a, acc)
    return acc


def execute_records(records):
    """in-process executor of flat (key, func, args, kwargs, deps) records"""
    by_key = {}
    problems = []
    for r in records:
        if r[0] in by_key:
            o = by_key[r[0]]
            # the same helper task emitted by two layers is harmless; two DIFFERENT tasks under one key are not
            if o[1] is not r[1] or list(o[4]) != list(r[4]) or len(o[2]) != len(r[2]):
                problems.append(f"key {r[0]} produced by two different records")
        by_key[r[0]] = r
    for key, func, args, kwargs, deps in records:
        embedded = refs_in(args, set()) | refs_in(kwargs, set())
        if embedded - set(deps):
            problems.append(f"record {key} embeds references not declared as deps: {sorted(embedded - set(deps))[:2]}")
    indeg = {k: len([d for d in r[4] if d in by_key]) for k, r in by_key.items()}
    dangling = sorted({d for r in records for d in r[4]} - set(by_key))
    if dangling:
        problems.append(f"{len(dangling)} dangling dep(s), e.g. {dangling[0]}")
        return {}, problems
    users = {}
    for k, r in by_key.items():
        for d in r[4]:
            users.setdefault(d, []).append(k)
    ready = [k for k, n in indeg.items() if n == 0]
    cache = {}
    done = 0
    while ready:
        k = ready.pop()
        _, func, args, kwargs, deps = by_key[k]
        cache[k] = func(*resolve(args, cache), **resolve(kwargs, cache))
        done += 1
        for u in users.get(k, ()):
            indeg[u] -= 1
            if indeg[u] == 0:
                ready.append(u)
    if done != len(by_key):
        problems.append("records graph has a cycle")
    return cache, problems


def fused_creation(x):
    """does a FusedBlockwise node of the lowered expression have no array input at all (a creation op such as ones() was
    fused into the chain, so the fused task's literals depend on the block)?"""
    try:
        return any(type(e).__name__ == "FusedBlockwise" and not e.dependencies() for e in x._lowered_expr.walk())
    except Exception:  # noqa: BLE001
        return False


def ragged(x):
    """does some expression of the lowered collection have an axis whose blocks are not all equal up to a shorter LAST block?
    (the regime of finding C21-A: block-independence is verified on first / middle / last probe blocks only)"""
    try:
        import itertools as _it
        for e in _it.chain(x.expr.walk(), x._lowered_expr.walk()):
            ch = getattr(e, "chunks", None)
            if ch is None:
                continue
            for c in ch:
                if len(c) > 2 and len(set(c[:-1])) > 1 or (len(c) > 1 and c[-1] > c[0]):
                    return True
    except Exception:  # noqa: BLE001
        pass
    return False


def creation_fused_ragged(x):
    """is a creation op (an expression without inputs) fused into a FusedBlockwise node some axis of which has blocks of
    different sizes?  (finding C21-A with a source present: the wrongly sized inner block meets the real source block)"""
    try:
        for e in x._lowered_expr.walk():
            if type(e).__name__ == "FusedBlockwise" and any(not q.dependencies() for q in e.exprs) \
                    and any(len(set(c)) > 1 for q in (e, *e.exprs) for c in q.chunks):
                return True
    except Exception:  # noqa: BLE001
        pass
    return False


def check_collection(chk, x, desc, tag):
    """one collection alone"""
    try:
        with warnings.catch_warnings():
            warnings.simplefilter("ignore")
            records = x.__frisky_graph__()
            out_keys = x.__frisky_output_keys__()
    except NotImplementedError:
        chk.count("declined")
        return None
    chk.count("records-path")
    with warnings.catch_warnings():
        warnings.simplefilter("ignore")
        keys = list(flatten(x.__dask_keys__()))
        want = dask.local.get_sync(dict(x.__dask_graph__()), keys)
        try:
            cache, problems = execute_records(records)
        except Exception as e:  # noqa: BLE001
            chk.violation(f"executing the records raises {type(e).__name__}: {str(e)[:100]}", desc,
                          signature={"class": "records-raise", "error": err_sig(e), "root_op": tag,
                                     "creation_fused_ragged": creation_fused_ragged(x)})
            return records
    if out_keys != list(dict.fromkeys(str(k) for k in keys)):
        problems.append("__frisky_output_keys__ differs from the stringified dask keys")
    kind = None
    for k, w in zip(keys, want):
        if str(k) not in cache:
            problems.append(f"output key {k} is not defined by the records")
            break
        if fp(np.asarray(cache[str(k)])) != fp(np.asarray(w)):
            gs, ws = np.asarray(cache[str(k)]).shape, np.asarray(w).shape
            problems.append(f"block {k} differs between the records path {gs} and __dask_graph__ {ws}")
            if kind is None and gs != ws:
                kind = "block-shape"
            break
    if problems:
        sig = {"class": "records", "problem": problems[0][:24], "root_op": tag}
        if kind != "block-shape" and any("differs between the records path" in p_ for p_ in problems) and fused_creation(x):
            # the wrongly shaped block of finding C21-A consumed by a reduction: same shape, other value
            sig = {"class": "records", "kind": "block-value-downstream-of-fused-creation", "fused_creation": True, "ragged_chunks": ragged(x)}
        if kind == "block-shape":
            # which layer produced the records of the wrong block: the native pure-Python FusedBlockwiseLayer?
            sig["kind"] = kind
            sig["native_fused_root"] = type(x._lowered_expr).__name__ == "RootAlias" and any(
                type(e).__name__ == "FusedBlockwise" for e in x._lowered_expr.dependencies()) or type(x._lowered_expr).__name__ == "FusedBlockwise"
            sig["fused_creation"] = fused_creation(x)
        chk.violation("; ".join(problems[:3]), desc, signature=sig)
    else:
        chk.traces_validated += len(keys)
    return records


# =====================================================================================
# Correspondence with the Coq model (coq/theories/Records.v)
#
#   flatten   <->  GraphRecordsLayer.to_task_records  (_records / _Flattener.resolve)
#   dangling  <->  collect._check_complete
#   walk      <->  collect._walk_records (shared `seen`)
#
# A real layer is reified twice, independently: its INPUT (the `_task_spec` graph that
# `convert_legacy_graph(node._layer(), all_keys)` yields: node kinds, nesting of args) and
# the OUTPUT of the real `to_task_records()` (keys incl. "-subN" keys, funcs, arg skeletons,
# deps); Coq then checks `flatten input = output` structurally.  Keys are numbered by their
# normalized string, functions / literal leaves / kwarg names become opaque tags (same object,
# or equal simple immutable value -> same tag).
REC_HEADER = ("From DA Require Import Graph Records.\n"
              "From Coq Require Import List PArith Arith.\nImport ListNotations.\n"
              "Fixpoint mismatches_from {A} (i : nat) (chk : A -> bool) (l : list A) : list nat :=\n"
              "  match l with [] => [] | x :: t => if chk x then mismatches_from (S i) chk t\n"
              "                                    else i :: mismatches_from (S i) chk t end.\n"
              "Definition mismatches {A} (chk : A -> bool) (l : list A) : list nat := mismatches_from 0%nat chk l.\n"
              "Fixpoint idx (k : rkey) (l : list rkey) : nat :=\n"
              "  match l with [] => O | x :: t => if rkey_eqb k x then O else S (idx k t) end.\n"
              "Open Scope positive_scope.\n")
# (string order of all record keys, input graph, real output or None = NotImplementedError, #dangling reported,
#  no DataNode value embeds a TaskRef, no raw list/tuple/dict holds a GraphNode or TaskRef (the harness's own scans))
FLAT_TYPE = "list rkey * sgraph * option (list rec) * nat * bool * bool"
FLAT_CHK = ("Definition chk (c : " + FLAT_TYPE + ") : bool :=\n"
            "  let '(ord, g, out, nd, dok, rok) := c in\n"
            "  Bool.eqb (data_ok g) dok && Bool.eqb (raw_ok g) rok &&\n"
            "  match flatten_opt (fun a b => Nat.leb (idx a ord) (idx b ord)) g, out with\n"
            "  | Some rs, Some rs' => recs_eqb rs rs' && Nat.eqb (length (nodup rkey_eq_dec (dangling rs'))) nd\n"
            "  | None, None => true\n"
            "  | _, _ => false\n"
            "  end.")
# (dag as (name, deps), [(root, names emitted by the real walk for that root)] with one shared seen)
WALK_TYPE = "list (positive * list positive) * list (positive * list positive)"
WALK_CHK = ("Fixpoint go (d : dag) (rs : list (positive * list positive)) (seen : list positive) : bool :=\n"
            "  match rs with\n"
            "  | [] => true\n"
            "  | (r, em) :: t => match walk d [r] seen with\n"
            "                    | Some (seen1, em1) => glist_eqb2 Pos.eqb em1 em && go d t seen1\n"
            "                    | None => false end\n"
            "  end.\n"
            "Definition chk (c : " + WALK_TYPE + ") : bool :=\n"
            "  let '(d, rs) := c in go (map (fun nd => mklnode (fst nd) [] (snd nd)) d) rs [].")

MAX_LAYER_NODES = 300
MAX_LAYER_SIZE = 6000
SUB_RE = re.compile(r"^(.*)-sub(\d+)$", re.S)


def norm_key_str(key):
    """the identity of a key on the records path: str of the key with integral coords as plain ints"""
    if isinstance(key, tuple):
        key = tuple(int(k) if isinstance(k, numbers.Integral) else k for k in key)
    return str(key)


class Skip(Exception):
    pass


class Reifier:
    """One layer -> Coq literals."""

    def __init__(self):
        self.kid = {}                       # key string -> positive
        self.by_id = {id(toolz.identity): 1}
        self.by_fp = {}
        self.next_tag = 2
        self.keep = []                      # keeps tagged objects alive (ids stay unique)
        self.size = 0
        self.nsub = 0
        self.data_with_ref = False
        self.raw_depth = 0                  # > 0 while inside a raw Python list / tuple / dict
        self.raw_holds_node = False         # a GraphNode / TaskRef inside a raw container (data for dask, resolved by the records path)
        self.unknown_keys = []

    # ---- numbering
    def key(self, k):
        s = norm_key_str(k)
        return self.kid.setdefault(s, len(self.kid) + 1)

    def tag(self, x):
        t = self.by_id.get(id(x))
        if t is None:
            fpk = None
            if type(x) in (int, float, str, bool, type(None), bytes, complex, slice) or isinstance(x, (np.generic, np.dtype)):
                fpk = (type(x).__name__, repr(x))
            if fpk is not None:
                t = self.by_fp.get(fpk)
            if t is None:
                t = self.next_tag
                self.next_tag += 1
                if fpk is not None:
                    self.by_fp[fpk] = t
            self.by_id[id(x)] = t
            self.keep.append(x)
        return t

    def bump(self):
        self.size += 1
        if self.size > MAX_LAYER_SIZE:
            raise Skip

    # ---- record-side values (targ): DataNode values and the args of the real records
    def rkey(self, s, out=False):
        if s in self.kid:
            return f"KG {self.kid[s]}"
        m = SUB_RE.match(s)
        if m and m.group(1) in self.kid:
            return f"KSub {self.kid[m.group(1)]} {int(m.group(2))}%nat"
        if out:
            self.unknown_keys.append(s)
        return f"KG {self.key(s)}"

    def val(self, v, out=False):
        self.bump()
        if isinstance(v, TaskRef):
            if not out:
                self.data_with_ref = True
            # on the OUTPUT side a ref is identified the way Frisky matches it to a producer: by the plain str() of its key
            return f"(TRef ({self.rkey(str(v.key) if out else norm_key_str(v.key), out)}))"
        if isinstance(v, list):
            return "(TList " + clist(v, lambda a: self.val(a, out)) + ")"
        if isinstance(v, tuple):
            return "(TTuple " + clist(v, lambda a: self.val(a, out)) + ")"
        if isinstance(v, dict):
            return "(TDict " + clist(v.items(), lambda kv: ctuple(str(self.tag(kv[0])), self.val(kv[1], out))) + ")"
        return f"(TLit {self.tag(v)})"

    # ---- source side
    def kw(self, d):
        return clist((d or {}).items(), lambda kv: ctuple(str(self.tag(kv[0])), self.arg(kv[1])))

    def raw(self, items, f):
        self.raw_depth += 1
        try:
            return clist(items, f)
        finally:
            self.raw_depth -= 1

    def arg(self, a):
        self.bump()
        if self.raw_depth and isinstance(a, (TaskRef, GraphNode)):
            self.raw_holds_node = True
        if isinstance(a, TaskRef):
            return f"(ARef {self.key(a.key)})"
        if isinstance(a, Alias):
            return f"(AAlias {self.key(a.target)})"
        if isinstance(a, DataNode):
            return f"(AData {self.val(a.value)})"
        if isinstance(a, NestedContainer) and a.klass in (list, tuple):
            return f"(ASeq {'ContList' if a.klass is list else 'ContTuple'} {clist(a.args, self.arg)})"
        if isinstance(a, Task):
            self.nsub += 1
            return f"(ATask {self.tag(a.func)} {clist(a.args, self.arg)} {self.kw(a.kwargs)})"
        if isinstance(a, GraphNode):
            return "AOther"
        if isinstance(a, list):
            return f"(ASeq RawList {self.raw(a, self.arg)})"
        if isinstance(a, tuple):
            return f"(ASeq RawTuple {self.raw(a, self.arg)})"
        if isinstance(a, dict):
            return "(ADict " + self.raw(a.items(), lambda kv: ctuple(str(self.tag(kv[0])), self.arg(kv[1]))) + ")"
        return f"(ALit {self.tag(a)})"

    def node(self, n):
        self.bump()
        if isinstance(n, Alias):
            return f"(NAlias {self.key(n.target)})"
        if isinstance(n, DataNode):
            return f"(NData {self.val(n.value)})"
        if isinstance(n, NestedContainer) and n.klass in (list, tuple):
            return f"(NCont {'true' if n.klass is list else 'false'} {clist(n.args, self.arg)})"
        if isinstance(n, Task):
            return f"(NTask {self.tag(n.func)} {clist(n.args, self.arg)} {self.kw(n.kwargs)})"
        if isinstance(n, GraphNode):
            return "NOther"
        return f"(NData {self.val(n)})"     # bare value: same record as a DataNode

    def record(self, r):
        key, func, args, kwargs, deps = r
        if not (isinstance(key, str) and isinstance(args, tuple) and isinstance(kwargs, dict)
                and isinstance(deps, list) and all(isinstance(d, str) for d in deps)):
            raise ValueError("record is not (str, func, tuple, dict, list[str])")
        return (f"(mkrec ({self.rkey(key, True)}) {self.tag(func)} {clist(args, lambda a: self.val(a, True))} "
                + clist(kwargs.items(), lambda kv: ctuple(str(self.tag(kv[0])), self.val(kv[1], True)))
                + " " + clist(deps, lambda d: "(" + self.rkey(d, True) + ")") + ")")


class LayerProxy:
    """Stands in for an expression node: `_layer()` returns ONE dict object, so that the graph the harness
    reifies and the graph `to_task_records` translates hold the very same function / literal objects."""

    def __init__(self, local, deps):
        self._local, self._deps = local, deps

    def _layer(self):
        return self._local

    def dependencies(self):
        return self._deps


class KeysOnly:
    def __init__(self, keys):
        self._keys = keys

    def __dask_keys__(self):
        return list(self._keys)


def layer_case(chk, local, deps, what):
    """(coq case literal, info) for one layer, or None when skipped"""
    from dask_array._frisky import collect
    from dask_array._frisky.graph_records import GraphRecordsLayer
    all_keys = set(local)
    for dep in deps:
        all_keys.update(flatten(dep.__dask_keys__()))
    dsk = convert_legacy_graph(local, all_keys)
    if len(dsk) > MAX_LAYER_NODES:
        chk.count("corr:skipped-large")
        return None
    try:
        recs = GraphRecordsLayer(LayerProxy(local, deps)).to_task_records()
    except NotImplementedError:
        recs = None
    R = Reifier()
    try:
        for k in dsk:                       # graph keys first: they take the ids 1..n in dict order
            R.key(k)
        subs = []                           # (parent key string, number of inline tasks)
        nodes = []
        for k, n in dsk.items():
            R.nsub = 0
            nodes.append(ctuple(str(R.key(k)), R.node(n)))
            if R.nsub:
                subs.append((norm_key_str(k), R.nsub))
        n_dangling = 0
        if recs is None:
            out = "None"
        else:
            out = "(Some " + clist(recs, R.record) + ")"
            try:
                collect._check_complete(recs)
            except NotImplementedError as e:
                n_dangling = int(re.search(r"has (\d+) dangling", str(e)).group(1))
    except Skip:
        chk.count("corr:skipped-large")
        return None
    # the oracle: Python's order of the key STRINGS (graph keys and every possible "-subN" key)
    universe = [(s, f"KG {i}") for s, i in R.kid.items()]
    universe += [(f"{ps}-sub{j}", f"KSub {R.kid[ps]} {j}%nat") for ps, n in subs for j in range(1, n + 1)]
    strings = [s for s, _ in universe]
    collision = len(set(strings)) != len(strings)
    universe.sort(key=lambda p: p[0])
    lit = ctuple(clist(universe, lambda p: "(" + p[1] + ")"), clist(nodes, str), out, f"{n_dangling}%nat",
                 "false" if R.data_with_ref else "true", "false" if R.raw_holds_node else "true")
    info = {"what": what, "nodes": len(dsk), "records": None if recs is None else len(recs), "subs": sum(n for _, n in subs),
            "collision": collision, "data_with_ref": R.data_with_ref, "raw_holds_node": R.raw_holds_node, "unknown_keys": R.unknown_keys[:3], "size": R.size,
            "declined": recs is None}
    return lit, info


# ---- synthetic `_task_spec` graphs: every construct of the source language, nested at random
def _syn_f(*a, **k):
    return ("f", a, tuple(sorted(k.items(), key=str)))


def _syn_g(*a, **k):
    return ("g", a, tuple(sorted(k.items(), key=str)))


class Weird(GraphNode):
    """a GraphNode the translation does not know: NotImplementedError expected"""
    __slots__ = ()

    def __init__(self):
        self.key = None
        self._dependencies = frozenset()


def syn_graph(rng):
    names = ["x", "y"]
    nkeys = rng.choice([1, 2, 3, 4])
    keys = [(rng.choice(names), np.int64(i) if rng.random() < 0.3 else i) for i in range(nkeys)]
    if rng.random() < 0.15:
        keys.append("plain-key")
    ext = [("z", 0), ("z", np.int64(1)), "ext"]

    def ref_key():
        return rng.choice(keys + ext)

    def lit():
        return rng.choice([0, 1, 7, "s", None, 2.5, slice(0, 3), (1, 2), np.int64(3), [1, [2]], {"a": 1}])

    def arg(depth):
        r = rng.random()
        if depth <= 0 or r < 0.25:
            c = rng.random()
            if c < 0.4:
                return TaskRef(ref_key())
            if c < 0.55:
                return Alias(ref_key())
            if c < 0.7:
                return DataNode(None, lit())
            return lit()
        kids = [arg(depth - 1) for _ in range(rng.choice([0, 1, 2, 3]))]
        c = rng.random()
        if c < 0.22:
            kw = {rng.choice(["a", "b", "c"]): arg(depth - 1) for _ in range(rng.choice([0, 0, 1, 2]))}
            return Task(None, rng.choice([_syn_f, _syn_g, toolz.identity]), *kids, **kw)
        if c < 0.4:
            return List(*kids)
        if c < 0.55:
            return Tuple(*kids)
        if c < 0.63:
            return TSDict({rng.choice(["p", "q", 3]): a for a in kids})
        if c < 0.68:
            return Set(*kids)
        if c < 0.8:
            return list(kids)
        if c < 0.9:
            return tuple(kids)
        if c < 0.99:
            return {rng.choice(["u", "v", 1]): a for a in kids}
        return Weird()

    dsk = {}
    for k in keys:
        c = rng.random()
        if c < 0.55:
            kw = {rng.choice(["a", "b"]): arg(2) for _ in range(rng.choice([0, 0, 1]))}
            dsk[k] = Task(k, rng.choice([_syn_f, _syn_g]), *[arg(rng.choice([1, 2, 3])) for _ in range(rng.choice([0, 1, 2, 3]))], **kw)
        elif c < 0.65:
            t = ref_key()
            if norm_key_str(t) == norm_key_str(k) and rng.random() < 0.5:
                t = str(t) if not isinstance(t, str) else ("x", 0)    # a self-alias only by its STRING survives conversion
            dsk[k] = Alias(k, t)
        elif c < 0.75:
            dsk[k] = DataNode(k, lit())
        elif c < 0.88:
            dsk[k] = (List if rng.random() < 0.5 else Tuple)(*[arg(2) for _ in range(rng.choice([0, 1, 2, 3]))])
        elif c < 0.93:
            dsk[k] = (TSDict({"p": arg(1)}) if rng.random() < 0.5 else Set(arg(1)))
        elif c < 0.97:
            dsk[k] = rng.choice([5, "text", (_syn_f, 1, [keys[0], 2]), keys[0], [keys[0], ("z", 0)]])   # legacy forms
        else:
            dsk[k] = Weird()
    return dsk, [KeysOnly(ext)]


CORPUS_GRAPHS = [
    # the example of the module docstring: concatenate3([[Task(getitem, ...)]]) -> one lifted sub-task
    lambda: {("c", 0): Task(("c", 0), _syn_f, List(List(Task(None, _syn_g, TaskRef(("a", 0)), (slice(0, 2),)), TaskRef(("a", 1)))))},
    # numbering is pre-order, appending post-order: sub1 = outer, sub2 = inner, extra = [sub2, sub1]
    lambda: {("c", 0): Task(("c", 0), _syn_f, Task(None, _syn_g, Task(None, _syn_f, TaskRef(("a", 0))), kw=Task(None, _syn_g)), Alias(("a", 0)))},
    # raw dict holding an inline task; Dict / Set containers go through the generic Task lift
    lambda: {("c", 0): Task(("c", 0), _syn_f, {"k": Task(None, _syn_g, TaskRef(("a", 0)))}, TSDict({"p": TaskRef(("a", 1))}), Set(TaskRef(("a", 0))))},
    # a self-alias by its string only, an ordinary alias, numpy coords, a container node
    lambda: {"('a', 0)": Alias("('a', 0)", ("a", 0)), ("b", np.int64(0)): Alias(("b", np.int64(0)), ("a", np.int64(0))),
             ("b", 1): Tuple(TaskRef(("a", np.int64(0))), DataNode(None, [1, 2]), 5)},
    # an unhandled GraphNode, top level and inline: NotImplementedError
    lambda: {("c", 0): Weird()},
    lambda: {("c", 0): Task(("c", 0), _syn_f, List(Weird()))},
    # ten inline tasks: "-sub10" sorts before "-sub2"
    lambda: {("c", 0): Task(("c", 0), _syn_f, *[Task(None, _syn_g, i) for i in range(11)])},
    # replay of C21_complete_self_alias_refuted: a referenced self-alias has no record, the reference dangles
    lambda: {"('a', 0)": Alias("('a', 0)", ("a", 0)), ("b", 0): Alias(("b", 0), ("a", 0))},
    # replay of C21_deps_exact_without_data_ok_refuted: a TaskRef inside a DataNode value is embedded, not declared
    # (the only corpus entry on which `data_ok` is false; on a real layer that is reported)
    lambda: {("c", 0): DataNode(("c", 0), [TaskRef(("a", 0))]), ("c", 1): Task(("c", 1), _syn_f, DataNode(None, (TaskRef(("a", 1)),)))},
]
CORPUS_DATA_REF_EXPECTED = {len(CORPUS_GRAPHS) - 1}


def model_correspondence(chk, layer_cases, walk_cases):
    import time
    t0 = time.time()
    # ---- flatten / dangling
    lits = [c[0] for c in layer_cases]
    # structurally identical layers reify to the very same literal (numbering is canonical): evaluate each once
    uniq = list(dict.fromkeys(lits))
    bad = set(uniq[i] for i in coq_eval_cases(REC_HEADER, FLAT_TYPE, FLAT_CHK, uniq, chunk=max(40, -(-len(uniq) // 12)))[0])
    mism = [i for i, l in enumerate(lits) if l in bad]
    chk.extra["corr_flatten_distinct_literals"] = len(uniq)
    chk.extra["corr_flatten_coq_s"] = round(time.time() - t0, 1)
    chk.extra["corr_flatten_literal_bytes"] = sum(len(x) for x in lits)
    for i, (_, info) in enumerate(layer_cases):
        if info["collision"]:
            chk.tie_break("assumption:sub-key-collides-with-graph-key", info)
        if info["data_with_ref"] and not info.get("data_ref_expected"):
            chk.tie_break("assumption:data-node-value-embeds-taskref", info)
        if info["raw_holds_node"] and info.get("generic_path"):
            # C21_flatten_sound_dask needs raw_ok: the generic translation would execute what dask treats as data
            chk.tie_break("assumption:graph-node-inside-raw-container-on-the-generic-path", info)
    for i in mism:
        info = layer_cases[i][1]
        chk.tie_break("model:flatten-differs-from-to_task_records", {**info, "coq_case": lits[i][:1500]})
    chk.traces_validated += len(lits) - len(mism)
    # ---- walk
    wl = [c[0] for c in walk_cases]
    mism, _ = coq_eval_cases(REC_HEADER, WALK_TYPE, WALK_CHK, wl, chunk=max(100, -(-len(wl) // 4)))
    for i in mism:
        chk.tie_break("model:walk-differs-from-_walk_records", {**walk_cases[i][1], "coq_case": wl[i][:1500]})
    chk.traces_validated += len(wl) - len(mism)
    chk.extra["corr_total_coq_s"] = round(time.time() - t0, 1)


def collect_layer_cases(chk, x, seen_names, layer_cases, tagname):
    """one case per not-yet-seen lowered expression node of the collection"""
    import time
    t0 = time.time()
    try:
        _collect_layer_cases(chk, x, seen_names, layer_cases, tagname)
    finally:
        chk.extra["corr_reify_s"] = round(chk.extra.get("corr_reify_s", 0) + time.time() - t0, 2)


def _collect_layer_cases(chk, x, seen_names, layer_cases, tagname):
    for node in x._lowered_expr.walk():
        if node._name in seen_names:
            continue
        seen_names.add(node._name)
        try:
            with warnings.catch_warnings():
                warnings.simplefilter("ignore")
                local = node._layer()
                deps = node.dependencies()
                c = layer_case(chk, local, deps, f"{type(node).__name__} in {tagname}")
                native = False              # does the real walk use a native layer for this node?
                make_layer = getattr(node, "_frisky_layer", None)
                if make_layer is not None:
                    try:
                        native = make_layer() is not None
                    except (NotImplementedError, ImportError):
                        native = False
        except Exception as e:  # noqa: BLE001
            chk.tie_break("corr:reification-raises", {"node": type(node).__name__, "error": f"{type(e).__name__}: {str(e)[:200]}"})
            continue
        if c is None:
            continue
        layer_cases.append(c)
        info = c[1]
        info["generic_path"] = not native
        chk.count("corr:layer")
        chk.count("corr:layer-generic-path" if not native else "corr:layer-native-in-the-real-walk")
        if info["raw_holds_node"]:
            chk.count("corr:layer-with-node-inside-raw-container")
        chk.count(f"corr:layer:{type(node).__name__}")
        if info["subs"]:
            chk.count("corr:layer-with-lifted-subtasks")
        if info["declined"]:
            chk.count("corr:layer-declined")


def walk_case(chk, colls):
    """the real _walk_records over the collections of one group with a shared `seen`, and the DAG it walked"""
    from dask_array._frisky import collect
    log = []

    class LogSet(set):                     # the shared `seen`: records the order in which names are added
        def add(self, x):
            log.append(x)
            super().add(x)

    orig = collect.GraphRecordsLayer

    class NoRecords(orig):                 # only the visiting order is of interest here
        def to_task_records(self):
            return []

    names = {}
    dag = {}

    def nid(nm):
        return names.setdefault(nm, len(names) + 1)
    roots = []
    collect.GraphRecordsLayer = NoRecords
    try:
        seen = LogSet()
        for x, _ in colls:
            root = x._lowered_expr
            start = len(log)
            collect._walk_records([root], seen, [])
            roots.append((root._name, log[start:]))
            for e in root.walk():
                if e._name not in dag:
                    dag[e._name] = [d._name for d in e.dependencies()]
    finally:
        collect.GraphRecordsLayer = orig
    if seen != set(log) or len(set(log)) != len(log):
        chk.violation("shared walk: a layer was emitted twice or `seen` differs from the emitted layers",
                      {"log": log[:20]}, signature={"class": "shared-seen", "problem": "layer emitted twice"})
    for nm in dag:
        nid(nm)
    lit = ctuple(clist(dag.items(), lambda kv: ctuple(str(nid(kv[0])), clist(kv[1], lambda d: str(nid(d))))),
                 clist(roots, lambda r: ctuple(str(nid(r[0])), clist(r[1], lambda d: str(nid(d))))))
    return lit, {"roots": len(roots), "layers": len(dag), "emitted": [len(r[1]) for r in roots]}


# =====================================================================================
# Correspondence with the Coq model of the FAST PATHS (coq/theories/FusedFast.v)
#
#   probe_blocks            <->  FusedBlockwiseLayer._probe_blocks
#   analytical / uniform / site_based / seed_spec  <->  the four derivations of _fast_spec (result compared exactly:
#                                maximal block, inkey order, projections, seed templates and holes, materialized slots)
#   bad_blocks              <->  the blocks whose real _fast_records() record differs from the real _slow_records() one
#
# A FusedBlockwise node is reified as the family  bid |-> e._task((name, *bid), bid)  for EVERY block of its grid: canonical
# subgraph (`_canon_fingerprint`), inkeys, `_walk_sites`, dependencies.  Independently of Coq, the real fast record of every
# block is compared with the real slow record (same dependency keys; same subgraph once the shared subgraph's inkeys are bound
# to the record's refs / seeds): a difference is a property violation.
FF_HEADER = ("From DA Require Import FusedFast.\n"
             "From Coq Require Import ZArith List PArith Arith Bool.\nImport ListNotations.\n"
             "Fixpoint mismatches_from {A} (i : nat) (chk : A -> bool) (l : list A) : list nat :=\n"
             "  match l with [] => [] | x :: t => if chk x then mismatches_from (S i) chk t\n"
             "                                    else i :: mismatches_from (S i) chk t end.\n"
             "Definition mismatches {A} (chk : A -> bool) (l : list A) : list nat := mismatches_from 0%nat chk l.\n"
             "Definition nokw := LSeq (KDict 1%positive) [].\n"
             "Definition dflt := mktask false [] (BKey 1%positive) [] None [].\n"
             "Definition mkL (c : list Z * list positive * list (list Z) * list (option (list Z)) * list (block * task)) : layer :=\n"
             "  let '(nb, deps, dnb, chunks, tbl) := c in mklayer nb deps dnb chunks (table_task tbl dflt).\n"
             "Open Scope Z_scope.\n")
# (layer, real probe blocks, real results of the four derivations, blocks whose real fast record differs from the slow one)
FF_TYPE = ("(list Z * list positive * list (list Z) * list (option (list Z)) * list (block * task)) * list block * "
           "(option spec * option spec * option spec * option spec) * list block")
FF_PARTS = {
    "probe_blocks": "set_eqb (list_eqb Z.eqb) (probe_blocks (l_nb L)) probes",
    "_analytical_site_spec": "ospec_eqb ma ea",
    "_fast_spec_uniform": "ospec_eqb mu eu",
    "_site_based_spec": "ospec_eqb ms es",
    "_seed_spec": "ospec_eqb md ed",
    "fast-vs-slow-records": "set_eqb (list_eqb Z.eqb) (match fs with Some s => bad_blocks L s | None => [] end) bad",
    # the well-formedness hypotheses of the soundness theorems (fuse_wf, deps_are_sites, canon_keys_unique) hold of the real family
    "family-wf(theorem hypotheses)": "match fs with Some _ => family_wf_b L | None => true end",
}


def ff_chk(parts):
    # every derivation is evaluated once (vm_compute is call-by-value); fs = _fast_spec = the first one that accepts
    return ("Definition chk (c : " + FF_TYPE + ") : bool :=\n"
            "  let '(lc, probes, (ea, eu, es, ed), bad) := c in let L := mkL lc in\n"
            "  let ma := analytical L in let mu := uniform L in let ms := site_based L in let md := seed_spec L in\n"
            "  let fs := match ma with Some s => Some s | None => match mu with Some s => Some s | None =>\n"
            "            match ms with Some s => Some s | None => md end end end in\n  "
            + " &&\n  ".join(FF_PARTS[p] for p in parts) + ".")


MAX_FF_BLOCKS = 48


class FFSkip(Exception):
    pass


class FFReifier:
    """one FusedBlockwise node -> Coq literals of coq/theories/FusedFast.v"""

    def __init__(self, names):
        self.name_tag = {s: i + 1 for i, s in enumerate(sorted(set(names)))}   # Pos order = string order
        self.val_tag = {}
        self.keep = []

    def name(self, s):
        if not isinstance(s, str) or s not in self.name_tag:
            raise FFSkip(f"name {s!r}")
        return self.name_tag[s]

    def opaque(self, fpk, obj):
        t = self.val_tag.get(fpk)
        if t is None:
            t = len(self.val_tag) + 2             # tag 1 is the hole of _hole_fingerprint
            self.val_tag[fpk] = t
            self.keep.append(obj)
        return t

    def site(self, k):
        if not (isinstance(k, tuple) and k and isinstance(k[0], str) and all(isinstance(c, numbers.Integral) for c in k[1:])):
            raise FFSkip(f"key {k!r}")
        return ctuple(f"{self.name(k[0])}%positive", clist([int(c) for c in k[1:]], cz_))

    def label(self, lb):
        if isinstance(lb, tuple) and len(lb) == 2 and lb[0] == "__in__":
            return f"(BIn {self.name(lb[1])})"
        if isinstance(lb, tuple) and len(lb) == 1 and isinstance(lb[0], str):
            return f"(BNode {self.name(lb[0])})"
        return f"(BKey {self.opaque(('key', str(lb)), lb)})"

    def lit(self, a, rename):
        """`_canon_arg(a, rename)` as a `lit`"""
        if isinstance(a, TaskRef):
            return f"(LRef {self.label(rename.get(a.key, a.key))})"
        if isinstance(a, tuple):
            return "(LSeq KTuple " + clist(a, lambda x: self.lit(x, rename)) + ")"
        if isinstance(a, list):
            return "(LSeq KList " + clist(a, lambda x: self.lit(x, rename)) + ")"
        if isinstance(a, dict):
            if not a:
                return "nokw"
            kt = self.opaque(("dictkeys", tuple((type(k).__name__, repr(k)) for k in a)), None)
            return f"(LSeq (KDict {kt}) " + clist(a.values(), lambda x: self.lit(x, rename)) + ")"
        if type(a) is int:
            return f"(LInt {cz_(a)})"
        if isinstance(a, (bool, int, float, str, bytes)) or a is None:
            if isinstance(a, float) and a != a:
                return f"(LVal {self.opaque(('nan', id(a)), a)})"
            return f"(LVal {self.opaque(('val', type(a).__module__, type(a).__qualname__, repr(a)), a)})"
        return f"(LVal {self.opaque(('id', id(a)), a)})"

    def task(self, layer, t):
        from dask._task_spec import _execute_subgraph
        ok = t.func is _execute_subgraph and len(t.args) >= 3
        if not ok:
            return "dflt"
        subgraph, outkey, inkeys = t.args[0], t.args[1], tuple(t.args[2])
        rename = {}
        for k in subgraph:
            rename[k] = (k[0],) if isinstance(k, tuple) else (k,)
        for ik in inkeys:
            rename[ik] = layer._input_label(ik)
        nodes = []
        for k, n in subgraph.items():
            if not isinstance(n, Task):
                raise FFSkip("a subgraph node that is not a Task")
            ck = rename[k]
            if not (isinstance(ck, tuple) and len(ck) == 1):
                raise FFSkip(f"canonical key {ck!r}")
            kw = self.lit(n.kwargs, rename) if n.kwargs else "nokw"
            nodes.append((self.name(ck[0]), f"(mknode {self.name(ck[0])} {self.opaque(('id', id(n.func)), n.func)} "
                          f"{clist(n.args, lambda x: self.lit(x, rename))} {kw})"))
        if len({k for k, _ in nodes}) != len(nodes):
            raise FFSkip("two subgraph keys with one canonical key")
        nodes.sort(key=lambda p_: p_[0])
        sites = layer._walk_sites(subgraph, outkey, set(inkeys))
        return ("(mktask true " + clist([s for _, s in nodes], str) + " " + self.label(rename.get(outkey, outkey)) + " "
                + clist(inkeys, self.site) + " " + ("None" if sites is None else "(Some " + clist(sites, self.site) + ")") + " "
                + clist(sorted(t.dependencies, key=str), self.site) + ")")

    # ---- the real specs
    def tmpl(self, t):
        kind = t[0]
        if kind == "const":
            return f"(TConst {cz_(t[1])})"
        if kind == "bid":
            return f"(TBid {int(t[1])}%nat)"
        if kind == "chunk":
            return f"(TChunk {int(t[1])}%nat)"
        return f"(TSeq {'true' if kind == 'tuple' else 'false'} {clist(t[1], self.tmpl)})"

    def shared(self, sh):
        outkey = sh.outkey
        mb = [int(c) for c in outkey[1:]]
        src, holes = [], {}
        for ik in sh.inkeys:
            if isinstance(ik, tuple) and ik and ik[0] == "__seed__":
                continue
            src.append(ik)
        for k, n in sh.subgraph.items():
            for ai, a in enumerate(getattr(n, "args", ())):
                if isinstance(a, TaskRef) and isinstance(a.key, tuple) and a.key and a.key[0] == "__seed__":
                    holes[a.key[1]] = (self.name(k[0]), ai)
        hl = [holes[i] for i in range(len(holes))]
        return (f"(mkshared {clist(mb, cz_)} {clist(src, self.site)} "
                + clist(hl, lambda h: ctuple(f"{h[0]}%positive", f"{h[1]}%nat")) + ")")

    def slot(self, s):
        return ctuple(f"{int(s[0])}%nat", clist([int(c) for c in s[1]], cz_))

    def spec(self, sp):
        from dask_array._frisky.fused_blockwise import _ProjSpec
        if sp is None:
            return "None"
        if isinstance(sp, _ProjSpec):
            return ("(Some (ProjSpec " + self.shared(sp.shared) + " "
                    + clist(sp.projections, lambda pj: ctuple(f"{int(pj[0])}%nat", clist(pj[1], lambda c: f"(PBid {int(c[1])}%nat)" if c[0] == "bid" else f"(PConst {cz_(c[1])})")))
                    + " " + clist(sp.seed_templates, self.tmpl) + "))")
        if sp.seed_slots:
            raise FFSkip("a _MatSpec with seed slots")
        return "(Some (MatSpec " + self.shared(sp.shared) + " " + clist(sp.dep_slots, lambda sl: clist(sl, self.slot)) + "))"


def cz_(x):
    x = int(x)
    return f"({x})" if x < 0 else str(x)


def _resolved(subgraph, outkey, binding):
    """the subgraph with internal keys renamed to their expression name and every reference to an inkey replaced by what
    `_execute_subgraph` seeds it with: ("src", key string) for a ref, the canonical value for a plain (seed) argument"""
    rename = {k: ((k[0],) if isinstance(k, tuple) else (k,)) for k in subgraph}

    def carg(a):
        if isinstance(a, TaskRef):
            if a.key in binding:
                return binding[a.key]
            return "ref", rename.get(a.key, a.key)
        if isinstance(a, tuple):
            return "tuple", tuple(carg(x) for x in a)
        if isinstance(a, list):
            return "list", tuple(carg(x) for x in a)
        if isinstance(a, dict):
            return "dict", tuple((k, carg(v)) for k, v in a.items())
        if isinstance(a, (bool, int, float, str, bytes)) or a is None:
            return "val", type(a), a
        return "id", id(a)
    nodes = {rename[k]: ((id(n.func), carg(n.args), carg(n.kwargs)) if isinstance(n, Task) else carg(n)) for k, n in subgraph.items()}
    return nodes, rename.get(outkey, outkey), carg


def _fast_vs_slow(layer):
    """blocks (as tuples) whose real fast record is not the slow record, with what differs; None when there is no fast path"""
    fast = layer._fast_records()
    if fast is None:
        return None
    slow = layer._slow_records()
    bad = []
    bids = list(__import__("itertools").product(*(range(n) for n in layer.expr.numblocks)))
    if len(fast) != len(slow) or len(slow) != len(bids):
        return [(b, "number of records") for b in bids]
    for bid, f, s_ in zip(bids, fast, slow):
        why = None
        if f[0] != s_[0]:
            why = "record key"
        elif set(f[4]) != set(s_[4]):
            why = "dependency keys"
        else:
            sh = f[1]
            _, _, plain = _resolved(sh.subgraph, sh.outkey, {})
            fb = {ik: (("src", str(a.key)) if isinstance(a, TaskRef) else plain(a)) for ik, a in zip(sh.inkeys, f[2])}
            fn, fo, _ = _resolved(sh.subgraph, sh.outkey, fb)
            sub, outkey, inkeys = s_[2][0], s_[2][1], s_[2][2]
            sb = {ik: ("src", str(a.key)) for ik, a in zip(inkeys, s_[2][3:])}
            sn, so, _ = _resolved(sub, outkey, sb)
            if len(sh.inkeys) != len(f[2]) or set(fb) != set(sh.inkeys):
                why = "inkeys / args"
            elif fo != so:
                why = "output key"
            elif fn != sn:
                diff = sorted(k[0] for k in set(fn) | set(sn) if fn.get(k) != sn.get(k))
                why = "subgraph of " + ",".join(x.split("-")[0] for x in diff)
        if why:
            bad.append((bid, why))
    return bad


def fused_fast_case(chk, e, what):
    """one FusedBlockwise node -> (coq literal, info) or None"""
    nb = tuple(int(n) for n in e.numblocks)
    nblocks = int(np.prod(nb)) if nb else 1
    if nblocks > MAX_FF_BLOCKS or nblocks == 0:
        chk.count("fast:skipped-large-grid" if nblocks else "fast:skipped-empty-grid")
        return None
    layer = e._frisky_layer()
    bids = list(__import__("itertools").product(*(range(n) for n in nb)))
    with warnings.catch_warnings():
        warnings.simplefilter("ignore")
        tasks = [e._task((e._name, *bid), bid) for bid in bids]
        deps = e.dependencies()
        names = [d._name for d in deps]
        for t in tasks:
            if len(t.args) >= 3 and isinstance(t.args[0], dict):
                names += [k[0] if isinstance(k, tuple) else k for k in t.args[0]]
                names += [k[0] for k in t.args[2] if isinstance(k, tuple) and k]
                names += [k[0] for k in t.dependencies if isinstance(k, tuple) and k]
        R = FFReifier([n for n in names if isinstance(n, str)])
        try:
            tbl = clist(list(zip(bids, tasks)), lambda bt: ctuple(clist(bt[0], cz_), R.task(layer, bt[1])))
            real = [layer._analytical_site_spec(), layer._fast_spec_uniform(), layer._site_based_spec(), layer._seed_spec()]
            first = next((i for i, r in enumerate(real) if r is not None), None)
            taken = layer._fast_spec()
            kind = None if first is None else ("analytical", "uniform", "site_based", "seed")[first]
            if (taken is None) != (first is None) or (taken is not None and R.spec(taken) != R.spec(real[first])):
                chk.tie_break("fast:_fast_spec-is-not-the-first-derivation-that-accepts", {"node": what, "kind": kind})
            specs = ctuple(*[R.spec(r) for r in real])
            probes = sorted(layer._probe_blocks(nb))
            bad = _fast_vs_slow(layer)
            lc = ctuple(clist(nb, cz_), clist(names[:len(deps)], lambda s: f"{R.name(s)}%positive"),
                        clist([d.numblocks for d in deps], lambda q: clist(q, cz_)),
                        clist(layer._axis_chunks(), lambda d: "None" if d is None else "(Some " + clist(d, cz_) + ")"), tbl)
        except FFSkip as ex:
            chk.tie_break("assumption:fused-task-outside-the-modelled-shape", {"node": what, "why": str(ex)[:200]})
            return None
    lit = ctuple(lc, clist(probes, lambda b: clist(b, cz_)), specs, clist([b for b, _ in (bad or [])], lambda b: clist(b, cz_)))
    info = {"node": what, "numblocks": list(nb), "kind": kind, "bad": [(list(b), w) for b, w in (bad or [])][:4], "nbad": len(bad or []),
            "chunks": [list(c) for c in e.chunks], "creation_fused": any(not q.dependencies() for q in e.exprs),
            "ragged": any(len(set(c)) > 1 for q in (e, *e.exprs) for c in q.chunks), "exprs": [type(q).__name__ for q in e.exprs]}
    return lit, info


def collect_fused_fast(chk, x, seen_fused, fast_cases, tagname):
    """the FusedBlockwise nodes of one collection: reified for the model, and fast records compared with slow ones"""
    try:
        nodes = [e for e in x._lowered_expr.walk() if type(e).__name__ == "FusedBlockwise" and e._name not in seen_fused]
    except Exception:  # noqa: BLE001
        return
    for e in nodes:
        seen_fused.add(e._name)
        what = f"{e._name.rsplit('-', 1)[0]} in {tagname}"
        try:
            c = fused_fast_case(chk, e, what)
        except Exception as ex:  # noqa: BLE001
            chk.tie_break("fast:reification-raises", {"node": what, "error": f"{type(ex).__name__}: {str(ex)[:200]}"})
            continue
        if c is None:
            continue
        fast_cases.append(c)
        info = c[1]
        chk.count("fast:fused-node")
        chk.count(f"fast:path:{info['kind']}")
        chk.count(f"fast:grid-ndim:{len(info['numblocks'])}")
        if info["ragged"]:
            chk.count("fast:ragged-chunks")
        if info["creation_fused"]:
            chk.count("fast:creation-op-fused")
        if info["nbad"]:
            chk.count("fast:fast-record-differs-from-slow")
            desc = {"node": what, "numblocks": info["numblocks"], "chunks": info["chunks"], "path": info["kind"], "blocks": info["bad"], "exprs": info["exprs"]}
            if info["creation_fused"] and info["ragged"] and all(w.startswith("subgraph of") for _, w in info["bad"]):
                # finding C21-A: the literal (block shape) of a fused creation op at a block no probe looks at
                sig = {"class": "records", "kind": "block-shape", "fused_creation": True, "family": "fast-vs-slow", "path": info["kind"]}
            else:
                sig = {"class": "fast-records", "problem": info["bad"][0][1][:24], "path": info["kind"], "creation_fused": info["creation_fused"], "ragged": info["ragged"]}
            chk.violation(f"fast-path record of block {info['bad'][0][0]} differs from the slow-path record ({info['bad'][0][1]}); "
                          f"{info['nbad']} block(s), path {info['kind']}", desc, signature=sig)
        else:
            chk.traces_validated += int(np.prod(info["numblocks"])) if info["kind"] else 0


class _SwappedStub:
    """replay of the model-level witness `swapped_layer` (theorem C21_probe_validation_is_multiset_refuted) on the REAL
    FusedBlockwiseLayer: an expression-like object whose fused task reads one source at two sites, x[i,j] and x[j,i]
    (x - x.T), except that at the probed block (2,0) the two sites are swapped.  Not an input a user can build from
    dask_array expressions (their block maps are per-site functions): it only replays the model's witness."""
    _name = "sub-stubswapped"
    numblocks = (3, 3)
    chunks = ((2, 2, 2), (2, 2, 2))
    exprs = ()

    class _Src:
        _name = "array-stubsource"
        numblocks = (3, 3)

    def dependencies(self):
        return [self._Src()]

    def _frisky_layer(self):
        from dask_array._frisky.fused_blockwise import FusedBlockwiseLayer
        return FusedBlockwiseLayer(self)

    def _task(self, key, bid):
        import operator
        i, j = bid
        a, b = ("array-stubsource", i, j), ("array-stubsource", j, i)
        if bid == (2, 0):
            a, b = b, a
        inner = Task(("transpose-stub", i, j), np.transpose, TaskRef(b))
        outer = Task(("sub-stubouter", i, j), operator.sub, TaskRef(a), TaskRef(inner.key))
        return Task.fuse(inner, outer, key=key)


def replay_swapped_stub(chk, fast_cases):
    c = fused_fast_case(chk, _SwappedStub(), "stub: x - x.T with the sites swapped at the probed block (2,0)")
    chk.case(("fast-replay", "swapped-sites"), nontrivial=True)
    chk.count("fast:replay-of-model-witness")
    if c is None or c[1]["kind"] != "analytical" or [b for b, _ in c[1]["bad"]] != [[2, 0]]:
        chk.tie_break("fast:replay-of-swapped_layer-differs-from-the-theorem", None if c is None else c[1])
    if c is not None:
        fast_cases.append(c)


def fast_correspondence(chk, fast_cases):
    import time
    t0 = time.time()
    lits = [c[0] for c in fast_cases]
    parts = list(FF_PARTS)
    # structurally identical families reify to the very same literal (the numbering is canonical): evaluate each once
    uniq = list(dict.fromkeys(lits))
    bad = [uniq[i] for i in coq_eval_cases(FF_HEADER, FF_TYPE, ff_chk(parts), uniq, chunk=max(12, -(-len(uniq) // 12)))[0]]
    mism = [i for i, l in enumerate(lits) if l in set(bad)]
    chk.extra["fast_distinct_literals"] = len(uniq)
    if bad:
        # name the component(s) that differ
        which = {l: [] for l in bad}
        for p_ in parts:
            for j in coq_eval_cases(FF_HEADER, FF_TYPE, ff_chk([p_]), bad, chunk=max(12, -(-len(bad) // 12)))[0]:
                which[bad[j]].append(p_)
        for i in mism:
            chk.tie_break("model:fused-fast-path-differs-from-FusedFast.v", {**fast_cases[i][1], "components": which[lits[i]], "coq_case": lits[i][:3000]})
    chk.traces_validated += len(lits) - len(mism)
    chk.extra["fast_cases"] = len(lits)
    chk.extra["fast_literal_bytes"] = sum(len(x) for x in lits)
    chk.extra["fast_coq_s"] = round(time.time() - t0, 1)


def directed_fast_collections(chk, da, seen_fused, fast_cases):
    """grids and shapes that steer every derivation of _fast_spec: ragged creation ops (finding C21-A first), one source read at
    several sites, reversed axes, block_id / overlap literals (seed lifting), broadcasting sources, contractions"""
    from dask_array import _materialize
    fams = [("neg(ones((6,), chunks=((1,3,1,1),)))", lambda: -da.ones((6,), chunks=((1, 3, 1, 1),)))]

    def src1(ch):
        n = sum(ch)
        return da.from_array(np.arange(float(n)) + 1, chunks=(ch,))

    def src2(ch0, ch1):
        return da.from_array(np.arange(float(sum(ch0) * sum(ch1))).reshape(sum(ch0), sum(ch1)) + 1, chunks=(ch0, ch1))

    def add_bid(u, block_id=None):
        return u + sum(block_id)

    def add_info(u, block_info=None):
        return u + block_info[0]["chunk-location"][0]
    one_d = [(1, 3, 1, 1), (1, 3), (3, 1), (2, 2, 2), (2, 2, 1), (3, 2, 2, 2), (2, 2, 3, 2, 2), (2, 3, 2, 2, 2), (1, 1, 1, 1, 1, 1), (2, 5, 5, 5, 3),
            (4,), (1, 2, 1, 2, 1, 2, 1)]
    for ch in one_d:
        n = sum(ch)
        fams += [
            (f"-ones[{ch}]", lambda ch=ch, n=n: -da.ones((n,), chunks=(ch,))),
            (f"x+ones[{ch}]", lambda ch=ch, n=n: src1(ch) + da.ones((n,), chunks=(ch,))),
            (f"x*full-zeros[{ch}]", lambda ch=ch, n=n: src1(ch) * da.full((n,), 2.0, chunks=(ch,)) - da.zeros((n,), chunks=(ch,))),
            (f"x+x[::-1][{ch}]", lambda ch=ch: (lambda x: (x + 1) + x[::-1])(src1(ch))),
            (f"map_blocks(block_id)[{ch}]", lambda ch=ch: da.map_blocks(add_bid, src1(ch) + 0, dtype="f8")),
            (f"map_blocks(block_info)[{ch}]", lambda ch=ch: da.map_blocks(add_info, src1(ch) + 0, dtype="f8")),
            (f"arange*2[{ch}]", lambda ch=ch, n=n: da.arange(n, chunks=(ch,)) * 2),
        ]
    two_d = [((1, 3, 1, 1), (1, 3, 1, 1)), ((2, 2), (3, 3)), ((1, 3, 2), (6,)), ((2, 2, 2), (1, 2, 1, 2)), ((3,), (1, 2, 3)), ((2, 1, 2, 1), (2, 2)),
            ((1, 1, 3, 1, 1), (1, 1, 1, 1, 3)), ((2, 2, 2), (2, 2, 2))]
    for ch0, ch1 in two_d:
        sh = (sum(ch0), sum(ch1))
        fams += [
            (f"x+ones[{ch0},{ch1}]", lambda a=ch0, b=ch1, sh=sh: src2(a, b) + da.ones(sh, chunks=(a, b))),
            (f"-ones*2[{ch0},{ch1}]", lambda a=ch0, b=ch1, sh=sh: -da.ones(sh, chunks=(a, b)) * 2),
            (f"x+row[{ch0},{ch1}]", lambda a=ch0, b=ch1: src2(a, b) + src1(b) * 2),
            (f"x+col-ones[{ch0},{ch1}]", lambda a=ch0, b=ch1: src2(a, b) * 3 + da.ones((sum(a), 1), chunks=(a, (1,)))),
            (f"map_blocks(block_id)[{ch0},{ch1}]", lambda a=ch0, b=ch1: da.map_blocks(add_bid, src2(a, b) + 0, dtype="f8")),
            (f"map_overlap[{ch0},{ch1}]", lambda a=ch0, b=ch1: da.map_overlap(lambda u: u * 2, src2(a, b) + 0, depth=1, boundary="reflect", dtype="f8")),
            (f"x.T+1-ones.T[{ch0},{ch1}]", lambda a=ch0, b=ch1, sh=sh: (src2(a, b).T + 1) - da.ones(sh, chunks=(a, b)).T),
        ]
        if ch0 == ch1:
            fams += [
                (f"x-x.T[{ch0}]", lambda a=ch0, b=ch1: (lambda x: (x + 1) - x.T)(src2(a, b))),
                (f"x@x.T[{ch0}]", lambda a=ch0, b=ch1: (lambda x: x @ x.T)(src2(a, b))),
                (f"x*x+ones[{ch0}]", lambda a=ch0, b=ch1, sh=sh: (lambda x: x * x + da.ones(sh, chunks=(a, b)))(src2(a, b))),
            ]
    fams += [(f"ones3d{c}", lambda c=c: -da.ones(tuple(sum(q) for q in c), chunks=c) + 1)
             for c in (((1, 1), (2, 1, 2), (1, 3, 1, 1)), ((2, 2, 2, 1), (1, 2), (3,)), ((1, 2, 2, 1), (1, 2, 2, 1), (1, 2, 2, 1)))]
    for name, mk in fams:
        _materialize._LOWER_CACHE.clear()
        try:
            with warnings.catch_warnings():
                warnings.simplefilter("ignore")
                x = mk()
                x._lowered_expr
        except Exception:  # noqa: BLE001
            chk.count("fast:directed-skipped-raises")
            continue
        chk.case(("fast-directed", name), nontrivial=True)
        chk.count("fast:directed-collection")
        check_collection(chk, x, {"program": name}, name.split("[")[0])
        collect_fused_fast(chk, x, seen_fused, fast_cases, name.split("[")[0])
    replay_swapped_stub(chk, fast_cases)


def directed_collections(chk, da, seen_fused=None, fast_cases=None):
    """layers the random programs rarely reach: NumPy-integer block coordinates inside TaskRefs (diagonal / trace / vindex),
    fused groups that read ONE source at several sites with different block maps (x - x.T, y @ y.T), on several grids"""
    from dask_array import _materialize
    fams = []
    for n, c in ((4, 2), (6, 3), (6, (2, 4)), (5, (2, 2, 1)), (4, 4)):
        def src(n=n, c=c, off=0.0):
            return da.from_array(np.arange(float(n * n)).reshape(n, n) + off, chunks=c)
        fams += [
            (f"diagonal[{n},{c}]", lambda s=src: da.diagonal(s())),
            (f"diagonal+1[{n},{c}]", lambda s=src: da.diagonal(s() + 1, 1)),
            (f"trace[{n},{c}]", lambda s=src: da.trace(s())),
            (f"diag[{n},{c}]", lambda s=src: da.diag(s())),
            (f"vindex[{n},{c}]", lambda s=src, n=n: s().vindex[[0, n - 1, 1], [1, 0, n - 1]]),
            (f"vindex-of-sum[{n},{c}]", lambda s=src, n=n: (s() * 2).vindex[[0, n - 1], [n - 1, 0]] + 1),
            (f"x-x.T[{n},{c}]", lambda s=src: (lambda x: x - x.T)(s())),
            (f"(x+1)*x.T[{n},{c}]", lambda s=src: (lambda x: (x + 1) * x.T)(s())),
            (f"x@x.T[{n},{c}]", lambda s=src: (lambda x: x @ x.T)(s())),
            (f"x+x[::-1][{n},{c}]", lambda s=src: (lambda x: x + x[::-1])(s())),
            (f"x*x[{n},{c}]", lambda s=src: (lambda x: x * x + x.T.T)(s())),
            (f"tril[{n},{c}]", lambda s=src: da.tril(s())),
            (f"x.T.sum(0)-x.sum(1)[{n},{c}]", lambda s=src: (lambda x: x.T.sum(axis=0) - x.sum(axis=1))(s())),
        ]
    pn, qn = np.arange(12.0).reshape(4, 3) * 2, np.arange(12.0).reshape(4, 3)[::-1] * 5 + 1

    def two(c):
        return da.from_array(pn, chunks=c), da.from_array(qn, chunks=c)

    def sub_id(u, w, block_id=None):
        return u - w + (0 if block_id is None else block_id[0])
    for c in ((2, 3), (1, 3), (2, 1), (4, 3)):
        fams += [
            (f"p-q+ones[{c}]", lambda c=c: (lambda p, q: p - q + da.ones((4, 3), chunks=c))(*two(c))),
            (f"q-p+ones[{c}]", lambda c=c: (lambda p, q: q - p + da.ones((4, 3), chunks=c))(*two(c))),
            (f"(p-q)*full[{c}]", lambda c=c: (lambda p, q: (p - q) * da.full((4, 3), 3.0, chunks=c))(*two(c))),
            (f"p/q-zeros[{c}]", lambda c=c: (lambda p, q: p / q - da.zeros((4, 3), chunks=c))(*two(c))),
            (f"map_blocks(u-w+block_id)(p,q)[{c}]", lambda c=c: (lambda p, q: da.map_blocks(sub_id, p + 0, q + 0, dtype="f8"))(*two(c))),
            (f"map_blocks(u-w+block_id)(q,p)[{c}]", lambda c=c: (lambda p, q: da.map_blocks(sub_id, q + 0, p + 0, dtype="f8"))(*two(c))),
            (f"map_overlap(u-w)(p,q)[{c}]", lambda c=c: (lambda p, q: da.map_overlap(lambda u, w: u - w, p, q, depth=1, boundary="reflect", dtype="f8"))(*two(c))),
            (f"map_overlap(u-w)(q,p)[{c}]", lambda c=c: (lambda p, q: da.map_overlap(lambda u, w: u - w, q, p, depth=1, boundary="reflect", dtype="f8"))(*two(c))),
        ]
    for name, mk in fams:
        _materialize._LOWER_CACHE.clear()
        try:
            with warnings.catch_warnings():
                warnings.simplefilter("ignore")
                x = mk()
                x.compute(scheduler="sync")
        except Exception:  # noqa: BLE001
            chk.count("directed:skipped-raises")
            continue
        chk.case(("directed", name), nontrivial=True)
        chk.count("directed-collection")
        check_collection(chk, x, {"program": name}, name.split("[")[0])
        if fast_cases is not None:
            collect_fused_fast(chk, x, seen_fused, fast_cases, name.split("[")[0])


def run(chk: Check):
    import dask_array as da
    from dask_array import _materialize
    chk.rule = ("generated programs: __frisky_graph__() either declines (NotImplementedError) or its flat records are executed by an "
                "in-process executor and every output key from __frisky_output_keys__ is compared with the block __dask_graph__ computes; "
                "records must be complete (no dangling deps), keys unique, embedded TaskRefs declared as deps; groups of 2-3 collections "
                "sharing subtrees are walked with one shared `seen` set and the union must be complete and compute every collection; "
                "__frisky_records_chunks__ must decline or return no binary chunks plus complete plain records; non-trivial = records path taken.  "
                "MODEL CORRESPONDENCE (coq/theories/Records.v): for every lowered expression node of every program, for hand-made corpus graphs "
                "and for random synthetic _task_spec graphs, the input graph convert_legacy_graph(node._layer(), all_keys) and the output of the real "
                "GraphRecordsLayer.to_task_records() are reified into Coq and `flatten_opt input = output` is checked structurally inside Coq (same keys "
                "incl. -subN keys in the same order, same funcs, same arg skeletons, same sorted deps; NotImplementedError <-> None), together with "
                "`dangling` = the count _check_complete reports and `data_ok`; for every group the real _walk_records visiting order with a shared "
                "`seen` is compared with the model's `walk`.  "
                "FAST PATHS (coq/theories/FusedFast.v): every FusedBlockwise node of the corpus / directed / generated collections (grids up to "
                f"{MAX_FF_BLOCKS} blocks) and of a directed stream (ragged creation ops, one source at several sites, reversed axes, block_id / "
                "overlap literals, broadcasting sources, contractions) is reified as the family bid -> e._task(...) for EVERY block (canonical "
                "subgraph of _canon_fingerprint, inkeys, _walk_sites, dependencies); inside Coq the real _probe_blocks(numblocks), the real result of "
                "each of _analytical_site_spec / _fast_spec_uniform / _site_based_spec / _seed_spec (None or the spec: maximal block, inkey order, "
                "projections, seed templates and holes, materialized slots) and the set of blocks whose real _fast_records() record differs from "
                "the real _slow_records() one are compared with the model (probe_blocks, analytical, uniform, site_based, seed_spec, bad_blocks); "
                "independently of Coq the fast record of every block must have the slow record's dependency keys and, once the shared subgraph's "
                "inkeys are bound to the record's refs / seeds, the slow record's subgraph (else: violation)")
    chk.assumptions = ["native layers are absent in this sandbox: only the generic GraphRecordsLayer translation is exercised",
                       "frisky Futures cannot exist in the sandbox: the Future branches of _records are not modelled",
                       "a key is identified with str(_norm_key(key)); a '<parent>-subN' string is assumed never to be the string of a graph key "
                       "(collisions are reported as a correspondence break)",
                       "functions, literal leaves, kwarg names are opaque tags; the string order used by sorted(deps) is passed to the model as an oracle",
                       "the correspondence applies GraphRecordsLayer to EVERY lowered node; in the real walk FusedBlockwise nodes use their native "
                       "pure-Python FusedBlockwiseLayer (the only _frisky_layer that works without the Rust extension); their generic translation "
                       "violates raw_ok (Tasks inside the raw subgraph dict) and is only checked structurally",
                       "fast paths: a fused task is (func is _execute_subgraph, canonical nodes sorted by key, inkeys, _walk_sites, dependencies); "
                       "functions / non-int leaves are opaque tags by identity or value as _canon_arg compares them; names are numbered in string order "
                       "(the order sorted(inkeys, key=(str(k[0]), coords)) uses); subgraph nodes are Tasks, keys are (str, ints...) — otherwise the "
                       "node is reported as outside the modelled shape; `_canonical` (used by _seed_spec) and `_canon_fingerprint` agree on "
                       "int-structured literals; Python's 1 == True / 1 == 1.0 coincidences between a template value and a literal are not modelled"]
    chk.run_proofs()
    rng = chk.rng
    layer_cases, walk_cases, seen_names = [], [], set()
    fast_cases, seen_fused = [], set()
    directed_fast_collections(chk, da, seen_fused, fast_cases)
    ext = [KeysOnly([("a", 0), ("a", 1)])]
    for j, mk in enumerate(CORPUS_GRAPHS):
        c = layer_case(chk, mk(), ext, f"corpus graph {j}")
        c[1]["data_ref_expected"] = j in CORPUS_DATA_REF_EXPECTED
        layer_cases.append(c)
        chk.count("corr:corpus-graph")
    for j in range(6000 if chk.tier == "thorough" else 500):
        dsk, deps = syn_graph(rng)
        c = layer_case(chk, dsk, deps, f"synthetic graph {j}")
        if c is not None:
            layer_cases.append(c)
            chk.count("corr:synthetic-graph")
            if c[1]["subs"]:
                chk.count("corr:synthetic-with-lifted-subtasks")
            if c[1]["declined"]:
                chk.count("corr:synthetic-declined")
            if c[1]["raw_holds_node"]:
                chk.count("corr:synthetic-with-node-inside-raw-container")
    # corpus (minimal reproducer of finding C21-A first): a creation op fused into a FusedBlockwise whose first and last
    # blocks have the same size but an interior block does not
    import dask_array as _da
    for name, mk in [("neg(ones((6,), chunks=((1,3,1,1),)))", lambda: -_da.ones((6,), chunks=((1, 3, 1, 1),))),
                     ("neg(ones((4,), chunks=((1,3),)))", lambda: -_da.ones((4,), chunks=((1, 3),))),
                     ("ones((6,1), chunks=((1,3,1,1),(1,))).sum()", lambda: _da.ones((6, 1), chunks=((1, 3, 1, 1), (1,))).sum())]:
        _materialize._LOWER_CACHE.clear()
        with warnings.catch_warnings():
            warnings.simplefilter("ignore")
            x = mk()
        chk.case(("corpus", name), nontrivial=True)
        chk.count("corpus-collection")
        check_collection(chk, x, {"program": name}, "neg")
        collect_fused_fast(chk, x, seen_fused, fast_cases, "neg")
    directed_collections(chk, da, seen_fused, fast_cases)
    n = 4000 if chk.tier == "thorough" else 250
    for it in range(n):
        _materialize._LOWER_CACHE.clear()
        g = progs.Gen(rng, ops=progs.CORE_OPS + ["swv", "roll", "take", "repeat", "map_overlap"], sources=[])
        members = []
        for _ in range(rng.choice([1, 1, 2, 3])):
            p, v = g.program(rng.choice([1, 2, 3, 4]))
            members.append((p, v))
        colls = []
        try:
            with warnings.catch_warnings():
                warnings.simplefilter("ignore")
                memo = {}
                for p, v in members:
                    x = progs.build(p, da, g.sources, memo=memo)
                    x.compute(scheduler="sync")
                    colls.append((x, p))
        except Exception:  # noqa: BLE001
            chk.count("skipped:raises")
            continue
        chk.case(("group", tuple(progs.show(p) for p, _ in members), it), nontrivial=True,
                 sample={"members": [progs.show(p) for p, _ in members]} if it < 3 else None)
        try:
            walk_cases.append(walk_case(chk, colls))
            chk.count("corr:walk-group")
        except Exception as e:  # noqa: BLE001
            chk.tie_break("corr:walk-reification-raises", {"error": f"{type(e).__name__}: {str(e)[:200]}"})
        for x, p in colls:
            desc = progs.describe(p, g.sources)
            check_collection(chk, x, desc, p[0])
            collect_layer_cases(chk, x, seen_names, layer_cases, p[0])
            collect_fused_fast(chk, x, seen_fused, fast_cases, p[0])
            # records + chunks protocol
            try:
                with warnings.catch_warnings():
                    warnings.simplefilter("ignore")
                    chunks, recs, groups = x.__frisky_records_chunks__()
                if chunks:
                    chk.count("binary-chunks-present")
                else:
                    cache, problems = execute_records(recs)
                    if problems:
                        chk.violation("__frisky_records_chunks__: " + "; ".join(problems[:2]), desc,
                                      signature={"class": "records-chunks", "problem": problems[0][:24], "root_op": p[0]})
            except NotImplementedError:
                chk.count("records-chunks:declined")
            except Exception as e:  # noqa: BLE001
                chk.violation(f"__frisky_records_chunks__ raises {type(e).__name__}: {str(e)[:100]}", desc,
                              signature={"class": "records-chunks-raise", "error": err_sig(e), "root_op": p[0]})
        # shared walk
        if len(colls) > 1:
            chk.count("shared-seen-group")
            seen, union = set(), []
            try:
                with warnings.catch_warnings():
                    warnings.simplefilter("ignore")
                    for x, p in colls:
                        union.extend(x.__frisky_graph__(seen=seen))
                    cache, problems = execute_records(union)
                    for x, p in colls:
                        keys = list(flatten(x.__dask_keys__()))
                        want = dask.local.get_sync(dict(x.__dask_graph__()), keys)
                        for k, w in zip(keys, want):
                            if str(k) not in cache or fp(np.asarray(cache[str(k)])) != fp(np.asarray(w)):
                                problems.append(f"shared walk: block {k} missing or different")
                                break
            except NotImplementedError:
                chk.count("shared:declined")
                continue
            except Exception as e:  # noqa: BLE001
                problems = [f"shared walk raises {type(e).__name__}: {str(e)[:80]}"]
            if problems:
                chk.violation("; ".join(problems[:3]), {"members": [progs.show(p) for _, p in colls]},
                              signature={"class": "shared-seen", "problem": problems[0][:24] if not any(fused_creation(x) for x, _ in colls) else "block differs",
                                         "fused_creation": any(fused_creation(x) for x, _ in colls)})
    # the two Coq evaluations are independent: run them side by side
    import threading
    err = []

    def _fast():
        try:
            fast_correspondence(chk, fast_cases)
        except Exception as e:  # noqa: BLE001
            err.append(e)
    th = threading.Thread(target=_fast)
    th.start()
    model_correspondence(chk, layer_cases, walk_cases)
    th.join()
    if err:
        raise err[0]


def replay(path):
    print(open(path).read())
