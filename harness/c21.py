"""C21 — the Frisky records path computes the same results as the dask graph.

(The native Rust layers cannot be built here — every `_frisky_layer()` raises ImportError and the
walk falls back to the generic `GraphRecordsLayer` translation, which is what this check exercises.)"""
from __future__ import annotations

import re
import warnings

import dask.local
import numpy as np
from dask._task_spec import TaskRef
from dask.core import flatten

import progs
from c10 import fp
from common import Check


def err_sig(e):
    return re.sub(r"[0-9(),\[\]'-]+", "#", f"{type(e).__name__}: {e}")[:36]


def resolve(arg, cache):
    if isinstance(arg, TaskRef):
        return cache[str(arg.key)]
    if isinstance(arg, list):
        return [resolve(a, cache) for a in arg]
    if isinstance(arg, tuple):
        return tuple(resolve(a, cache) for a in arg)
    if isinstance(arg, dict):
        return {k: resolve(v, cache) for k, v in arg.items()}
    return arg


def refs_in(arg, acc):
    if isinstance(arg, TaskRef):
        acc.add(str(arg.key))
    elif isinstance(arg, (list, tuple)):
        for a in arg:
            refs_in(a, acc)
    elif isinstance(arg, dict):
        for a in arg.values():
            refs_in(a, acc)
    return acc


def execute_records(records):
    """in-process executor of flat (key, func, args, kwargs, deps) records"""
    by_key = {}
    problems = []
    for r in records:
        if r[0] in by_key:
            o = by_key[r[0]]
            # the same helper task emitted by two layers is harmless; two DIFFERENT tasks under one key are not
            if o[1] is not r[1] or list(o[4]) != list(r[4]) or len(o[2]) != len(r[2]):
                problems.append(f"key {r[0]} produced by two different records")
        by_key[r[0]] = r
    for key, func, args, kwargs, deps in records:
        embedded = refs_in(args, set()) | refs_in(kwargs, set())
        if embedded - set(deps):
            problems.append(f"record {key} embeds references not declared as deps: {sorted(embedded - set(deps))[:2]}")
    indeg = {k: len([d for d in r[4] if d in by_key]) for k, r in by_key.items()}
    dangling = sorted({d for r in records for d in r[4]} - set(by_key))
    if dangling:
        problems.append(f"{len(dangling)} dangling dep(s), e.g. {dangling[0]}")
        return {}, problems
    users = {}
    for k, r in by_key.items():
        for d in r[4]:
            users.setdefault(d, []).append(k)
    ready = [k for k, n in indeg.items() if n == 0]
    cache = {}
    done = 0
    while ready:
        k = ready.pop()
        _, func, args, kwargs, deps = by_key[k]
        cache[k] = func(*resolve(args, cache), **resolve(kwargs, cache))
        done += 1
        for u in users.get(k, ()):
            indeg[u] -= 1
            if indeg[u] == 0:
                ready.append(u)
    if done != len(by_key):
        problems.append("records graph has a cycle")
    return cache, problems


def check_collection(chk, x, desc, tag):
    """one collection alone"""
    try:
        with warnings.catch_warnings():
            warnings.simplefilter("ignore")
            records = x.__frisky_graph__()
            out_keys = x.__frisky_output_keys__()
    except NotImplementedError:
        chk.count("declined")
        return None
    chk.count("records-path")
    with warnings.catch_warnings():
        warnings.simplefilter("ignore")
        keys = list(flatten(x.__dask_keys__()))
        want = dask.local.get_sync(dict(x.__dask_graph__()), keys)
        try:
            cache, problems = execute_records(records)
        except Exception as e:  # noqa: BLE001
            chk.violation(f"executing the records raises {type(e).__name__}: {str(e)[:100]}", desc,
                          signature={"class": "records-raise", "error": err_sig(e), "root_op": tag})
            return records
    if out_keys != list(dict.fromkeys(str(k) for k in keys)):
        problems.append("__frisky_output_keys__ differs from the stringified dask keys")
    for k, w in zip(keys, want):
        if str(k) not in cache:
            problems.append(f"output key {k} is not defined by the records")
            break
        if fp(np.asarray(cache[str(k)])) != fp(np.asarray(w)):
            problems.append(f"block {k} differs between the records path and __dask_graph__")
            break
    if problems:
        chk.violation("; ".join(problems[:3]), desc, signature={"class": "records", "problem": problems[0][:24], "root_op": tag})
    else:
        chk.traces_validated += len(keys)
    return records


def run(chk: Check):
    import dask_array as da
    from dask_array import _materialize
    chk.rule = ("generated programs: __frisky_graph__() either declines (NotImplementedError) or its flat records are executed by an "
                "in-process executor and every output key from __frisky_output_keys__ is compared with the block __dask_graph__ computes; "
                "records must be complete (no dangling deps), keys unique, embedded TaskRefs declared as deps; groups of 2-3 collections "
                "sharing subtrees are walked with one shared `seen` set and the union must be complete and compute every collection; "
                "__frisky_records_chunks__ must decline or return no binary chunks plus complete plain records; non-trivial = records path taken")
    chk.assumptions = ["native layers are absent in this sandbox: only the generic GraphRecordsLayer translation is exercised"]
    chk.run_proofs()
    rng = chk.rng
    n = 4000 if chk.tier == "thorough" else 250
    for it in range(n):
        _materialize._LOWER_CACHE.clear()
        g = progs.Gen(rng, ops=progs.CORE_OPS + ["swv", "roll", "take", "repeat", "map_overlap"], sources=[])
        members = []
        for _ in range(rng.choice([1, 1, 2, 3])):
            p, v = g.program(rng.choice([1, 2, 3, 4]))
            members.append((p, v))
        colls = []
        try:
            with warnings.catch_warnings():
                warnings.simplefilter("ignore")
                memo = {}
                for p, v in members:
                    x = progs.build(p, da, g.sources, memo=memo)
                    x.compute(scheduler="sync")
                    colls.append((x, p))
        except Exception:  # noqa: BLE001
            chk.count("skipped:raises")
            continue
        chk.case(("group", tuple(progs.show(p) for p, _ in members), it), nontrivial=True,
                 sample={"members": [progs.show(p) for p, _ in members]} if it < 3 else None)
        for x, p in colls:
            desc = progs.describe(p, g.sources)
            check_collection(chk, x, desc, p[0])
            # records + chunks protocol
            try:
                with warnings.catch_warnings():
                    warnings.simplefilter("ignore")
                    chunks, recs, groups = x.__frisky_records_chunks__()
                if chunks:
                    chk.count("binary-chunks-present")
                else:
                    cache, problems = execute_records(recs)
                    if problems:
                        chk.violation("__frisky_records_chunks__: " + "; ".join(problems[:2]), desc,
                                      signature={"class": "records-chunks", "problem": problems[0][:24], "root_op": p[0]})
            except NotImplementedError:
                chk.count("records-chunks:declined")
            except Exception as e:  # noqa: BLE001
                chk.violation(f"__frisky_records_chunks__ raises {type(e).__name__}: {str(e)[:100]}", desc,
                              signature={"class": "records-chunks-raise", "error": err_sig(e), "root_op": p[0]})
        # shared walk
        if len(colls) > 1:
            chk.count("shared-seen-group")
            seen, union = set(), []
            try:
                with warnings.catch_warnings():
                    warnings.simplefilter("ignore")
                    for x, p in colls:
                        union.extend(x.__frisky_graph__(seen=seen))
                    cache, problems = execute_records(union)
                    for x, p in colls:
                        keys = list(flatten(x.__dask_keys__()))
                        want = dask.local.get_sync(dict(x.__dask_graph__()), keys)
                        for k, w in zip(keys, want):
                            if str(k) not in cache or fp(np.asarray(cache[str(k)])) != fp(np.asarray(w)):
                                problems.append(f"shared walk: block {k} missing or different")
                                break
            except NotImplementedError:
                chk.count("shared:declined")
                continue
            except Exception as e:  # noqa: BLE001
                problems = [f"shared walk raises {type(e).__name__}: {str(e)[:80]}"]
            if problems:
                chk.violation("; ".join(problems[:3]), {"members": [progs.show(p) for _, p in colls]},
                              signature={"class": "shared-seen", "problem": problems[0][:24]})


def replay(path):
    print(open(path).read())
