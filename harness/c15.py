"""C15 — rechunk plans are valid and respect the block-size budget; the crosswalk is exact.

impl (dask_array._rechunk) vs Gallina model (coq/theories/Rechunk.v, evaluated in
Coq) vs the property itself (brute-force Python oracle + the Coq boolean checkers
whose soundness is proved in RechunkFacts.v)."""
from __future__ import annotations

import itertools
import math

import dask

from common import Check, cbool, clist, cnat, copt, coq_eval_cases, coq_eval_expr, ctuple, cz
from c13 import compositions, rand_chunks

HEADER = "From DA Require Import PyBase Rechunk.\nOpen Scope Z_scope.\n"


def cchunks(cs):
    return clist(cs, lambda ax: clist(ax))


def ccw(cw):
    return clist(cw, lambda pieces: clist(pieces, lambda p: ctuple(cz(p[0]), cz(p[1].start), cz(p[1].stop))))


class Recorder:
    """Records the float-derived choices of plan_rechunk by shadowing `sorted`,
    `round` and `math` in the module namespace of dask_array._rechunk (module
    globals shadow builtins; nothing in /repo is changed)."""

    def __init__(self, mod):
        self.mod = mod
        self.orders = []
        self.oracle = []

    def __enter__(self):
        rec = self
        mod = self.mod

        def rsorted(it, key=None, reverse=False):
            out = sorted(it, key=key, reverse=reverse)
            if key is not None and getattr(key, "__name__", "") == "key":
                rec.orders.append(list(out))
            return out

        def rround(x, *a):
            r = round(x, *a)
            rec.oracle.append(int(r))
            return r

        class MathProxy:
            def __getattr__(self, name):
                return getattr(math, name)

            def ceil(self, x):
                r = math.ceil(x)
                rec.oracle.append(int(r))
                return r

        mod.sorted = rsorted
        mod.round = rround
        self._math = mod.math
        mod.math = MathProxy()
        return self

    def __exit__(self, *a):
        del self.mod.sorted
        del self.mod.round
        self.mod.math = self._math


def largest(cs):
    return math.prod(max(c) for c in cs)


def check_crosswalk(old, new, cw):
    """property oracle (1-D): each new block exactly once, contiguous in-bounds pieces"""
    if len(cw) != len(new):
        return f"{len(cw)} new blocks described, expected {len(new)}"
    offs = [0]
    for c in old:
        offs.append(offs[-1] + c)
    pos = 0
    for j, (c, pieces) in enumerate(zip(new, cw)):
        if not pieces:
            return f"new block {j} has no pieces"
        cur = pos
        for (i, sl) in pieces:
            if not (0 <= i < len(old)):
                return f"piece refers to old block {i}"
            a, b = sl.start, sl.stop
            if not (0 <= a <= b <= old[i]):
                return f"piece {i}:{a}:{b} out of bounds of old block of size {old[i]}"
            if offs[i] + a != cur:
                return f"new block {j}: piece starts at {offs[i] + a}, expected {cur}"
            cur = offs[i] + b
        if cur != pos + c:
            return f"new block {j}: pieces end at {cur}, expected {pos + c}"
        pos += c
    return None


def gen_pair_1d(rng, n, zero=True):
    return rand_chunks(rng, n, allow_zero=zero), rand_chunks(rng, n, allow_zero=zero)


def fam_crosswalk(chk, R, tier):
    rng = chk.rng
    inputs = []
    nmax = 7 if tier == "thorough" else 5
    for n in range(1, nmax + 1):
        comps = list(compositions(n))
        for o in comps:
            for nw in comps:
                inputs.append((o, nw))
    for _ in range(6000 if tier == "thorough" else 1200):
        n = rng.choice([1, 2, 3, 5, 8, 13, 30, 60])
        inputs.append(gen_pair_1d(rng, n))
    cases = []
    for o, nw in inputs:
        cw = R.old_to_new((o,), (nw,))[0]
        err = check_crosswalk(o, nw, cw)
        chk.count("crosswalk:" + ("zero" if 0 in o or 0 in nw else "pos"))
        chk.case(("cw", o, nw), nontrivial=(o != nw), sample={"fn": "old_to_new", "old": o, "new": nw,
                                                           "impl": [[(i, s.start, s.stop) for i, s in p] for p in cw]})
        if err:
            chk.violation("crosswalk is not an exact cover: " + err,
                          {"fn": "old_to_new", "old": o, "new": nw, "impl": [[(i, s.start, s.stop) for i, s in p] for p in cw]},
                          signature={"fn": "old_to_new", "zero_chunks": (0 in o or 0 in nw)})
        cases.append(ctuple(clist(o), clist(nw), ccw(cw)))
    mism, _ = coq_eval_cases(
        HEADER, "list Z * list Z * list (list (Z * Z * Z))",
        "Definition peq (a b : Z * Z * Z) := let '(x, y, z) := a in let '(u, v, w) := b in (x =? u) && (y =? v) && (z =? w).\n"
        "Definition chk (c : list Z * list Z * list (list (Z * Z * Z))) : bool := let '(o, n, cw) := c in\n"
        "  list_eqb (list_eqb peq) (intersect_1d o n) cw && (crosswalk_ok o n cw).",
        cases)
    for i in mism[:5]:
        o, nw = inputs[i]
        model = coq_eval_expr(HEADER, [f"(intersect_1d {clist(o)} {clist(nw)})"])[0]
        chk.tie_break("correspondence:old_to_new/_intersect_1d (or Coq checker crosswalk_ok rejected the impl output)",
                      {"old": o, "new": nw, "impl": repr(R.old_to_new((o,), (nw,))[0]), "model": model})
    chk.traces_validated += len(cases) - len(mism)


def gen_plan_case(rng, exhaustive=None):
    rank = rng.choice([1, 2, 2, 2, 3])
    shape, old, new = [], [], []
    for _ in range(rank):
        n = rng.choice([1, 2, 3, 4, 6, 8, 12, 20, 36, 60])
        shape.append(n)
        style = rng.random()
        if style < 0.35:   # thin -> fat
            k = rng.choice([1, 1, 2, 3])
            o = tuple([k] * (n // k) + ([n % k] if n % k else []))
            old.append(o)
            new.append(rand_chunks(rng, n)) if rng.random() < 0.5 else new.append((n,))
        elif style < 0.7:
            k = rng.choice([1, 1, 2, 3])
            o = tuple([k] * (n // k) + ([n % k] if n % k else []))
            new.append(o)
            old.append(rand_chunks(rng, n)) if rng.random() < 0.5 else old.append((n,))
        else:
            old.append(rand_chunks(rng, n))
            new.append(rand_chunks(rng, n))
    itemsize = rng.choice([1, 2, 4, 8])
    threshold = rng.choice([1, 2, 4, 32])
    bsl = rng.choice([1, 8, 64, 256, 1024, 10 ** 6, 128 * 2 ** 20])
    degree = rng.choice([2, 3, 8, 100])
    return tuple(old), tuple(new), itemsize, threshold, bsl, degree, tuple(shape)


def run_plan(R, old, new, itemsize, threshold, bsl, degree):
    with dask.config.set({"array.rechunk.degree-limit": degree}):
        with Recorder(R) as rec:
            try:
                plan = R.plan_rechunk(old, new, itemsize, threshold, bsl)
                err = None
            except Exception as e:  # noqa: BLE001
                plan, err = None, type(e).__name__ + ": " + str(e)[:80]
    return plan, err, rec.orders, rec.oracle


def fam_plan(chk, R, tier):
    rng = chk.rng
    inputs = []
    # corpus: the design-phase finding F1 first
    inputs.append((((3, 3, 3, 3), (12,)), ((4, 4, 4), (6, 6)), 1, 1, 1, 2, (12, 12)))
    # F22: zero-size chunks in the finer endpoint + degree pass -> AssertionError in merge_to_number
    inputs.append((((8,),), ((3, 0, 2, 0, 3),), 1, 1, 16, 2, (8,)))
    for _ in range(150):
        n = rng.choice([3, 5, 8, 12])
        inputs.append(((rand_chunks(rng, n, allow_zero=True),), (rand_chunks(rng, n, allow_zero=True),), 1, rng.choice([1, 4]), rng.choice([1, 64]), rng.choice([2, 3]), (n,)))
    if tier == "thorough":
        for n in range(1, 6):
            comps = list(compositions(n))
            for o in comps:
                for nw in comps:
                    for degree in (2, 3):
                        inputs.append(((o,), (nw,), 1, 1, 1, degree, (n,)))
        small = [c for n in (3, 4) for c in compositions(n)]
        for _ in range(4000):
            o1, n1, o2, n2 = (rng.choice(small) for _ in range(4))
            if sum(o1) != sum(n1) or sum(o2) != sum(n2):
                continue
            inputs.append(((o1, o2), (n1, n2), rng.choice([1, 8]), rng.choice([1, 4]), rng.choice([1, 16, 64]), rng.choice([2, 3, 100]), (sum(o1), sum(o2))))
    for _ in range(12000 if tier == "thorough" else 1500):
        inputs.append(gen_plan_case(rng))
    # byte limits that are NOT a multiple of the item size (the element budget limit/itemsize is fractional; a merge that lands
    # on the next integer is over budget): thin rows -> thin columns, limit a little below itemsize * (rows merged * row width)
    import random as _random
    drng = _random.Random(f"C15-fractional-budget-{chk.seed}")
    for _ in range(3000 if tier == "thorough" else 400):
        n, m = drng.choice([8, 12, 16, 24]), drng.choice([4, 6, 8, 16])
        parts = drng.choice([1, 2, 4]) if m % 4 == 0 else drng.choice([1, 2])
        old = ((1,) * n, (m // parts,) * parts)
        new = ((n,), (1,) * m)
        if drng.random() < 0.3:
            old, new = new, old
        itemsize = drng.choice([2, 4, 8])
        g = drng.choice([2, 3, 4, 6, 8])
        bsl = itemsize * g * (m // parts) - drng.randint(1, itemsize - 1)
        inputs.append((old, new, itemsize, drng.choice([1, 2, 4, 4]), bsl, drng.choice([3, 8, 100]), (n, m)))
    cases, kept = [], []
    for (old, new, itemsize, threshold, bsl, degree, shape) in inputs:
        plan, err, orders, oracle = run_plan(R, old, new, itemsize, threshold, bsl, degree)
        nsteps = len(plan) if plan else 0
        chk.count(f"plan:rank{len(old)}:steps{min(nsteps, 4)}" + (":raised" if err else ""))
        chk.case(("plan", old, new, itemsize, threshold, bsl, degree), nontrivial=(nsteps > 1),
                 sample={"fn": "plan_rechunk", "old": old, "new": new, "itemsize": itemsize, "threshold": threshold,
                         "block_size_limit": bsl, "degree_limit": degree, "impl": plan if plan else err})
        sig_base = {"fn": "plan_rechunk"}
        if err:
            chk.violation("plan_rechunk raised: " + err,
                          {"fn": "plan_rechunk", "old": old, "new": new, "itemsize": itemsize, "threshold": threshold, "block_size_limit": bsl, "degree_limit": degree},
                          signature={**sig_base, "class": "raises", "zero_size_chunks": any(0 in c for c in old + new),
                                     "error": err.split(":")[0]})
        else:
            problems = []
            if not plan or tuple(plan[-1]) != tuple(new):
                problems.append("plan does not end in the new chunking")
            for st in plan:
                if len(st) != len(shape) or any(sum(c) != n or any(x < 0 for x in c) or len(c) == 0 for c, n in zip(st, shape)):
                    problems.append(f"step {st} is not a chunking of shape {shape}")
                    break
            budget = max(bsl / itemsize, largest(old), largest(new))
            over = [st for st in plan if largest(st) > budget]
            if problems:
                chk.violation("; ".join(problems), {"fn": "plan_rechunk", "old": old, "new": new, "itemsize": itemsize, "threshold": threshold,
                                                    "block_size_limit": bsl, "degree_limit": degree, "plan": plan},
                              signature={**sig_base, "class": "invalid-plan"})
            if over:
                # which pass produced the oversized step?  re-plan with the degree pass disabled
                p2, _, _, _ = run_plan(R, old, new, itemsize, threshold, bsl, 10 ** 9)
                from_degree_pass = all(largest(st) <= budget for st in (p2 or []))
                chk.violation(
                    f"intermediate step {over[0]} has a block of {largest(over[0])} elements > budget {budget}",
                    {"fn": "plan_rechunk", "old": old, "new": new, "itemsize": itemsize, "threshold": threshold,
                     "block_size_limit": bsl, "degree_limit": degree, "plan": plan, "budget_elements": budget},
                    signature={**sig_base, "class": "over-budget", "pass": "_bound_degree" if from_degree_pass else "merge/split"})
        if len(oracle) > 60 or len(cchunks(old)) > 1500:
            continue
        cases.append(ctuple(clist(orders, lambda o: clist(o, cnat)), clist(oracle), cchunks(old), cchunks(new),
                            cz(itemsize), cz(threshold), cz(bsl), cz(degree), clist(shape),
                            copt(plan, lambda p: clist(p, cchunks))))
        kept.append((old, new, itemsize, threshold, bsl, degree, shape, plan, err, orders, oracle))
    mism, _ = coq_eval_cases(
        HEADER,
        "list (list nat) * list Z * chunksN * chunksN * Z * Z * Z * Z * list Z * option (list chunksN)",
        "Definition chk (c : list (list nat) * list Z * chunksN * chunksN * Z * Z * Z * Z * list Z * option (list chunksN)) : bool :=\n"
        "  let '(orders, oracle, old, new, isz, thr, bsl, deg, shape, out) := c in\n"
        "  match plan_rechunk orders oracle old new isz thr bsl deg, out with\n"
        "  | Some p, Some q => list_eqb chunksN_eqb p q\n"
        "  | None, None => true\n"
        "  | _, _ => false end.",
        cases, chunk=150)
    for i in mism[:5]:
        old, new, itemsize, threshold, bsl, degree, shape, plan, err, orders, oracle = kept[i]
        model = coq_eval_expr(HEADER, [
            f"plan_rechunk {clist(orders, lambda o: clist(o, cnat))} {clist(oracle)} {cchunks(old)} {cchunks(new)} {cz(itemsize)} {cz(threshold)} {cz(bsl)} {cz(degree)}"])[0]
        chk.tie_break("correspondence:plan_rechunk",
                      {"old": old, "new": new, "itemsize": itemsize, "threshold": threshold, "block_size_limit": bsl,
                       "degree_limit": degree, "orders": orders, "oracle": oracle, "impl": plan if plan else err, "model": model})
    chk.traces_validated += len(cases) - len(mism)


def fam_helpers(chk, R, tier):
    """divide_to_width / merge_to_number direct correspondence + their contracts"""
    rng = chk.rng
    cases, inputs = [], []
    for _ in range(5000 if tier == "thorough" else 1000):
        n = rng.choice([1, 2, 3, 5, 8, 13, 30, 60])
        cs = rand_chunks(rng, n) if rng.random() < 0.7 else tuple([rng.choice([1, 2, 3])] * rng.randint(1, 12))
        k = rng.randint(1, len(cs) + 1)
        try:
            out = tuple(int(x) for x in R.merge_to_number(cs, k))
        except Exception as e:  # noqa: BLE001
            out = None
        chk.count("merge_to_number:" + ("uniform" if len(set(cs)) == 1 else "heap"))
        chk.case(("m2n", cs, k), nontrivial=(out != cs), sample={"fn": "merge_to_number", "chunks": cs, "max_number": k, "impl": out})
        if out is not None:
            if sum(out) != sum(cs) or len(out) > max(k, 0) and len(cs) > k or any(c <= 0 for c in out):
                chk.violation("merge_to_number result is not a coarsening within the requested count",
                              {"fn": "merge_to_number", "chunks": cs, "max_number": k, "impl": out}, signature={"fn": "merge_to_number"})
            else:
                # coarsening: boundaries of out are a subset of the boundaries of cs
                b_in = set(itertools.accumulate(cs))
                if not set(itertools.accumulate(out)) <= b_in:
                    chk.violation("merge_to_number moved a boundary", {"fn": "merge_to_number", "chunks": cs, "max_number": k, "impl": out}, signature={"fn": "merge_to_number"})
        cases.append(ctuple("true", clist(cs), cz(k), copt(out, clist)))
        inputs.append(("merge_to_number", cs, k, out))
        w = rng.randint(1, max(cs) + 1)
        out2 = tuple(int(x) for x in R.divide_to_width(cs, w))
        chk.count("divide_to_width")
        chk.case(("d2w", cs, w), nontrivial=(out2 != cs))
        if sum(out2) != sum(cs) or max(out2) > w or not set(itertools.accumulate(cs)) <= set(itertools.accumulate(out2)):
            chk.violation("divide_to_width result is not a refinement within the width", {"fn": "divide_to_width", "chunks": cs, "max_width": w, "impl": out2},
                          signature={"fn": "divide_to_width"})
        cases.append(ctuple("false", clist(cs), cz(w), copt(out2, clist)))
        inputs.append(("divide_to_width", cs, w, out2))
    mism, _ = coq_eval_cases(
        HEADER, "bool * list Z * Z * option (list Z)",
        "Definition chk (c : bool * list Z * Z * option (list Z)) : bool := let '(m, cs, k, o) := c in\n"
        "  match (if m then merge_to_number cs k else divide_to_width cs k), o with Some a, Some b => zlist_eqb a b | None, None => true | _, _ => false end.",
        cases)
    for i in mism[:5]:
        chk.tie_break("correspondence:" + inputs[i][0], {"chunks": inputs[i][1], "arg": inputs[i][2], "impl": inputs[i][3]})
    chk.traces_validated += len(cases) - len(mism)


def replay(path):
    import json
    import dask_array._rechunk as R
    r = json.load(open(path))
    print(json.dumps(r, indent=1))
    d = r.get("data", {})
    if d.get("fn") == "plan_rechunk":
        t = lambda x: tuple(tuple(a) for a in x)  # noqa: E731
        plan, err, _, _ = run_plan(R, t(d["old"]), t(d["new"]), d["itemsize"], d["threshold"], d["block_size_limit"], d["degree_limit"])
        print("impl now:", plan if plan else err)
        if plan:
            print("largest block per step:", [largest(s) for s in plan], "budget:", max(d["block_size_limit"] / d["itemsize"], largest(t(d["old"])), largest(t(d["new"]))))


def run(chk: Check):
    import dask_array._rechunk as R
    chk.rule = ("exhaustive small + generated (old,new) chunkings x itemsize x threshold x block-size-limit x degree-limit; "
                "each case: impl vs Gallina model of plan_rechunk/old_to_new/merge_to_number/divide_to_width (float-derived "
                "choices recorded from the impl run and passed as oracle arguments), impl output vs brute-force property "
                "oracle, and impl crosswalk through the Coq checker crosswalk_ok; non-trivial = old != new (crosswalk) / "
                "plan with more than one step / helper changed its input")
    chk.assumptions = ["float arithmetic in plan_rechunk (limit*w/b, len*limit/gs, ceil(c/w)) is exact on the generated domain (integers < 2^40, itemsize a power of two)",
                       "sorted() is stable; heapq pops the lexicographic minimum"]
    chk.trusted_base = ["oracle recording by shadowing sorted/round/math in dask_array._rechunk's module namespace (harness/c15.py:Recorder)"]
    chk.run_proofs()
    fam_crosswalk(chk, R, chk.tier)
    fam_helpers(chk, R, chk.tier)
    fam_plan(chk, R, chk.tier)
