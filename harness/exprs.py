"""Helpers to evaluate expression forms and to capture fired rewrites (objects,
not just names) without touching /repo: the three rewrite hooks of every
ArrayExpr subclass are wrapped from the harness process, exactly like
dask_array._diagnostics.trace_rewrites does."""
from __future__ import annotations

import functools
import warnings
from contextlib import contextmanager

import numpy as np

_CAPTURE_ON = [False]


def _expr_classes():
    from dask_array._expr import ArrayExpr
    seen, stack = set(), [ArrayExpr]
    while stack:
        cls = stack.pop()
        if cls in seen:
            continue
        seen.add(cls)
        stack.extend(cls.__subclasses__())
    return seen


HOOKS = {"_simplify_down": "simplify", "_simplify_up": "simplify", "_lower": "lower"}


@contextmanager
def capture_rewrites():
    """Yields a list that receives (phase, rule, before_expr, after_expr)."""
    out = []
    patched = []

    def make(orig, hook, phase):
        @functools.wraps(orig)
        def wrapper(self, *args, **kwargs):
            res = orig(self, *args, **kwargs)
            if res is None or not _CAPTURE_ON[0]:
                return res
            before = args[0] if hook == "_simplify_up" else self
            if getattr(res, "_name", None) != before._name:
                out.append((phase, f"{type(self).__name__}.{hook}", before, res))
            return res
        return wrapper

    for cls in _expr_classes():
        for hook, phase in HOOKS.items():
            if hook in cls.__dict__:
                orig = cls.__dict__[hook]
                setattr(cls, hook, make(orig, hook, phase))
                patched.append((cls, hook, orig))
    _CAPTURE_ON[0] = True
    try:
        yield out
    finally:
        _CAPTURE_ON[0] = False
        for cls, hook, orig in reversed(patched):
            setattr(cls, hook, orig)


@contextmanager
def capture_paused():
    old = _CAPTURE_ON[0]
    _CAPTURE_ON[0] = False
    try:
        yield
    finally:
        _CAPTURE_ON[0] = old


def graph_of(lowered):
    from dask._expr import Expr
    return Expr.__dask_graph__(lowered)


def eval_lowered(lowered):
    """Execute a fully lowered expression's own graph and assemble the blocks."""
    import dask.local
    from dask_array._core_utils import finalize
    dsk = graph_of(lowered)
    keys = lowered.__dask_keys__()
    with warnings.catch_warnings():
        warnings.simplefilter("ignore")
        res = dask.local.get_sync(dsk, keys)
    return np.asarray(finalize(res)) if not isinstance(res, np.ndarray) else res


def eval_expr(e, simplify=False, fuse=False):
    with capture_paused(), warnings.catch_warnings():
        warnings.simplefilter("ignore")
        if simplify:
            e = e.simplify()
        low = e.lower_completely()
        if fuse:
            low = low.fuse()
        return eval_lowered(low)


def phases(expr):
    """raw / simplified / lowered / fused forms of an expression"""
    with warnings.catch_warnings():
        warnings.simplefilter("ignore")
        simplified = expr.simplify()
        lowered = simplified.lower_completely()
        fused = lowered.fuse()
    return {"raw": expr, "simplified": simplified, "lowered": lowered, "fused": fused}


def same(a, b):
    a, b = np.asarray(a), np.asarray(b)
    if a.shape != b.shape:
        return False, f"shape {a.shape} vs {b.shape}"
    if a.dtype != b.dtype:
        return False, f"dtype {a.dtype} vs {b.dtype}"
    if a.dtype.kind in "iub" or a.dtype.fields is not None:   # structured (arg-reduction chunk) values: exact
        ok = np.array_equal(a, b)
    else:
        ok = np.allclose(a.astype("float64"), b.astype("float64"), rtol=1e-9, atol=1e-9, equal_nan=True)
    return ok, "" if ok else "values differ"


def tree(e, depth=0, maxdepth=6):
    """class-name tree of an expression (for replay files)"""
    from dask_array._expr import ArrayExpr
    if depth > maxdepth:
        return "..."
    deps = [d for d in e.dependencies() if isinstance(d, ArrayExpr)]
    s = type(e).__name__
    try:
        s += f"{tuple(e.shape)}@{e.chunks}"
    except Exception:  # noqa: BLE001
        pass
    if deps:
        s += "[" + ", ".join(tree(d, depth + 1, maxdepth) for d in deps) + "]"
    return s
