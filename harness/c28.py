"""C28 — unknown chunk sizes are resolved exactly or refused."""
from __future__ import annotations

import math
import re
import warnings

import numpy as np

import progs
from common import Check


def err_sig(e):
    return re.sub(r"[0-9(),\[\]'-]+", "#", f"{type(e).__name__}: {e}")[:36]


def unknown_producers(rng, da, x, v):
    """a data-dependent selection: (description, dask array with unknown chunks, numpy value)"""
    kind = rng.choice(["mask", "mask", "mask-np", "nonzero", "unique", "argwhere", "flatnonzero", "compress"])
    t = int(rng.choice(v.ravel())) if v.size else 0
    if kind == "mask":
        return f"x[x > {t}]", x[x > t], v[v > t]
    if kind == "mask-np":
        m = v > t
        return "x[mask_np]", x[m], v[m]
    if kind == "nonzero":
        return "nonzero(x - t)[0]", da.nonzero(x - t)[0], np.nonzero(v - t)[0]
    if kind == "unique":
        return "unique(x)", da.unique(x), np.unique(v)
    if kind == "argwhere":
        return f"argwhere(x > {t})", da.argwhere(x > t), np.argwhere(v > t)
    if kind == "flatnonzero":
        return "flatnonzero(x - t)", da.flatnonzero(x - t), np.flatnonzero(v - t)
    axis = rng.randrange(v.ndim)
    cond = [bool(rng.getrandbits(1)) for _ in range(v.shape[axis])]
    return f"compress({cond}, axis={axis})", da.compress(cond, x, axis=axis), np.compress(cond, v, axis=axis)


def follow(rng, da, y, w):
    op = rng.choice(["sum", "slice0", "add", "rechunk", "T", "concat", "len", "reshape", "take", "max", "cumsum", "index-int"])
    if op == "sum":
        return op, lambda: y.sum(), lambda: w.sum()
    if op == "slice0":
        return op, lambda: y[:3], lambda: w[:3]
    if op == "add":
        return op, lambda: y + y, lambda: w + w
    if op == "rechunk":
        return op, lambda: y.rechunk(2), lambda: w
    if op == "T":
        return op, lambda: y.T, lambda: w.T
    if op == "concat":
        return op, lambda: da.concatenate([y, y]), lambda: np.concatenate([w, w])
    if op == "len":
        return op, lambda: len(y), lambda: len(w)
    if op == "reshape":
        return op, lambda: y.reshape(-1), lambda: w.reshape(-1)
    if op == "take":
        return op, lambda: da.take(y, [0], axis=0), lambda: np.take(w, [0], axis=0)
    if op == "max":
        return op, lambda: y.max(), lambda: w.max()
    if op == "cumsum":
        return op, lambda: da.cumsum(y, axis=0), lambda: np.cumsum(w, axis=0)
    return op, lambda: y[1], lambda: w[1]


def run(chk: Check):
    import dask_array as da
    chk.rule = ("data-dependent selections (dask / NumPy boolean masks, nonzero, unique, argwhere, flatnonzero, compress) over generated "
                "arrays: the unknown-size result must compute NumPy's values; compute_chunk_sizes() must set every chunk to the true "
                "size of that block (checked block by block against the executed graph) and later operations must equal NumPy; a "
                "follow-on operation applied while sizes are still unknown must either raise or equal NumPy (never a wrong shape or "
                "value); non-trivial = more than one block with unknown size")
    chk.run_proofs()
    rng = chk.rng
    n = 5000 if chk.tier == "thorough" else 300
    for it in range(n):
        rank = rng.choice([1, 1, 2, 2, 3])
        shape = tuple(rng.choice([1, 2, 3, 4, 6, 9]) for _ in range(rank))
        v = (np.arange(int(np.prod(shape)), dtype="int64").reshape(shape) * 5) % 13 - 4
        chunks = tuple(progs.rand_chunks_for(rng, s) for s in shape)
        x = da.from_array(v, chunks=chunks)
        try:
            with warnings.catch_warnings():
                warnings.simplefilter("ignore")
                how, y, w = unknown_producers(rng, da, x, v)
        except Exception as e:  # noqa: BLE001
            chk.count("skipped:producer-raises")
            continue
        desc = {"shape": shape, "chunks": chunks, "selection": how}
        unknown = sum(1 for dim in y.chunks for c in dim if isinstance(c, float) and math.isnan(c))
        chk.case(("sel", shape, chunks, how), nontrivial=unknown > 1, sample=desc if it < 4 else None)
        chk.count("selection:" + how.split("(")[0].split("[")[0])
        problems = []
        try:
            with warnings.catch_warnings():
                warnings.simplefilter("ignore")
                got = y.compute(scheduler="sync")
            ok, why = progs.values_equal(got, w)
            if not ok:
                problems.append(f"unknown-size selection differs from NumPy ({why})")
        except Exception as e:  # noqa: BLE001
            problems.append(f"selection raises {type(e).__name__}: {str(e)[:60]}")
        # follow-on while unknown: raise or be right
        if unknown and not problems:
            op, f_da, f_np = follow(rng, da, y, w)
            chk.count("follow-unknown:" + op)
            try:
                want = f_np()
            except Exception:  # noqa: BLE001
                want = None
            if want is not None:
                try:
                    with warnings.catch_warnings():
                        warnings.simplefilter("ignore")
                        r = f_da()
                        r = r.compute(scheduler="sync") if hasattr(r, "compute") else r
                    ok, why = progs.values_equal(r, want)
                    if not ok:
                        problems.append(f"`{op}` on an array with unknown chunk sizes returned a wrong result instead of raising ({why})")
                    else:
                        chk.traces_validated += 1
                except Exception:  # noqa: BLE001
                    chk.count("follow-unknown:refused")
        # compute_chunk_sizes
        if not problems:
            try:
                with warnings.catch_warnings():
                    warnings.simplefilter("ignore")
                    y2 = y.compute_chunk_sizes() if True else y
                    y2 = y if y2 is None else y2
                    import dask.local
                    from c03 import check_blocks
                    if any(isinstance(c, float) for dim in y2.chunks for c in dim):
                        problems.append("compute_chunk_sizes left unknown sizes")
                    else:
                        bp, nb = check_blocks(y2)
                        problems += ["after compute_chunk_sizes: " + p for p in bp[:2]]
                        op, f_da, f_np = follow(rng, da, y2, w)
                        chk.count("follow-known:" + op)
                        try:
                            want = f_np()
                        except Exception:  # noqa: BLE001
                            want = None
                        if want is not None:
                            try:
                                r = f_da()
                                r = r.compute(scheduler="sync") if hasattr(r, "compute") else r
                            except Exception as e:  # noqa: BLE001
                                r = None
                                problems.append(f"`{op}` after compute_chunk_sizes raises {type(e).__name__}: {str(e)[:60]}")
                            if r is not None:
                                ok, why = progs.values_equal(r, want)
                                if not ok:
                                    problems.append(f"`{op}` after compute_chunk_sizes differs from NumPy ({why})")
                                else:
                                    chk.traces_validated += 1
            except Exception as e:  # noqa: BLE001
                problems.append(f"after compute_chunk_sizes: raises {type(e).__name__}: {str(e)[:80]}")
        if problems:
            chk.violation("; ".join(problems[:3]), desc, signature={"class": "unknown-chunks", "selection": how.split("(")[0].split("[")[0],
                                                                   "problem": re.sub(r"[0-9(),\[\]'-]+", "#", problems[0])[:40]})


def replay(path):
    print(open(path).read())
