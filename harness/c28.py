"""C28 — unknown chunk sizes are resolved exactly or refused."""
from __future__ import annotations

import itertools
import math
import random
import re
import warnings

import numpy as np

import progs
from common import Check, clist, copt, coq_eval_cases, coq_eval_expr, ctuple, cz


def err_sig(e):
    return re.sub(r"[0-9(),\[\]'-]+", "#", f"{type(e).__name__}: {e}")[:36]


def unknown_producers(rng, da, x, v):
    """a data-dependent selection: (description, dask array with unknown chunks, numpy value)"""
    kind = rng.choice(["mask", "mask", "mask-np", "nonzero", "unique", "argwhere", "flatnonzero", "compress"])
    t = int(rng.choice(v.ravel())) if v.size else 0
    if kind == "mask":
        return f"x[x > {t}]", x[x > t], v[v > t]
    if kind == "mask-np":
        m = v > t
        return "x[mask_np]", x[m], v[m]
    if kind == "nonzero":
        return "nonzero(x - t)[0]", da.nonzero(x - t)[0], np.nonzero(v - t)[0]
    if kind == "unique":
        return "unique(x)", da.unique(x), np.unique(v)
    if kind == "argwhere":
        return f"argwhere(x > {t})", da.argwhere(x > t), np.argwhere(v > t)
    if kind == "flatnonzero":
        return "flatnonzero(x - t)", da.flatnonzero(x - t), np.flatnonzero(v - t)
    axis = rng.randrange(v.ndim)
    cond = [bool(rng.getrandbits(1)) for _ in range(v.shape[axis])]
    return f"compress({cond}, axis={axis})", da.compress(cond, x, axis=axis), np.compress(cond, v, axis=axis)


def follow(rng, da, y, w):
    op = rng.choice(["sum", "slice0", "add", "rechunk", "T", "concat", "len", "reshape", "take", "max", "cumsum", "index-int"])
    if op == "sum":
        return op, lambda: y.sum(), lambda: w.sum()
    if op == "slice0":
        return op, lambda: y[:3], lambda: w[:3]
    if op == "add":
        return op, lambda: y + y, lambda: w + w
    if op == "rechunk":
        return op, lambda: y.rechunk(2), lambda: w
    if op == "T":
        return op, lambda: y.T, lambda: w.T
    if op == "concat":
        return op, lambda: da.concatenate([y, y]), lambda: np.concatenate([w, w])
    if op == "len":
        return op, lambda: len(y), lambda: len(w)
    if op == "reshape":
        return op, lambda: y.reshape(-1), lambda: w.reshape(-1)
    if op == "take":
        return op, lambda: da.take(y, [0], axis=0), lambda: np.take(w, [0], axis=0)
    if op == "max":
        return op, lambda: y.max(), lambda: w.max()
    if op == "cumsum":
        return op, lambda: da.cumsum(y, axis=0), lambda: np.cumsum(w, axis=0)
    return op, lambda: y[1], lambda: w[1]


# --------------------------------------------------------------------------
# model correspondence: the guards / resolvers for unknown chunk sizes vs theories/UnknownChunks.v
HEADER = "From DA Require Import PyBase Slicing Rechunk Unify UnknownChunks.\nOpen Scope Z_scope.\n"
NAN = np.nan          # THE singleton the library writes (never float('nan')): set/tuple equality is identity based

# one Coq case type for all sub-families (a single batch of coqc runs)
CASE_DEFS = """
Inductive ucase :=
| CValidate (o n : ochunksN) (g : guard unit)
| CO2N (o n : ochunksN) (cw : list (list (list opiece)))
| CPlan (o n : ochunksN) (steps : list ochunksN)
| CBlock (ds : list ochunks) (cm co : guard ochunks)
| CSlice (cs : ochunksN) (ix : list ploc) (g : guard unit)
| COverride (cs got : ochunksN) (layer : list (list Z * list Z))
| CMatch (a b : ochunksN) (r : bool)
| CCcs (nb : list Z) (t : list (list Z * list Z)) (got : list (list Z)).
Definition peq (a b : opiece) := let '(x, y, z) := a in let '(u, v, w) := b in (x =? u) && (y =? v) && oZ_eqb z w.
Definition lookup (t : list (list Z * list Z)) (loc : list Z) : list Z :=
  match find (fun p => zlist_eqb (fst p) loc) t with Some p => snd p | None => [] end.
Definition chk (c : ucase) : bool :=
  match c with
  | CValidate o n g => guard_eqb (fun _ _ => true) (validate_rechunk o n) g
  | CO2N o n cw => match old_to_new_u o n with Some r => list_eqb (list_eqb (list_eqb peq)) r cw | None => false end
  | CPlan o n st => match plan_rechunk_early_exit o n with Some r => list_eqb chunks_match r st | None => false end
  | CBlock ds cm co => guard_eqb ochunks_eqb (common_blockdim_u ds) cm &&
                       existsb (fun p => guard_eqb ochunks_eqb (coarse_blockdim_u p ds) co) (seq 0 4)
  | CSlice cs ix g => guard_eqb (fun _ _ => true) (slice_guard cs ix) g
  | COverride cs got layer => chunks_match (chunks_override_chunks cs) got &&
      list_eqb (fun a b => zlist_eqb (fst a) (fst b) && zlist_eqb (snd a) (snd b)) (chunks_override_layer cs) layer
  | CMatch a b r => Bool.eqb (chunks_match a b) r
  | CCcs nb t got => zlist2_eqb (compute_chunk_sizes_model (lookup t) nb) got
  end.
"""


def isnan(c):
    return isinstance(c, float) and math.isnan(c)


def cnan(c):
    return "None" if isnan(c) else f"(Some {cz(c)})"


def cdim(d):
    return clist(d, cnan)


def cchunks(cs):
    return clist(cs, cdim)


def canon_dim(d):
    """tuple of int-or-None (None = nan)"""
    return tuple(None if isnan(c) else int(c) for c in d)


def outcome(fn, *args):
    """('ok', value) or ('err', exception class name)"""
    try:
        with warnings.catch_warnings():
            warnings.simplefilter("ignore")
            return ("ok", fn(*args))
    except (ValueError, AssertionError, StopIteration) as e:
        return ("err", type(e).__name__)
    except Exception as e:  # noqa: BLE001
        return ("err", "Other:" + type(e).__name__)


def cguard(out, f):
    if out[0] == "ok":
        return f"(Proceed {f(out[1])})"
    if out[1] in ("ValueError", "AssertionError", "StopIteration"):
        return f"(Refuse {out[1]})"
    return None


def known_sound(adv, tr):
    return len(adv) == len(tr) and all(isnan(a) or a == t for a, t in zip(adv, tr))


def mask_layout(rng, tr, p):
    return tuple(NAN if rng.random() < p else c for c in tr)


def small_layouts(alphabet, maxlen):
    out = []
    for k in range(maxlen + 1):
        out += list(itertools.product(alphabet, repeat=k))
    return out


def fam_validate_rechunk(chk, rng, scale, pend):
    from dask_array._rechunk import _validate_rechunk
    from c13 import rand_chunks
    inputs = []
    lays = small_layouts([NAN, 1, 2], 3 if scale > 1 else 2) + [(NAN, 1, 2), (NAN, 2, 1), (1, NAN, 2), (1, 1, 1), (NAN, NAN, NAN), (2, 1, NAN)]
    for a in lays:
        for b in lays:
            inputs.append(((a,), (b,)))
    for _ in range(600 * scale):
        rank = rng.choice([0, 1, 2, 2, 3])
        old, new = [], []
        for _ax in range(rank):
            n = rng.choice([1, 2, 3, 5, 8, 12])
            tr = rand_chunks(rng, n, allow_zero=True)
            o = mask_layout(rng, tr, rng.choice([0, 0, 0.3, 0.7, 1]))
            r = rng.random()
            if r < 0.45:
                nw = o
            elif r < 0.6:
                nw = mask_layout(rng, tr, rng.choice([0, 0.3, 1]))           # nans elsewhere
            elif r < 0.8:
                nw = rand_chunks(rng, n, allow_zero=True)                     # known, same total
            elif r < 0.9:
                nw = rand_chunks(rng, n + rng.choice([0, 1]), allow_zero=True)
            else:
                nw = o + (rng.choice([0, NAN]),)                              # same prefix, one more block
            old.append(o)
            new.append(nw)
        if rng.random() < 0.08:
            new = new[:-1] if new and rng.random() < 0.5 else new + [(1,)]
        inputs.append((tuple(old), tuple(new)))
    for old, new in inputs:
        out = outcome(_validate_rechunk, old, new)
        g = cguard(out, lambda _v: "tt")
        impl = out[1] if out[0] == "err" else "accepted"
        chk.count("validate_rechunk:" + impl)
        unknown = any(isnan(c) for d in old + new for c in d)
        data = {"fn": "_validate_rechunk", "old": repr(old), "new": repr(new), "impl": impl}
        chk.case(("vr", tuple(map(canon_dim, old)), tuple(map(canon_dim, new))), nontrivial=unknown and old != new, sample=data)
        if g is None:
            chk.tie_break("correspondence:_validate_rechunk raised an unmodelled exception", data)
            continue
        if out[0] == "ok":
            # independent oracle: an accepted rechunk never touches an axis with unknown sizes, and keeps known lengths
            for o, nw in zip(old, new):
                if any(map(isnan, o)) or any(map(isnan, nw)):
                    bad = canon_dim(o) != canon_dim(nw)
                else:
                    bad = sum(o) != sum(nw)
                if bad:
                    chk.violation("_validate_rechunk accepted a rechunk that changes an axis with unknown sizes (or the axis length)", data,
                                  signature={"class": "unknown-chunks", "fn": "_validate_rechunk", "problem": "accepted a changed unknown axis"})
        pend.append((f"(CValidate {cchunks(old)} {cchunks(new)} {g})", "_validate_rechunk", data, f"validate_rechunk {cchunks(old)} {cchunks(new)}"))


def canon_cw(cw):
    return [[[(int(j), int(s.start), None if s.stop is None else int(s.stop)) for j, s in pieces] for pieces in axis] for axis in cw]


def ccw(cw):
    return clist(cw, lambda axis: clist(axis, lambda pieces: clist(pieces, lambda p: ctuple(cz(p[0]), cz(p[1]), copt(p[2])))))


def fam_old_to_new(chk, rng, scale, pend):
    from dask_array._rechunk import old_to_new
    from c13 import rand_chunks
    inputs = []
    lays = small_layouts([NAN, 0, 2], 3)
    for a in lays:
        if any(map(isnan, a)):
            inputs.append(((a,), (a,)))
            inputs.append(((a, (1, 2)), ((5,), (2, 1))))
    for _ in range(400 * scale):
        rank = rng.choice([1, 2, 2, 3])
        old, new = [], []
        for _ax in range(rank):
            n = rng.choice([1, 2, 3, 5, 8, 12])
            tr = rand_chunks(rng, n, allow_zero=True)
            if rng.random() < 0.5:
                o = mask_layout(rng, tr, rng.choice([0.2, 0.6, 1]))
                nw = o if rng.random() < 0.7 else rand_chunks(rng, n)        # the new layout of an unknown axis is ignored
            else:
                o, nw = tr, rand_chunks(rng, n, allow_zero=True)
            old.append(o)
            new.append(nw)
        inputs.append((tuple(old), tuple(new)))
    for old, new in inputs:
        cw = canon_cw(old_to_new(old, new))
        unk = [any(map(isnan, o)) for o in old]
        data = {"fn": "old_to_new", "old": repr(old), "new": repr(new), "impl": cw}
        chk.count(f"old_to_new:{sum(unk)}unknown-of-{len(old)}")
        chk.case(("o2n", tuple(map(canon_dim, old)), tuple(map(canon_dim, new))), nontrivial=any(unk), sample=data)
        for ax, u in enumerate(unk):
            if u and cw[ax] != [[(j, 0, canon_dim(old[ax])[j])] for j in range(len(old[ax]))]:
                chk.violation("old_to_new is not the identity crosswalk on an axis with unknown sizes", data,
                              signature={"class": "unknown-chunks", "fn": "old_to_new", "problem": "unknown axis is not mapped block to block"})
        pend.append((f"(CO2N {cchunks(old)} {cchunks(new)} {ccw(cw)})", "old_to_new (unknown axes)", data, f"old_to_new_u {cchunks(old)} {cchunks(new)}"))


def fam_plan_early_exit(chk, rng, scale, pend):
    from dask_array._rechunk import plan_rechunk
    from c13 import rand_chunks
    inputs = []
    for _ in range(200 * scale):
        rank = rng.choice([1, 2, 2, 3])
        old, new = [], []
        for _ax in range(rank):
            n = rng.choice([1, 2, 3, 5, 8, 12, 40])
            old.append(rand_chunks(rng, n, allow_zero=True))
            new.append(rand_chunks(rng, n))
        ax = rng.randrange(rank)
        if rng.random() < 0.7:
            old[ax] = mask_layout(rng, old[ax], rng.choice([0.3, 1]))
            if not any(map(isnan, old[ax])):
                old[ax] = (NAN,) + old[ax][1:]
            if rng.random() < 0.7:
                new[ax] = old[ax]
        else:
            new[ax] = ()
        inputs.append((tuple(old), tuple(new)))
    for old, new in inputs:
        out = outcome(plan_rechunk, old, new, rng.choice([1, 8]))
        data = {"fn": "plan_rechunk", "old": repr(old), "new": repr(new), "impl": repr(out[1])}
        chk.count("plan_rechunk:early-exit:" + ("nan-in-old" if any(isnan(c) for d in old for c in d) else "empty-new-axis"))
        chk.case(("plan", tuple(map(canon_dim, old)), tuple(map(canon_dim, new))), nontrivial=True, sample=data)
        if out[0] != "ok":
            chk.tie_break("correspondence:plan_rechunk raised on an early-exit input", data)
            continue
        steps = [tuple(tuple(d) for d in st) for st in out[1]]
        if len(steps) != 1 or tuple(map(canon_dim, steps[0])) != tuple(map(canon_dim, new)):
            chk.violation("plan_rechunk with unknown old chunks / an empty new axis is not the single requested step", data,
                          signature={"class": "unknown-chunks", "fn": "plan_rechunk", "problem": "early exit is not [new_chunks]"})
        pend.append((f"(CPlan {cchunks(old)} {cchunks(new)} {clist(steps, cchunks)})", "plan_rechunk early exit", data,
                     f"plan_rechunk_early_exit {cchunks(old)} {cchunks(new)}"))


def fam_blockdims_unknown(chk, rng, scale, pend):
    from dask_array._core_utils import common_blockdim
    from dask_array._expr import coarse_blockdim
    from c13 import rand_chunks
    from c17 import related_layouts
    inputs = []          # (list of layouts, common true layout or None)
    lays = small_layouts([NAN, 1, 2], 2)
    trip = lays if scale > 1 else [(), (NAN,), (2,), (NAN, NAN), (1, NAN), (2, 1), (NAN, 2)]
    for a in lays:
        inputs.append(([a], None))
        for b in lays:
            inputs.append(([a, b], None))
            for c in trip:
                inputs.append(([a, b, c], None))
    for _ in range(500 * scale):
        n = rng.choice([1, 2, 3, 5, 8, 12, 24])
        r = rng.random()
        if r < 0.4:      # the hypothesis of the soundness theorem: every layout advertises the SAME true layout
            tr = rand_chunks(rng, n, allow_zero=rng.random() < 0.3)
            ds = [mask_layout(rng, tr, rng.choice([0, 0.3, 0.7, 1])) for _ in range(rng.choice([1, 2, 3, 4]))]
            inputs.append((ds, tr))
        elif r < 0.7:    # related known layouts, some blocks masked
            ls = related_layouts(rng, n)
            ds = [mask_layout(rng, d, rng.choice([0, 0, 0.4, 1])) for d in ls]
            inputs.append((ds, None))
        else:            # fully known (agreement with the known-sizes models), duplicates and 1-block layouts included
            ls = related_layouts(rng, n)
            if rng.random() < 0.3:
                ls.append(rng.choice(ls))
            if rng.random() < 0.3:
                ls.append((n + rng.choice([0, 1]),))
            rng.shuffle(ls)
            inputs.append((ls, None))
    for ds, tr in inputs:
        outs = {}
        for nm, fn in (("common", common_blockdim), ("coarse", coarse_blockdim)):
            o = outcome(fn, list(ds))
            outs[nm] = ("ok", tuple(o[1])) if o[0] == "ok" else o
        unknown = sum(1 for d in ds if any(map(isnan, d)))
        data = {"fn": "common_blockdim/coarse_blockdim", "blockdims": repr(ds), "common": repr(outs["common"][1]), "coarse": repr(outs["coarse"][1])}
        chk.count(f"blockdim:{min(len(ds), 4)}{'+' if len(ds) > 4 else ''}layouts:{min(unknown, 2)}{'+' if unknown > 2 else ''}unknown"
                  + (":common-true-layout" if tr is not None else ""))
        chk.case(("bd", tuple(map(canon_dim, ds))), nontrivial=unknown > 0 and len(ds) > 1, sample=data)
        gs = [cguard(outs[nm], cdim) for nm in ("common", "coarse")]
        if None in gs:
            chk.tie_break("correspondence:common_blockdim/coarse_blockdim raised an unmodelled exception", data)
            continue
        if tr is not None:
            for nm in ("common", "coarse"):
                if outs[nm][0] == "ok" and not known_sound(outs[nm][1], tr):
                    chk.violation(f"{nm}_blockdim over layouts that all advertise the same true layout returned a layout that contradicts it",
                                  {**data, "true": tr},
                                  signature={"class": "unknown-chunks", "fn": nm + "_blockdim", "problem": "result contradicts the true layout"})
        pend.append((f"(CBlock {clist(ds, cdim)} {gs[0]} {gs[1]})", "common_blockdim/coarse_blockdim (unknown sizes)", data,
                     f"(common_blockdim_u {clist(ds, cdim)}, coarse_blockdim_u 0 {clist(ds, cdim)})"))


def cploc(ind):
    if isinstance(ind, slice):
        return f"(LSlice (mkslice {copt(ind.start)} {copt(ind.stop)} {copt(ind.step)}))"
    return f"(LInt {cz(ind)})"


def fam_slice_guard_override(chk, rng, scale, da, pend):
    """slice_slices_and_integers guard, ChunksOverride.chunks/_layer and _chunks_match on real expression nodes"""
    from dask_array._expr import ChunksOverride, _chunks_match
    from dask_array.slicing._basic import slice_slices_and_integers
    elems = [slice(None), slice(None), slice(None, None, None), slice(0, None), slice(1, 3), slice(None, None, 1), 0, 1, -1]
    for it in range(250 * scale):
        rank = rng.choice([1, 2, 2, 3])
        shape = tuple(rng.choice([2, 3, 4, 6]) for _ in range(rank))
        v = np.arange(int(np.prod(shape))).reshape(shape)
        x = da.from_array(v, chunks=tuple(progs.rand_chunks_for(rng, s) for s in shape))
        if it % 3 == 0:
            # a real data-dependent selection: axis 0 gets nan chunks
            base = x[x.reshape(shape[0], -1)[:, 0] % 2 == 0] if rank > 1 else x[x % 2 == 0]
            expr = base.expr
        else:
            # the node compute_chunk_sizes builds, with an arbitrary pattern of still-unknown sizes
            chunks = tuple(mask_layout(rng, d, rng.choice([0, 0.5, 1])) for d in x.chunks)
            expr = ChunksOverride(x.expr, chunks)
            got = tuple(tuple(d) for d in expr.chunks)
            layer = expr._layer()
            pairs, names_ok = [], True
            for k, alias in layer.items():
                tgt = alias.target
                names_ok &= (k[0] == expr._name and tgt[0] == x.expr._name and alias.key == k)
                pairs.append((tuple(k[1:]), tuple(tgt[1:])))
            data = {"fn": "ChunksOverride", "chunks": repr(chunks), "impl_chunks": repr(got), "impl_layer": repr(pairs)}
            chk.count("ChunksOverride:layer")
            chk.case(("override", tuple(map(canon_dim, chunks))), nontrivial=len(pairs) > 1, sample=data)
            if not names_ok or any(a != b for a, b in pairs):
                chk.violation("ChunksOverride._layer is not the identity alias of every block of the wrapped array", data,
                              signature={"class": "unknown-chunks", "fn": "ChunksOverride", "problem": "layer is not the identity alias"})
            lay = clist(pairs, lambda p: ctuple(clist(p[0]), clist(p[1])))
            pend.append((f"(COverride {cchunks(chunks)} {cchunks(got)} {lay})", "ChunksOverride.chunks/_layer", data, f"chunks_override_layer {cchunks(chunks)}"))
            # _chunks_match against a perturbed copy
            other = list(chunks)
            r = rng.random()
            ax = rng.randrange(rank)
            if r < 0.3:
                other[ax] = mask_layout(rng, x.chunks[ax], 0.5)
            elif r < 0.4:
                other[ax] = other[ax] + (1,)
            elif r < 0.5:
                other = other[:-1]
            other = tuple(other)
            mm = bool(_chunks_match(chunks, other))
            chk.count("_chunks_match:" + str(mm))
            chk.case(("match", tuple(map(canon_dim, chunks)), tuple(map(canon_dim, other))), nontrivial=chunks != other)
            pend.append((f"(CMatch {cchunks(chunks)} {cchunks(other)} {'true' if mm else 'false'})", "_chunks_match",
                         {"fn": "_chunks_match", "a": repr(chunks), "b": repr(other), "impl": mm}, f"chunks_match {cchunks(chunks)} {cchunks(other)}"))
        chunks = tuple(tuple(d) for d in expr.chunks)
        for _ in range(3):
            index = tuple(rng.choice(elems) for _ in range(rng.choice([rank, rank, rank, max(rank - 1, 0), rank + 1])))
            out = outcome(slice_slices_and_integers, expr, index)
            g = cguard(out, lambda _v: "tt")
            impl = out[1] if out[0] == "err" else "proceeds"
            data = {"fn": "slice_slices_and_integers", "chunks": repr(chunks), "index": repr(index), "impl": impl}
            chk.count("slice_guard:" + impl)
            chk.case(("sg", tuple(map(canon_dim, chunks)), repr(index)), nontrivial=any(isnan(c) for d in chunks for c in d), sample=data)
            if g is None:
                chk.tie_break("correspondence:slice_slices_and_integers raised an unmodelled exception", data)
                continue
            if out[0] == "ok":
                for d, ind in zip(chunks, index):
                    if any(map(isnan, d)) and ind != slice(None):
                        chk.violation("slice_slices_and_integers let a non-trivial index through on an axis whose length is unknown", data,
                                      signature={"class": "unknown-chunks", "fn": "slice_slices_and_integers", "problem": "unknown axis indexed"})
            pend.append((f"(CSlice {cchunks(chunks)} {clist(index, cploc)} {g})", "slice_slices_and_integers guard", data,
                         f"slice_guard {cchunks(chunks)} {clist(index, cploc)}"))


def fam_compute_chunk_sizes(chk, rng, scale, da, pend):
    """compute_chunk_sizes() on real unknown-chunk arrays vs the model fed with the measured true block shapes"""
    import dask.local
    from c03 import flat_keys
    for it in range(60 * scale):
        rank = rng.choice([1, 1, 2, 2, 3])
        shape = tuple(rng.choice([1, 2, 3, 4, 6, 9]) for _ in range(rank))
        v = (np.arange(int(np.prod(shape)), dtype="int64").reshape(shape) * 5) % 13 - 4
        chunks = tuple(progs.rand_chunks_for(rng, s) for s in shape)
        x = da.from_array(v, chunks=chunks)
        try:
            with warnings.catch_warnings():
                warnings.simplefilter("ignore")
                how, y, _w = unknown_producers(rng, da, x, v)
                nb = tuple(len(c) for c in y.chunks)
                grid = list(itertools.product(*[range(n) for n in nb]))
                keys = list(flat_keys(y.__dask_keys__()))
                vals = dask.local.get_sync(y.__dask_graph__(), keys)
                table = {idx: tuple(int(s) for s in np.asarray(b).shape) for idx, b in zip(grid, vals)}
                adv = tuple(tuple(d) for d in y.chunks)
                y.compute_chunk_sizes()
                got = tuple(tuple(d) for d in y.chunks)
        except Exception:  # noqa: BLE001
            chk.count("compute_chunk_sizes:skipped-producer-raises")
            continue
        unknown = sum(1 for d in adv for c in d if isnan(c))
        data = {"fn": "compute_chunk_sizes", "selection": how, "shape": shape, "chunks": chunks, "advertised": repr(adv),
                "true_block_shapes": {str(k): s for k, s in list(table.items())[:8]}, "resolved": repr(got)}
        chk.count("compute_chunk_sizes:" + how.split("(")[0].split("[")[0])
        chk.case(("ccs", shape, chunks, how), nontrivial=unknown > 1, sample=data)
        if any(isnan(c) for d in got for c in d) or any(len(s) != len(nb) for s in table.values()):
            chk.violation("compute_chunk_sizes left unknown sizes (or a block has the wrong rank)", data,
                          signature={"class": "unknown-chunks", "fn": "compute_chunk_sizes", "problem": "sizes left unknown"})
            continue
        bad = [idx for idx, s in table.items() if s != tuple(got[k][i] for k, i in enumerate(idx))]
        if bad or not all(known_sound(a, g) for a, g in zip(adv, got)):
            chk.violation("compute_chunk_sizes: a resolved chunk size is not the true size of that block (or contradicts a size that was already known)",
                          {**data, "block": bad[:1], "true": [table[b] for b in bad[:1]]},
                          signature={"class": "unknown-chunks", "fn": "compute_chunk_sizes", "problem": "resolved size differs from the executed block"})
        tab = clist(sorted(table.items()), lambda kv: ctuple(clist(kv[0]), clist(kv[1])))
        pend.append((f"(CCcs {clist(nb)} {tab} {clist(got, clist)})", "compute_chunk_sizes", data, None))


def fam_unknown_model(chk):
    import dask_array as da
    rng = random.Random(chk.seed * 7919 + 28)     # own stream: the differential part above keeps its cases
    scale = 10 if chk.tier == "thorough" else 1
    pend = []                                      # (Coq case literal, kind, data, model expression)
    fam_validate_rechunk(chk, rng, scale, pend)
    fam_old_to_new(chk, rng, scale, pend)
    fam_plan_early_exit(chk, rng, scale, pend)
    fam_blockdims_unknown(chk, rng, scale, pend)
    fam_slice_guard_override(chk, rng, scale, da, pend)
    fam_compute_chunk_sizes(chk, rng, scale, da, pend)
    mism, _ = coq_eval_cases(HEADER, "ucase", CASE_DEFS, [p[0] for p in pend], chunk=1700, jobs=6)
    seen = {}
    for i in mism:
        _lit, kind, data, expr = pend[i]
        seen[kind] = seen.get(kind, 0) + 1
        if seen[kind] > 3:
            continue
        data = dict(data)
        if expr is not None:
            try:
                data["model"] = coq_eval_expr(HEADER, [expr])[0]
            except Exception as e:  # noqa: BLE001
                data["model"] = f"<{e}>"
        chk.tie_break("correspondence:" + kind, data)
    chk.traces_validated += len(pend) - len(mism)


def corpus_f32(chk, da):
    """F32: an elementwise op of arrays with unknown chunk sizes whose blocks do not align broadcasts silently.
    (a) two unknown-size operands, true block sizes (2,1) and (1,2): NumPy gives 3 elements, dask 4;
    (b) an unknown-size operand (true sizes (1,2)) and a known (2,2) one: NumPy raises, dask returns 4 elements
        (unify_chunks_expr skips "rechunking known chunks to unknown")."""
    def case_a():
        xv, yv = np.array([5, 6, 0, 7, 0, 0]), np.array([9, 0, 0, 9, 9, 0])
        x, y = da.from_array(xv, chunks=3), da.from_array(yv, chunks=3)
        return "x[x>4] + y[y>4], true block sizes (2,1) and (1,2)", (lambda: x[x > 4] + y[y > 4]), (lambda: xv[xv > 4] + yv[yv > 4])

    def case_b():
        xv, yv = np.arange(6), np.arange(4) * 10
        x, y = da.from_array(xv, chunks=3), da.from_array(yv, chunks=2)
        return ("x[(x==2)|(x>=4)] + y, true block sizes (1,2) against known (2,2)", (lambda: x[(x == 2) | (x >= 4)] + y),
                (lambda: xv[(xv == 2) | (xv >= 4)] + yv))

    for tag, mk in (("a", case_a), ("b", case_b)):
        what, f_da, f_np = mk()
        chk.count("corpus:elemwise-of-unknown:" + tag)
        chk.case(("corpus", "F32", tag), nontrivial=True)
        try:
            want = f_np()
        except Exception as e:  # noqa: BLE001
            want = e
        try:
            with warnings.catch_warnings():
                warnings.simplefilter("ignore")
                got = np.asarray(f_da().compute(scheduler="sync"))
        except Exception:  # noqa: BLE001
            chk.count("follow-unknown:refused")
            continue
        if isinstance(want, Exception):
            ok, why, wtxt = False, "NumPy raises " + type(want).__name__, "raises"
        else:
            ok, why = progs.values_equal(got, want)
            wtxt = want.tolist()
        if not ok:
            chk.violation(f"{what}: returned {got.tolist()} instead of raising; NumPy: {wtxt} ({why})",
                          {"case": what, "impl": got.tolist(), "numpy": wtxt},
                          signature={"class": "unknown-chunks", "selection": "mask",
                                     "problem": "elemwise of two unknown-size arrays: misaligned blocks broadcast silently"})
        else:
            chk.traces_validated += 1


def fam_stacked_on_known_axis(chk, da):
    """arrays with ONE unknown axis (a dask boolean mask along an axis): stacked basic indices, elementwise ops and reductions
    on the KNOWN axes must raise or be NumPy's (never an empty / misshapen result), for one and several blocks on the unknown axis"""
    import random as _random
    rng = _random.Random(f"C28-stacked-known-axis-{chk.seed}")
    for it in range(1500 if chk.tier == "thorough" else 200):
        rows, cols = rng.choice([4, 6, 8]), rng.choice([5, 6, 9])
        xn = (np.arange(rows * cols).reshape(rows, cols) * 7) % 101
        rchunks = progs.rand_chunks_for(rng, rows)
        mask_blocks = rng.choice([1, 1, 2, 3])
        mn = np.array([rng.random() < 0.6 for _ in range(cols)])
        if not mn.any():
            mn[0] = True
        cch = (cols,) if mask_blocks == 1 else progs.rand_chunks_for(rng, cols)
        ax = rng.choice([0, 1])
        if ax == 0:
            xn = xn.T.copy()
        x = da.from_array(xn, chunks=(cch, rchunks) if ax == 0 else (rchunks, cch))
        m = da.from_array(mn, chunks=(cch,))
        y, w = (x[m, :], xn[mn, :]) if ax == 0 else (x[:, m], xn[:, mn])
        known = 1 - ax
        n = w.shape[known]
        a, b = rng.randrange(0, n), rng.randrange(1, n + 1)

        def on_known(t, i):
            return t[(slice(None),) * known + (i,)]
        ops = {
            "y[a:][0:b]": lambda t: on_known(on_known(t, slice(a, None)), slice(0, b)),
            "(y[a:]+1)[0:b]": lambda t: on_known(on_known(t, slice(a, None)) + 1, slice(0, b)),
            "y[::2][1:]": lambda t: on_known(on_known(t, slice(None, None, 2)), slice(1, None)),
            "y[a:][::-1]": lambda t: on_known(on_known(t, slice(a, None)), slice(None, None, -1)),
            "y[a][...]": lambda t: on_known(t, a)[...],
            "y[a:].sum(known)": lambda t: on_known(t, slice(a, None)).sum(axis=known),
            "y[0:][a:]": lambda t: on_known(on_known(t, slice(0, None)), slice(a, None)),
        }
        name = rng.choice(sorted(ops))
        want = ops[name](w)
        desc = {"x": xn.tolist(), "x_chunks": x.chunks, "mask": mn.astype(int).tolist(), "unknown_axis": ax, "op": name, "a": a, "b": b,
                "blocks_on_unknown_axis": len(cch)}
        chk.case(("stacked-known-axis", it, name, ax, len(cch)), nontrivial=True, sample=desc if it < 2 else None)
        chk.count(f"stacked-known-axis:{len(cch)}blocks")
        try:
            with warnings.catch_warnings():
                warnings.simplefilter("ignore")
                got = ops[name](y).compute(scheduler="sync")
        except Exception:  # noqa: BLE001
            chk.count("stacked-known-axis:refused")
            chk.traces_validated += 1
            continue
        if np.shape(got) != np.shape(want) or not np.array_equal(got, want):
            chk.violation(f"{name} on an array with an unknown axis silently returns shape {np.shape(got)}, NumPy {np.shape(want)}"
                          + ("" if np.shape(got) != np.shape(want) else " with other values"), desc,
                          signature={"class": "unknown-chunks", "problem": "indices on the known axes: silently wrong", "op": name})
        else:
            chk.traces_validated += 1


def fam_unknown_vs_known(chk, da, rng):
    """binary elementwise ops between a selection with unknown block sizes and a KNOWN operand (one chunk, the same number of
    blocks, a broadcast length-1 axis), under every unify-chunks policy: must raise or give NumPy's result.  The masks are
    drawn so that per-block selection sizes are often all 1 / all equal (where a silent per-block broadcast goes unnoticed
    by NumPy itself)"""
    import dask
    n = 1200 if chk.tier == "thorough" else 150
    for it in range(n):
        nb = rng.choice([2, 3, 4])
        bs = rng.choice([2, 3, 4])
        xn = np.arange(nb * bs, dtype="int64") * 3 - 5
        style = rng.choice(["one-per-block", "k-per-block", "random"])
        mn = np.zeros(nb * bs, dtype=bool)
        if style == "random":
            mn = np.array([rng.random() < 0.5 for _ in range(nb * bs)])
        else:
            k = 1 if style == "one-per-block" else rng.randint(1, bs)
            for b in range(nb):
                for j in rng.sample(range(bs), k):
                    mn[b * bs + j] = True
        sel = xn[mn]
        if sel.size == 0:
            continue
        wkind = rng.choice(["one-chunk-full", "one-chunk-blocklen", "same-nblocks", "len1", "scalar"])
        per_block = [int(mn[b * bs:(b + 1) * bs].sum()) for b in range(nb)]
        if wkind == "one-chunk-full":
            wn, wch = np.arange(sel.size, dtype="int64") * 10, (sel.size,)
        elif wkind == "one-chunk-blocklen":
            L = max(per_block)
            wn, wch = np.arange(L, dtype="int64") * 10 + 10, (L,)
        elif wkind == "same-nblocks":
            wn, wch = np.arange(sel.size, dtype="int64") * 10, (tuple(c for c in per_block),) if all(per_block) else (sel.size,)
        elif wkind == "len1":
            wn, wch = np.array([7], dtype="int64"), (1,)
        else:
            wn, wch = np.int64(7), None
        policy = rng.choice(["auto", "coarse", "refine"])
        order = rng.choice(["y+w", "w-y"])
        try:
            want = sel + wn if order == "y+w" else wn - sel
        except ValueError:
            want = None                   # NumPy itself refuses: the dask expression must raise too
        desc = {"x": xn.tolist(), "x_chunks": bs, "mask": mn.astype(int).tolist(), "w": np.asarray(wn).tolist(), "w_chunks": wch,
                "policy": policy, "expr": order, "true_block_sizes": per_block}
        chk.case(("unknown-vs-known", nb, bs, tuple(mn.tolist()), wkind, policy, order), nontrivial=True, sample=desc if it < 2 else None)
        chk.count(f"unknown-vs-known:{wkind}:{policy}")
        try:
            with dask.config.set({"array.unify-chunks-policy": policy}), warnings.catch_warnings():
                warnings.simplefilter("ignore")
                x = da.from_array(xn, chunks=bs)
                y = x[da.from_array(mn, chunks=bs)]
                w = da.from_array(wn, chunks=wch) if wch is not None else wn
                r = (y + w) if order == "y+w" else (w - y)
                got = r.compute(scheduler="sync")
        except Exception:  # noqa: BLE001
            chk.count("unknown-vs-known:refused")
            chk.traces_validated += 1
            continue
        if want is None or np.shape(got) != np.shape(want) or not np.array_equal(got, want):
            chk.violation(f"{order} with unknown block sizes {per_block} and a known operand ({wkind}) under policy {policy} silently returns "
                          f"{np.asarray(got).tolist()} (shape {np.shape(got)}); NumPy: {'raises' if want is None else np.asarray(want).tolist()}",
                          desc, signature={"class": "unknown-chunks", "problem": "unknown vs known operand: silently wrong", "operand": wkind, "policy": policy})
        else:
            chk.traces_validated += 1


def run(chk: Check):
    import dask_array as da
    chk.rule = ("data-dependent selections (dask / NumPy boolean masks, nonzero, unique, argwhere, flatnonzero, compress) over generated "
                "arrays: the unknown-size result must compute NumPy's values; compute_chunk_sizes() must set every chunk to the true "
                "size of that block (checked block by block against the executed graph) and later operations must equal NumPy; a "
                "follow-on operation applied while sizes are still unknown must either raise or equal NumPy (never a wrong shape or "
                "value); non-trivial = more than one block with unknown size.  Model correspondence (fam_unknown_model): the real "
                "_validate_rechunk, old_to_new (nan axes), plan_rechunk (early exit), common_blockdim / coarse_blockdim (lists with nan layouts), "
                "the guard of slice_slices_and_integers, ChunksOverride.chunks/_layer, _chunks_match and compute_chunk_sizes (fed with the block "
                "shapes measured by executing every block) are run on exhaustive small + generated inputs and their outcome (value / ValueError / "
                "AssertionError / StopIteration) is compared exactly with the Gallina models of theories/UnknownChunks.v inside Coq; accepted "
                "outcomes are also checked against known_sound w.r.t. the true sizes")
    chk.assumptions = ["an unknown chunk size is always THE np.nan singleton (as the library writes it): tuple equality / set membership of layouts "
                       "with nan is identity based, so two layouts with nans in the same places are one set member; the model uses None structurally",
                       "chunk sizes are below 2**53 (np.array_equal in _validate_rechunk compares them as float64)",
                       "common_blockdim / coarse_blockdim are called with lists (deterministic iteration order); real callers pass sets, the theorems "
                       "hold for every order; the min(..., key=len) tie-break of coarse_blockdim is an oracle argument of the model",
                       "old_to_new is modelled on the domain _validate_rechunk establishes (equal rank; a fully known old axis faces a fully known new axis)",
                       "compute_chunk_sizes is modelled for arrays with at least one block on every axis (a zero-block axis makes chunk_shapes[0] raise IndexError)"]
    chk.run_proofs()
    corpus_f32(chk, da)
    rng = chk.rng
    fam_unknown_vs_known(chk, da, rng)
    fam_stacked_on_known_axis(chk, da)
    n = 5000 if chk.tier == "thorough" else 300
    for it in range(n):
        rank = rng.choice([1, 1, 2, 2, 3])
        shape = tuple(rng.choice([1, 2, 3, 4, 6, 9]) for _ in range(rank))
        v = (np.arange(int(np.prod(shape)), dtype="int64").reshape(shape) * 5) % 13 - 4
        chunks = tuple(progs.rand_chunks_for(rng, s) for s in shape)
        x = da.from_array(v, chunks=chunks)
        try:
            with warnings.catch_warnings():
                warnings.simplefilter("ignore")
                how, y, w = unknown_producers(rng, da, x, v)
        except Exception as e:  # noqa: BLE001
            chk.count("skipped:producer-raises")
            continue
        desc = {"shape": shape, "chunks": chunks, "selection": how}
        unknown = sum(1 for dim in y.chunks for c in dim if isinstance(c, float) and math.isnan(c))
        chk.case(("sel", shape, chunks, how), nontrivial=unknown > 1, sample=desc if it < 4 else None)
        chk.count("selection:" + how.split("(")[0].split("[")[0])
        problems = []
        try:
            with warnings.catch_warnings():
                warnings.simplefilter("ignore")
                got = y.compute(scheduler="sync")
            ok, why = progs.values_equal(got, w)
            if not ok:
                problems.append(f"unknown-size selection differs from NumPy ({why})")
        except Exception as e:  # noqa: BLE001
            problems.append(f"selection raises {type(e).__name__}: {str(e)[:60]}")
        # follow-on while unknown: raise or be right
        if unknown and not problems:
            op, f_da, f_np = follow(rng, da, y, w)
            chk.count("follow-unknown:" + op)
            try:
                want = f_np()
            except Exception:  # noqa: BLE001
                want = None
            if want is not None:
                try:
                    with warnings.catch_warnings():
                        warnings.simplefilter("ignore")
                        r = f_da()
                        r = r.compute(scheduler="sync") if hasattr(r, "compute") else r
                    ok, why = progs.values_equal(r, want)
                    if not ok:
                        problems.append(f"`{op}` on an array with unknown chunk sizes returned a wrong result instead of raising ({why})")
                    else:
                        chk.traces_validated += 1
                except Exception:  # noqa: BLE001
                    chk.count("follow-unknown:refused")
        # compute_chunk_sizes
        if not problems:
            try:
                with warnings.catch_warnings():
                    warnings.simplefilter("ignore")
                    y2 = y.compute_chunk_sizes() if True else y
                    y2 = y if y2 is None else y2
                    import dask.local
                    from c03 import check_blocks
                    if any(isinstance(c, float) for dim in y2.chunks for c in dim):
                        problems.append("compute_chunk_sizes left unknown sizes")
                    else:
                        bp, nb = check_blocks(y2)
                        problems += ["after compute_chunk_sizes: " + p for p in bp[:2]]
                        op, f_da, f_np = follow(rng, da, y2, w)
                        chk.count("follow-known:" + op)
                        try:
                            want = f_np()
                        except Exception:  # noqa: BLE001
                            want = None
                        if want is not None:
                            try:
                                r = f_da()
                                r = r.compute(scheduler="sync") if hasattr(r, "compute") else r
                            except Exception as e:  # noqa: BLE001
                                r = None
                                problems.append(f"`{op}` after compute_chunk_sizes raises {type(e).__name__}: {str(e)[:60]}")
                            if r is not None:
                                ok, why = progs.values_equal(r, want)
                                if not ok:
                                    problems.append(f"`{op}` after compute_chunk_sizes differs from NumPy ({why})")
                                else:
                                    chk.traces_validated += 1
            except Exception as e:  # noqa: BLE001
                problems.append(f"after compute_chunk_sizes: raises {type(e).__name__}: {str(e)[:80]}")
        if problems:
            chk.violation("; ".join(problems[:3]), desc, signature={"class": "unknown-chunks", "selection": how.split("(")[0].split("[")[0],
                                                                   "problem": re.sub(r"[0-9(),\[\]'-]+", "#", problems[0])[:40]})

    fam_unknown_model(chk)


def replay(path):
    print(open(path).read())
