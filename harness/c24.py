"""C24 — source reads return exactly the requested elements.

impl (dask_array.io._from_array.FromArray: _accept_slice, _accept_rechunk, _layer,
_source_storage_chunks) vs the Gallina model (coq/theories/FromArrayModel.v, evaluated
inside Coq) vs the property itself (NumPy indexing of the underlying data + a coverage
counter over the requests a recording source logs)."""
from __future__ import annotations

import itertools
import json

import numpy as np

from common import Check, cbool, clist, copt, coq_eval_cases, coq_eval_expr, cslice, ctuple, cz, err_kind
from c13 import rand_chunks
from recsrc import RecLock, RecSource, rec_getitem

HEADER = "From DA Require Import PyBase Slicing FromArrayModel.\nOpen Scope Z_scope.\n"

DEFAULT_LIMIT = 64 * 1024 * 1024


# --------------------------------------------------------------------------
# literals
def caxis(a):
    base, dim, region, chunks = a
    return f"(mkaxis {cz(base)} {cz(dim)} {copt(region, cslice)} {clist(chunks)})"


def cfa(axes):
    return clist(axes, caxis)


def cpidx(x):
    if x is None:
        return "INone"
    if isinstance(x, slice):
        return f"(ISlice {cslice(x)})"
    return f"(IInt {cz(x)})"


def cchunks(cs):
    return clist(cs, lambda ax: clist(ax))


def cpair(p):
    return ctuple(cz(p[0]), cz(p[1]))


def idx_json(idx):
    return [["s", e.start, e.stop, e.step] if isinstance(e, slice) else (None if e is None else int(e)) for e in idx]


def idx_unjson(j):
    return tuple(slice(e[1], e[2], e[3]) if isinstance(e, list) else e for e in j)


def idx_repr(idx):
    def one(e):
        if isinstance(e, slice):
            return f"slice({e.start},{e.stop},{e.step})"
        return repr(e)
    return "(" + ", ".join(one(e) for e in idx) + ("," if len(idx) == 1 else "") + ")"


# --------------------------------------------------------------------------
# sources
class Wrap:
    """lazy-indexing adapter that hides the store's .chunks (xarray style)"""

    def __init__(self, inner, private):
        if private:
            self._array = inner
        else:
            self.array = inner
        self.shape, self.dtype, self.ndim = inner.shape, inner.dtype, inner.ndim

    def __getitem__(self, key):
        inner = getattr(self, "array", None)
        if inner is None:
            inner = self._array
        return inner[key]


def build_source(spec):
    """-> (object handed to from_array, RecSource or None, data, lock object, getitem)"""
    shape = tuple(spec["shape"])
    data = np.arange(int(np.prod(shape)), dtype=np.int64).reshape(shape)
    lockv = spec.get("lock", False)
    lock = RecLock() if lockv == "rec" else lockv
    gi = spec.get("getitem")
    getitem = rec_getitem(gi) if gi else None
    if spec["kind"] == "np":
        return data, None, data, lock, getitem
    rec = RecSource(data, storage=spec.get("storage"), shards=spec.get("shards"),
                    lock=lock if lockv == "rec" else None)
    obj = rec
    for k in range(spec.get("wrap", 0)):
        obj = Wrap(obj, private=(k % 2 == 1))
    return obj, rec, data, lock, getitem


def make_array(spec):
    import dask_array as da
    import dask_array.io._from_array as FA
    FA._NUMPY_SLICE_PUSHDOWN_NBYTES_LIMIT = spec.get("limit", DEFAULT_LIMIT)
    obj, rec, data, lock, getitem = build_source(spec)
    chunks = tuple(tuple(c) for c in spec["chunks"])
    x = da.from_array(obj, chunks=chunks, lock=lock, getitem=getitem, inline_array=spec.get("inline", False))
    if rec is not None:
        rec.custom_getitem = getitem
    return x, rec, data, lock


def gen_shape(rng, small=False):
    rank = rng.choice([1, 1, 2, 2, 3])
    if rank == 3 or small:
        pool = [0, 1, 2, 3, 4, 5, 6, 8, 12]
    else:
        pool = [0, 1, 2, 3, 5, 8, 12, 16, 20, 24, 33, 40]
    return tuple(rng.choice(pool) if rng.random() < 0.85 else rng.randint(0, 40 if rank < 3 else 12) for _ in range(rank))


def gen_storage(rng, shape):
    """-> (storage, shards, wrap)"""
    r = rng.random()
    if r < 0.3:
        return None, None, 0
    st = [rng.choice([1, 2, 3, 4, 5, 8, 10, 16, 64]) for _ in shape]
    if r < 0.36:       # malformed grids the code must ignore
        bad = rng.choice(["short", "zero", "neg", "long"])
        if bad == "short":
            st = st[:-1]
        elif bad == "long":
            st = st + [4]
        elif bad == "zero":
            st[rng.randrange(len(st))] = 0
        else:
            st[rng.randrange(len(st))] = -4
    shards = None
    if rng.random() < 0.12:
        shards = [s * rng.choice([1, 2]) for s in st]
    return st, shards, (rng.choice([1, 2, 3]) if rng.random() < 0.15 else 0)


def gen_chunks(rng, shape, storage=None):
    out = []
    for ax, n in enumerate(shape):
        r = rng.random()
        st = storage[ax] if storage and ax < len(storage) and storage[ax] > 0 else None
        if st and r < 0.45 and n > 0:
            k = st * rng.choice([1, 1, 2, 3])
            out.append(tuple([k] * (n // k) + ([n % k] if n % k else [])))
        elif r < 0.6 and n > 0:
            k = rng.choice([1, 2, 3, 4, 5, 7, 10])
            out.append(tuple([k] * (n // k) + ([n % k] if n % k else [])))
        else:
            out.append(rand_chunks(rng, n, allow_zero=(rng.random() < 0.2)))
    return tuple(out)


def gen_index(rng, shape, steps=0.0, raw=False, ints=0.2):
    """index tuple for an array of the given shape; raw = not normalised, may be negative / out of range"""
    k = rng.randint(1, len(shape)) if rng.random() < 0.35 else len(shape)
    idx = []
    for n in shape[:k]:
        r = rng.random()
        if r < ints and n > 0:
            idx.append(rng.randint(-n, n - 1) if raw or rng.random() < 0.3 else rng.randint(0, n - 1))
            continue
        if r < ints + 0.1:
            idx.append(slice(None))
            continue

        def ep():
            if rng.random() < 0.25:
                return None
            return rng.randint(-n - 2, n + 2)
        step = None
        if rng.random() < steps:
            step = rng.choice([2, 3, -1, -2, 5])
        elif rng.random() < 0.15:
            step = 1
        a, b = ep(), ep()
        if step is not None and step < 0 and a is not None and a < -n:
            a = None      # finding F8 (normalize_slice, negative step, start < -n) belongs to C13
        idx.append(slice(a, b, step))
    return tuple(idx)


# --------------------------------------------------------------------------
# impl state extraction
def fa_axes(f, base=None):
    shape = f.array.shape
    region = f.operand("_region")
    chunks = f.chunks
    return [((base[i] if base else 0), int(shape[i]), (region[i] if region is not None else None),
             tuple(int(c) for c in chunks[i])) for i in range(len(shape))]


def data_requests(rec):
    """logged data requests (the zero-size probes of meta_from_array are kept apart by RecSource)"""
    return list(rec.log)


def coverage(data, reqs):
    cnt = np.zeros(data.shape, dtype=np.int64)
    for ent in reqs:
        key = tuple(slice(e[0], e[1]) if e[0] != "int" else slice(e[1], e[1] + 1) for e in ent)
        cnt[key] += 1
    return cnt


def needed_mask(data, pos):
    m = np.zeros(data.shape, dtype=np.int64)
    if all(len(p) for p in pos):
        m[np.ix_(*pos)] = 1
    return m


def req_pairs(ent):
    return [(e[0], e[1]) for e in ent]


# --------------------------------------------------------------------------
# family A/B: direct calls of _accept_slice / _accept_rechunk on FromArray expressions, chained
def fam_direct(chk, tier):
    from dask_array._new_collection import new_collection
    from dask_array.io._from_array import FromArray
    from dask_array.slicing import SliceSlicesIntegers, normalize_index
    from dask_array._rechunk import Rechunk
    import dask_array.io._from_array as FA

    rng = chk.rng
    N = 9000 if tier == "thorough" else 420
    sl_cases, sl_in = [], []
    rq_cases, rq_in = [], []
    rc_cases, rc_in = [], []
    for it in range(N):
        shape = gen_shape(rng, small=(rng.random() < 0.3))
        kind = "np" if rng.random() < 0.3 else "rec"
        storage, shards, wrap = gen_storage(rng, shape) if kind == "rec" else (None, None, 0)
        spec = {"shape": list(shape), "kind": kind, "storage": storage, "shards": shards, "wrap": wrap,
                "lock": rng.choice([False, False, "rec", True]) if kind == "rec" else rng.choice([False, False, True]),
                "getitem": rng.choice([None, None, None, "kw"]) if kind == "rec" else None,
                "inline": rng.random() < 0.3,
                "chunks": [list(c) for c in gen_chunks(rng, shape, storage)],
                "limit": rng.choice([0, 0, 0, 8, 64, 400, 4000, DEFAULT_LIMIT]) if kind == "np" else DEFAULT_LIMIT,
                "ops": []}
        x, rec, data, lock = make_array(spec)
        f = x.expr
        base = [0] * len(shape)
        pos = [np.arange(n) for n in shape]           # oracle: selected positions per axis
        well_formed = True                            # every index so far was what normalize_index produces
        ordered = True                                # every region so far has start <= stop
        itemsize = data.dtype.itemsize
        for depth in range(rng.randint(1, 4)):
            eff = tuple(len(p) for p in pos)
            impl_eff = tuple(int(v) for v in f._effective_shape)
            if well_formed and impl_eff != eff:
                chk.violation("FromArray._effective_shape differs from the shape NumPy indexing gives", dict(spec, impl=impl_eff, numpy=eff),
                              signature={"fn": "_effective_shape", "class": "wrong-shape"})
                break
            eff = impl_eff        # (after a malformed raw index the oracle no longer applies: follow the impl)
            if rng.random() < (0.7 if f.operand("_region") is None or kind == "np" else 0.5):
                # ---------------- _accept_slice
                rawmode = rng.random() < 0.12
                idx = gen_index(rng, eff, steps=0.08, raw=rawmode)
                if not rawmode:
                    try:
                        idx = normalize_index(idx, eff)
                    except IndexError:
                        continue
                else:
                    idx = idx if rng.random() < 0.9 else idx + (None,)
                spec["ops"].append(["accept_slice", idx_json(idx)])
                before = fa_axes(f, base)
                try:
                    r = f._accept_slice(SliceSlicesIntegers(f, idx, True))
                    if r is not None:
                        (r if isinstance(r, FromArray) else r.array).chunks     # normalize_chunks validates lazily
                    err = None
                except Exception as e:  # noqa: BLE001
                    r, err = None, err_kind(e) + ": " + str(e)[:80]
                if err:
                    chk.violation("_accept_slice raised: " + err, dict(spec),
                                  signature={"fn": "_accept_slice", "class": "raises", "error": err.split(":")[0]})
                    break
                if r is None:
                    exp, newf, ext = "None", None, None
                else:
                    if isinstance(r, FromArray):
                        newf, ext = r, None
                    else:
                        newf, ext = r.array, tuple(r.index)
                    nbase = list(base)
                    if kind == "np" and newf.array is not f.array:
                        # eager copy: observe where the new source sits in the original data
                        if newf.array.size:
                            first = np.unravel_index(int(newf.array.flat[0]), data.shape)
                            nbase = [int(v) for v in first]
                        else:
                            nbase = None
                    after = fa_axes(newf, nbase if nbase is not None else [0] * len(shape))
                    exp = f"(Some {ctuple(cfa(after), copt(ext, lambda t: clist(t, cpidx)))})"
                npflag = f"(Some {ctuple(cz(itemsize), cz(spec['limit']))})" if kind == "np" else "None"
                cmpbase = cbool(not (r is not None and kind == "np" and nbase is None))
                sl_cases.append(ctuple(npflag, cfa(before), clist(idx, cpidx), exp, cmpbase))
                sl_in.append((dict(spec, ops=list(spec["ops"])), before, idx, repr(r)))
                pushable = all(e is not None and (not isinstance(e, slice) or e.step in (None, 1)) for e in idx)
                chk.count(f"accept_slice:{kind}:" + ("raw:" if rawmode else "") + ("declined" if r is None else "int" if ext else "slices")
                          + (":nested" if before[0][2] is not None and r is not None else ""))
                chk.case(("as", spec["shape"], spec["chunks"], json.dumps(spec["ops"])), nontrivial=(r is not None),
                         sample={"fn": "_accept_slice", "shape": shape, "chunks": spec["chunks"], "region_before": repr(f.operand("_region")),
                                 "index": idx_repr(idx), "impl_region": repr(newf.operand("_region")) if newf is not None else None,
                                 "impl_chunks": newf.chunks if newf is not None else None})
                if (r is None) != (not pushable):
                    chk.violation("_accept_slice declined a pushable index / accepted an unpushable one", dict(spec),
                                  signature={"fn": "_accept_slice", "class": "decline-mismatch"})
                if r is None:
                    continue
                if rawmode and any((not isinstance(e, slice)) and e < 0 for e in idx):
                    well_formed = False
                nreg = newf.operand("_region")
                if nreg is not None and any(sl.indices(d)[0] > sl.indices(d)[1] for sl, d in zip(nreg, newf.array.shape)):
                    ordered = False       # only un-normalised (raw) indices get here
                    if not rawmode and well_formed:
                        chk.violation("a region with start > stop was built from normalised indices", dict(spec),
                                      signature={"fn": "_accept_slice", "class": "unordered-region"})
                # oracle positions
                full = tuple(idx) + (slice(None),) * (len(eff) - len(idx))
                npos = []
                for p, e in zip(pos, full):
                    if isinstance(e, slice):
                        npos.append(p[e])
                    elif -len(p) <= e < len(p):
                        npos.append(p[[e]])
                    else:
                        npos.append(p[:0])
                        well_formed = False
                pos = npos
                f, base = newf, (nbase if nbase is not None else [0] * len(shape))
                if well_formed and not check_fromarray(chk, spec, f, base, pos, rec, data, lock, rq_cases, rq_in, new_collection):
                    break
            else:
                # ---------------- _accept_rechunk
                if kind == "np":
                    continue
                target = gen_chunks(rng, eff, storage if rng.random() < 0.7 else None)
                if any(len(c) == 0 for c in target):
                    continue
                spec["ops"].append(["accept_rechunk", [list(c) for c in target]])
                before = fa_axes(f, base)
                try:
                    r = f._accept_rechunk(target)
                    if r is not None:
                        (r if isinstance(r, FromArray) else r.array).chunks     # normalize_chunks validates lazily
                    err = None
                except Exception as e:  # noqa: BLE001
                    r, err = None, err_kind(e) + ": " + str(e)[:80]
                if err and not ordered:
                    # latent (C24_storage_read_chunks_unordered_refuted): a region with start > stop, which only a
                    # direct call with an un-normalised slice can create, yields a negative read chunk
                    chk.count("accept_rechunk:latent:unordered-region-negative-chunk")
                    break
                if err:
                    chk.violation("_accept_rechunk raised: " + err, dict(spec),
                                  signature={"fn": "_accept_rechunk", "class": "raises", "error": err.split(":")[0]})
                    break
                if r is None:
                    exp, out, newf = "Decline", ("Decline", None), None
                elif isinstance(r, FromArray):
                    out = ("PushAll", tuple(tuple(int(c) for c in ax) for ax in r.chunks))
                    exp, newf = f"(PushAll {cchunks(out[1])})", r
                elif type(r) is Rechunk and isinstance(r.array, FromArray):
                    out = ("ReadThenRechunk", tuple(tuple(int(c) for c in ax) for ax in r.array.chunks))
                    exp, newf = f"(ReadThenRechunk {cchunks(out[1])})", r.array
                    if tuple(r.chunks) != tuple(target):
                        chk.violation("Rechunk above the storage-aligned read does not restore the target chunks", dict(spec),
                                      signature={"fn": "_accept_rechunk", "class": "outer-rechunk"})
                else:
                    chk.tie_break("correspondence:_accept_rechunk returned an unexpected node", {"spec": spec, "impl": repr(r)})
                    break
                layers = storage_layers(spec)
                rc_cases.append(ctuple(cfa(before), clayers(layers), cchunks(target), exp, cbool(ordered)))
                rc_in.append((dict(spec, ops=list(spec["ops"])), before, target, out))
                grid = FA._source_storage_chunks(f.array)
                grid_ok = grid is not None and len(grid) == len(eff) and all(int(g) > 0 for g in grid)
                chk.count("accept_rechunk:" + ("region:" if before[0][2] is not None else "plain:") + out[0]
                          + (":grid" if grid_ok else ":nogrid"))
                chk.case(("ar", spec["shape"], spec["chunks"], spec["storage"], spec["shards"], json.dumps(spec["ops"])),
                         nontrivial=(grid_ok and out[0] != "Decline"),
                         sample={"fn": "_accept_rechunk", "shape": shape, "storage": spec["storage"], "region": repr(f.operand("_region")),
                                 "chunks_before": f.chunks, "target": target, "impl": out})
                if newf is not None:
                    # property: valid layout of the effective shape; interior boundaries (absolute) on the storage grid
                    rd = out[1]
                    starts = [a[2].indices(a[1])[0] if a[2] is not None else 0 for a in before]
                    prob = None
                    for ax, cs in enumerate(rd):
                        if not cs or any(c < 0 for c in cs) or sum(cs) != eff[ax]:
                            prob = f"axis {ax}: read chunks {cs} are not a layout of length {eff[ax]}"
                            break
                        if grid_ok:
                            for b in list(itertools.accumulate(cs))[:-1]:
                                if (starts[ax] + b) % int(grid[ax]):
                                    prob = (f"axis {ax}: read boundary at absolute position {starts[ax] + b} splits a storage "
                                            f"chunk of size {int(grid[ax])}")
                                    break
                        if prob:
                            break
                    if prob and ordered:
                        chk.violation("_accept_rechunk read layout: " + prob, dict(spec, impl=out),
                                      signature={"fn": "_accept_rechunk", "class": "read-layout"})
                    elif prob:
                        chk.count("accept_rechunk:latent:unordered-region-negative-chunk")
                        break
                    f = newf
                    if well_formed and not check_fromarray(chk, spec, f, base, pos, rec, data, lock, rq_cases, rq_in, new_collection):
                        break
    FA._NUMPY_SLICE_PUSHDOWN_NBYTES_LIMIT = DEFAULT_LIMIT

    # ---- impl vs model, inside Coq
    T_SL = "option (Z * Z) * fa * list pidx * option (fa * option (list pidx)) * bool"
    mism, _ = coq_eval_cases(
        HEADER, T_SL,
        "Definition opslice_eqb (a b : option pslice) := match a, b with Some x, Some y => pslice_eqb x y | None, None => true | _, _ => false end.\n"
        "Definition axis_eqb (cb : bool) (a b : axis) := (negb cb || (a_base a =? a_base b)) && (a_dim a =? a_dim b) && opslice_eqb (a_region a) (a_region b) && zlist_eqb (a_chunks a) (a_chunks b).\n"
        "Definition oext_eqb (a b : option (list pidx)) := match a, b with Some x, Some y => list_eqb pidx_eqb x y | None, None => true | _, _ => false end.\n"
        f"Definition chk (c : {T_SL}) : bool := let '(np, f, idx, out, cb) := c in\n"
        "  let m := match np with Some (isz, lim) => accept_slice_np isz lim f idx | None => accept_slice f idx end in\n"
        "  match m, out with\n"
        "  | Some (f1, e1), Some (f2, e2) => list_eqb (axis_eqb cb) f1 f2 && oext_eqb e1 e2\n"
        "  | None, None => true | _, _ => false end.",
        sl_cases)
    for i in mism[:5]:
        spec, before, idx, impl = sl_in[i]
        model = coq_eval_expr(HEADER, [f"accept_slice {cfa(before)} {clist(idx, cpidx)}"])[0]
        chk.tie_break("correspondence:FromArray._accept_slice", {"spec": spec, "state_before": repr(before), "index": idx_repr(idx),
                                                                "impl": impl, "model(non-numpy path)": model})
    chk.traces_validated += len(sl_cases) - len(mism)

    T_RQ = "fa * list (list (Z * Z))"
    mism, _ = coq_eval_cases(
        HEADER, T_RQ,
        "Definition pair_eqb (a b : Z * Z) := (fst a =? fst b) && (snd a =? snd b).\n"
        f"Definition chk (c : {T_RQ}) : bool := let '(f, obs) := c in\n"
        "  list_eqb (list_eqb pair_eqb) (layer_requests f) obs\n"
        "  && forallb axis_wf_b f\n"
        "  && forallb (fun a => contiguous_from_b (region_start (a_dim a) (a_region a)) (axis_requests a)\n"
        "                         (region_start (a_dim a) (a_region a) + a_eff a)) f\n"
        "  && forallb (fun a => forallb (in_bounds_b (a_dim a)) (axis_requests a)) f.",
        rq_cases)
    for i in mism[:5]:
        spec, axes, obs = rq_in[i]
        model = coq_eval_expr(HEADER, [f"layer_requests {cfa(axes)}"])[0]
        chk.tie_break("correspondence:FromArray._layer requests (or a Coq checker axis_wf_b/contiguous_from_b/in_bounds_b rejected the impl state)",
                      {"spec": spec, "state": repr(axes), "impl_requests": obs, "model": model})
    chk.traces_validated += len(rq_cases) - len(mism)

    check_rechunk_cases(chk, rc_cases, rc_in)


T_RC = "fa * list (option (list Z) * option (list Z)) * list (list Z) * rechunk_out * bool"
RC_CHECK = (
    "Fixpoint all_read_ok (f : fa) (st : list Z) (rd : list (list Z)) : bool :=\n"
    "  match f, st, rd with\n"
    "  | a :: f', s :: st', r :: rd' => read_ok_b a s r && all_read_ok f' st' rd'\n"
    "  | [], [], [] => true | _, _, _ => false end.\n"
    f"Definition chk (c : {T_RC}) : bool := let '(f, layers, target, out, ordered) := c in\n"
    "  let raw := source_storage_chunks layers in\n"
    "  rechunk_out_eqb (accept_rechunk f raw target) out\n"
    "  && (negb ordered || match storage_grid raw (length f), out with\n"
    "      | Some st, PushAll rd => all_read_ok f st rd\n"
    "      | Some st, ReadThenRechunk rd => all_read_ok f st rd\n"
    "      | _, _ => true end).")


def check_rechunk_cases(chk, rc_cases, rc_in):
    mism, _ = coq_eval_cases(HEADER, T_RC, RC_CHECK, rc_cases)
    for i in mism[:5]:
        spec, before, target, out = rc_in[i]
        model = coq_eval_expr(HEADER, [f"accept_rechunk {cfa(before)} (source_storage_chunks {clayers(storage_layers(spec))}) {cchunks(target)}"])[0]
        chk.tie_break("correspondence:FromArray._accept_rechunk (or the Coq checker read_ok_b rejected the impl's read layout)",
                      {"spec": spec, "state_before": repr(before), "target": target, "impl": out, "model": model})
    chk.traces_validated += len(rc_cases) - len(mism)


def storage_layers(spec):
    """the (shards, chunks) attributes along the wrapper chain, outermost first"""
    return [(None, None)] * spec.get("wrap", 0) + [(spec.get("shards"), spec.get("storage"))]


def clayers(layers):
    return clist(layers, lambda p: ctuple(copt(p[0], clist), copt(p[1], clist)))


def check_fromarray(chk, spec, f, base, pos, rec, data, lock, rq_cases, rq_in, new_collection):
    """compute the FromArray expression `f` and check values, requests, bounds, exact coverage"""
    want = data[np.ix_(*pos)] if all(len(p) for p in pos) else np.zeros(tuple(len(p) for p in pos), dtype=data.dtype)
    if rec is not None:
        rec.log.clear()
        rec.bad.clear()
        rec.unlocked = 0
    try:
        got = new_collection(f).compute(scheduler="sync")
    except Exception as e:  # noqa: BLE001
        msg = err_kind(e) + ": " + str(e)[:100]
        chk.violation("computing the FromArray raised: " + msg, dict(spec),
                      signature={"fn": "_layer", "class": "raises", "error": msg.split(":")[0], "getitem": spec.get("getitem")})
        return False
    ok = True
    if got.shape != want.shape or not np.array_equal(got, want):
        chk.violation("FromArray with a pushed region returns different elements than NumPy indexing of the source",
                      dict(spec, got=np.asarray(got).tolist()[:20], want=want.tolist()[:20]),
                      signature={"fn": "_layer", "class": "wrong-values", "kind": spec["kind"]})
        ok = False
    if rec is None:
        return ok
    if rec.bad:
        chk.violation("a read request leaves the source's bounds (or is not a tuple of unit-step slices)",
                      dict(spec, bad=[list(map(list, b)) for b in rec.bad[:3]]),
                      signature={"fn": "_layer", "class": "out-of-bounds"})
        ok = False
    if rec.unlocked:
        chk.violation("source read while the lock passed to from_array was not held", dict(spec),
                      signature={"fn": "_layer", "class": "unlocked-read", "getitem": spec.get("getitem")})
    reqs = data_requests(rec)
    if not rec.bad:
        cnt = coverage(data, reqs)
        need = needed_mask(data, pos)
        if not np.array_equal(cnt, need):
            chk.violation("the read requests do not cover exactly the region's elements once each",
                          dict(spec, over_read=int((cnt > need).sum()), missing=int((cnt < need).sum())),
                          signature={"fn": "_layer", "class": "coverage"})
            ok = False
    obs = sorted(req_pairs(e) for e in reqs)
    axes = fa_axes(f, base)
    if len(repr(obs)) < 6000:
        rq_cases.append(ctuple(cfa(axes), clist(obs, lambda r: clist(r, cpair))))
        rq_in.append((dict(spec, ops=list(spec["ops"])), axes, obs))
    chk.count("layer:" + ("region" if axes[0][2] is not None else "plain") + (":lock" if spec.get("lock") else "")
              + (":getitem" if spec.get("getitem") else "") + (":inline" if spec.get("inline") else ""))
    return ok


# --------------------------------------------------------------------------
# exhaustive small scope (1-D): every region a:b, storage size, target composition / second index
def fam_exhaustive(chk, tier):
    import dask_array as da
    from dask_array.io._from_array import FromArray
    from dask_array.slicing import SliceSlicesIntegers
    from dask_array._rechunk import Rechunk
    from c13 import compositions
    nmax = 9 if tier == "thorough" else 6
    rc_cases, rc_in, sl_cases, sl_in = [], [], [], []

    def canon(r):
        if r is None:
            return "Decline", ("Decline", None)
        if isinstance(r, FromArray):
            cs = tuple(tuple(int(c) for c in ax) for ax in r.chunks)
            return f"(PushAll {cchunks(cs)})", ("PushAll", cs)
        assert type(r) is Rechunk and isinstance(r.array, FromArray)
        cs = tuple(tuple(int(c) for c in ax) for ax in r.array.chunks)
        return f"(ReadThenRechunk {cchunks(cs)})", ("ReadThenRechunk", cs)

    for n in range(1, nmax + 1):
        comps = {m: list(compositions(m)) if m else [(0,)] for m in range(n + 1)}
        for st in range(1, (5 if n < 9 else 4) if tier == "thorough" else 4):
            spec = {"shape": [n], "storage": [st], "shards": None, "wrap": 0}
            src = RecSource(np.arange(n), storage=(st,))
            layouts = [(n,)] + ([tuple([st] * (n // st) + ([n % st] if n % st else []))] if st < n else [])
            for cs0 in layouts:
                f0 = da.from_array(src, chunks=(cs0,)).expr
                # plain case
                for c in comps[n]:
                    exp, out = canon(f0._accept_rechunk((c,)))
                    rc_cases.append(ctuple(cfa(fa_axes(f0)), clayers(storage_layers(spec)), cchunks((c,)), exp, "true"))
                    rc_in.append((dict(spec, chunks=[list(cs0)], region=None), fa_axes(f0), (c,), out))
                    chk.count("exhaustive:accept_rechunk:plain:" + out[0])
                    chk.case(("xr", n, st, cs0, None, c), nontrivial=(out[0] != "Decline"))
                for a in range(n + 1):
                    for b in range(a, n + 1):
                        if (a, b) == (0, n) and cs0 != (n,):
                            continue
                        g = f0._accept_slice(SliceSlicesIntegers(f0, (slice(a, b),), True))
                        axes = fa_axes(g)
                        for c in comps[b - a]:
                            exp, out = canon(g._accept_rechunk((c,)))
                            rc_cases.append(ctuple(cfa(axes), clayers(storage_layers(spec)), cchunks((c,)), exp, "true"))
                            rc_in.append((dict(spec, chunks=[list(cs0)], region=[a, b]), axes, (c,), out))
                            chk.count("exhaustive:accept_rechunk:region:" + out[0])
                            chk.case(("xr", n, st, cs0, (a, b), c), nontrivial=(out[0] != "Decline"))
                        if st > 1 or n > (6 if tier == "thorough" else 5):
                            continue
                        # nested _accept_slice on the region a:b: every unit slice c:d and integer of the sub-axis
                        m = b - a
                        idxs = [slice(c, d) for c in range(m + 1) for d in range(c, m + 1)] + list(range(m)) \
                            + [slice(None), slice(None, None, 1), slice(1, None, 2), slice(None, None, -1)]
                        for e in idxs:
                            try:
                                r = g._accept_slice(SliceSlicesIntegers(g, (e,), True))
                                if r is None:
                                    exp = "None"
                                else:
                                    newf, ext = (r, None) if isinstance(r, FromArray) else (r.array, tuple(r.index))
                                    exp = f"(Some {ctuple(cfa(fa_axes(newf)), copt(ext, lambda t: clist(t, cpidx)))})"
                            except Exception as ex:  # noqa: BLE001
                                chk.violation("_accept_slice (or the chunks of its result) raised: " + err_kind(ex) + ": " + str(ex)[:100],
                                              {"shape": [n], "chunks": [list(cs0)], "region": [a, b], "index": idx_repr((e,))},
                                              signature={"fn": "_accept_slice", "class": "raises", "error": err_kind(ex)})
                                continue
                            sl_cases.append(ctuple(cfa(axes), clist((e,), cpidx), exp))
                            sl_in.append((n, cs0, (a, b), e, repr(r)))
                            chk.count("exhaustive:accept_slice:" + ("declined" if r is None else "nested"))
                            chk.case(("xs", n, cs0, a, b, repr(e)), nontrivial=(r is not None))
    check_rechunk_cases(chk, rc_cases, rc_in)
    T = "fa * list pidx * option (fa * option (list pidx))"
    mism, _ = coq_eval_cases(
        HEADER, T,
        "Definition opslice_eqb (a b : option pslice) := match a, b with Some x, Some y => pslice_eqb x y | None, None => true | _, _ => false end.\n"
        "Definition axis_eqb (a b : axis) := (a_base a =? a_base b) && (a_dim a =? a_dim b) && opslice_eqb (a_region a) (a_region b) && zlist_eqb (a_chunks a) (a_chunks b).\n"
        "Definition oext_eqb (a b : option (list pidx)) := match a, b with Some x, Some y => list_eqb pidx_eqb x y | None, None => true | _, _ => false end.\n"
        f"Definition chk (c : {T}) : bool := let '(f, idx, out) := c in\n"
        "  match accept_slice f idx, out with\n"
        "  | Some (f1, e1), Some (f2, e2) => list_eqb axis_eqb f1 f2 && oext_eqb e1 e2 && forallb axis_wf_b f1\n"
        "  | None, None => true | _, _ => false end.",
        sl_cases)
    for i in mism[:5]:
        chk.tie_break("correspondence:FromArray._accept_slice (exhaustive 1-D)", {"case": repr(sl_in[i])})
    chk.traces_validated += len(sl_cases) - len(mism)


# --------------------------------------------------------------------------
# family C: the public API end to end
def apply_ops(x, ref, ops):
    for op, arg in ops:
        if op == "getitem":
            idx = idx_unjson(arg)
            x, ref = x[idx], ref[idx]
        else:
            x = x.rechunk(tuple(tuple(c) for c in arg))
    return x, ref


def run_program(spec):
    """-> dict(result, ref, rec, opt_fromarrays, absorbed, error)"""
    from dask_array.io._from_array import FromArray
    from dask_array.slicing import SliceSlicesIntegers
    x, rec, data, lock = make_array(spec)
    out = {"rec": rec, "data": data}
    y, ref = apply_ops(x, data, spec["ops"])
    out["ref"] = ref
    opt = y.expr.optimize()
    fas = [n for n in opt.walk() if isinstance(n, FromArray)]
    out["fas"] = fas
    top = opt
    if isinstance(top, SliceSlicesIntegers) and all(e == 0 or e == slice(None) for e in top.index):
        top = top.array
    out["absorbed"] = isinstance(top, FromArray)
    out["opt"] = opt
    if rec is not None:
        rec.log.clear()
        rec.bad.clear()
        rec.unlocked = 0
    out["result"] = y.compute(scheduler="sync")
    return out


def gen_program(rng):
    shape = gen_shape(rng)
    kind = "np" if rng.random() < 0.25 else "rec"
    storage, shards, wrap = gen_storage(rng, shape) if kind == "rec" else (None, None, 0)
    spec = {"shape": list(shape), "kind": kind, "storage": storage, "shards": shards, "wrap": wrap,
            "lock": rng.choice([False, False, "rec", True]),
            "getitem": rng.choice([None, None, None, "kw", "two"]) if kind == "rec" else None,
            "inline": rng.random() < 0.3,
            "chunks": [list(c) for c in gen_chunks(rng, shape, storage)],
            "limit": rng.choice([0, 8, 64, 400, DEFAULT_LIMIT]) if kind == "np" else DEFAULT_LIMIT,
            "ops": []}
    cur = np.empty(shape, dtype=np.int8)
    for _ in range(rng.randint(1, 4)):
        if cur.ndim == 0:
            break
        if rng.random() < 0.3:
            tgt = gen_chunks(rng, cur.shape, storage if (storage and len(storage) == cur.ndim and rng.random() < 0.6) else None)
            spec["ops"].append(["rechunk", [list(c) for c in tgt]])
        else:
            idx = gen_index(rng, cur.shape, steps=0.12)
            spec["ops"].append(["getitem", idx_json(idx)])
            cur = cur[idx]
    return spec


CORPUS = [
    # custom two-argument getitem: works on the plain path, raises once a region is pushed (finding)
    {"shape": [20], "kind": "rec", "storage": None, "shards": None, "wrap": 0, "lock": False, "getitem": "two", "inline": False,
     "chunks": [[5, 5, 5, 5]], "limit": DEFAULT_LIMIT, "ops": [["getitem", [["s", 2, 7, None]]]]},
]


def fam_public(chk, tier):
    import dask_array.io._from_array as FA
    rng = chk.rng
    N = 12000 if tier == "thorough" else 500
    progs = list(CORPUS) + [gen_program(rng) for _ in range(N)]
    rq_cases, rq_in = [], []
    for spec in progs:
        has_region_ops = any(op == "getitem" for op, _ in spec["ops"])
        try:
            r = run_program(spec)
            err = None
        except Exception as e:  # noqa: BLE001
            r, err = None, err_kind(e) + ": " + str(e)[:100]
        chk.count(f"public:{spec['kind']}:" + ("err" if err else "absorbed" if r["absorbed"] else "partial"))
        chk.case(("pub", json.dumps(spec, sort_keys=True)), nontrivial=(err is None and has_region_ops),
                 sample={"fn": "from_array", **spec, "absorbed": (r or {}).get("absorbed")})
        if err:
            chk.violation("from_array program raised: " + err, dict(spec),
                          signature={"fn": "from_array", "class": "raises", "error": err.split(":")[0],
                                     "getitem": spec.get("getitem")})
            continue
        got, ref, rec, data = r["result"], r["ref"], r["rec"], r["data"]
        if np.shape(got) != ref.shape or not np.array_equal(got, ref):
            chk.violation("from_array program returns different elements than NumPy indexing of the source",
                          dict(spec, got=np.asarray(got).tolist()[:20] if np.ndim(got) else int(got), want=ref.tolist()[:20] if ref.ndim else int(ref)),
                          signature={"fn": "from_array", "class": "wrong-values", "kind": spec["kind"]})
        if rec is None:
            continue
        if rec.bad:
            chk.violation("a read request leaves the source's bounds (or is not a tuple of unit-step slices)",
                          dict(spec, bad=[list(map(list, b)) for b in rec.bad[:3]]),
                          signature={"fn": "from_array", "class": "out-of-bounds"})
            continue
        if rec.unlocked and spec.get("getitem") != "two":
            chk.violation("source read while the lock passed to from_array was not held", dict(spec),
                          signature={"fn": "from_array", "class": "unlocked-read", "getitem": spec.get("getitem")})
        reqs = data_requests(rec)
        gi = getattr(rec, "custom_getitem", None)
        if gi is not None and len(reqs) > gi.calls:
            chk.violation(f"the source was read {len(reqs)} time(s) but the getitem= reader passed to from_array was called {gi.calls} time(s): "
                          "some reads bypass the custom reader", dict(spec), signature={"fn": "from_array", "class": "custom-getitem-bypassed",
                                                                                        "has_rechunk": any(op == "rechunk" for op, _ in spec["ops"])})
        cnt = coverage(data, reqs)
        # which source elements does the result need?  data is arange: the values are the flat positions
        need = np.zeros(data.size, dtype=np.int64)
        need[np.asarray(ref, dtype=np.int64).ravel()] = 1
        need = need.reshape(data.shape)
        if (cnt > 1).any():
            chk.violation("a source element is read by more than one block", dict(spec), signature={"fn": "from_array", "class": "double-read"})
        if (cnt < need).any():
            chk.violation("a needed source element is never requested", dict(spec), signature={"fn": "from_array", "class": "missing-read"})
        unit = all(op != "getitem" or all(not (isinstance(e, list) and e[3] not in (None, 1)) for e in arg) for op, arg in spec["ops"])
        if r["absorbed"] and unit and not np.array_equal(cnt, need):
            chk.violation("the whole chain was absorbed into the read, yet elements outside the selection are requested",
                          dict(spec, over_read=int((cnt > need).sum())), signature={"fn": "from_array", "class": "over-read"})
        if len(r["fas"]) == 1:
            f = r["fas"][0]
            axes = fa_axes(f)
            obs = sorted(req_pairs(e) for e in reqs)
            # culled blocks are not read: compare only when every block of the FromArray is used
            nblocks = int(np.prod([len(a[3]) for a in axes]))
            if len(obs) == nblocks and len(repr(obs)) < 6000:
                rq_cases.append(ctuple(cfa(axes), clist(obs, lambda q: clist(q, cpair))))
                rq_in.append((spec, axes, obs))
    FA._NUMPY_SLICE_PUSHDOWN_NBYTES_LIMIT = DEFAULT_LIMIT
    T_RQ = "fa * list (list (Z * Z))"
    mism, _ = coq_eval_cases(
        HEADER, T_RQ,
        "Definition pair_eqb (a b : Z * Z) := (fst a =? fst b) && (snd a =? snd b).\n"
        f"Definition chk (c : {T_RQ}) : bool := let '(f, obs) := c in list_eqb (list_eqb pair_eqb) (layer_requests f) obs.",
        rq_cases)
    for i in mism[:5]:
        spec, axes, obs = rq_in[i]
        model = coq_eval_expr(HEADER, [f"layer_requests {cfa(axes)}"])[0]
        chk.tie_break("correspondence:requests logged by the source vs model layer_requests of the optimized FromArray",
                      {"spec": spec, "state": repr(axes), "impl_requests": obs, "model": model})
    chk.traces_validated += len(rq_cases) - len(mism)


# --------------------------------------------------------------------------
# family D: _source_storage_chunks on wrapper chains
class _Obj:
    pass


def fam_storage_walk(chk, tier):
    import dask_array.io._from_array as FA
    rng = chk.rng
    cases, inputs = [], []

    def attr():
        r = rng.random()
        if r < 0.55:
            return None
        if r < 0.65:
            return ()
        return tuple(rng.choice([1, 2, 4, 8]) for _ in range(rng.choice([1, 2])))
    for _ in range(3000 if tier == "thorough" else 300):
        depth = rng.choice([1, 1, 2, 3, 5, 15, 16, 17, 18])
        layers = [(attr(), attr()) for _ in range(depth)]
        if depth >= 15:     # long chains: keep the outer layers silent so the fuel matters
            layers = [(None, None)] * (depth - 1) + [layers[-1]]
        inner = None
        for k, (sh, ch) in reversed(list(enumerate(layers))):
            o = _Obj()
            if sh is not None or rng.random() < 0.2:
                o.shards = sh
            if ch is not None or rng.random() < 0.2:
                o.chunks = ch
            if inner is not None:
                if k % 2:
                    o._array = inner
                else:
                    o.array = inner
            inner = o
        out = FA._source_storage_chunks(inner)
        out = None if out is None else tuple(int(c) for c in out)
        chk.count("storage_walk:" + ("none" if out is None else "found"))
        chk.case(("sw", layers), nontrivial=(out is not None), sample={"fn": "_source_storage_chunks", "layers": layers, "impl": out})
        cases.append(ctuple(clayers(layers), copt(out, clist)))
        inputs.append((layers, out))
    mism, _ = coq_eval_cases(
        HEADER, "list (option (list Z) * option (list Z)) * option (list Z)",
        "Definition chk (c : list (option (list Z) * option (list Z)) * option (list Z)) : bool := let '(l, o) := c in\n"
        "  match source_storage_chunks l, o with Some a, Some b => zlist_eqb a b | None, None => true | _, _ => false end.",
        cases)
    for i in mism[:5]:
        chk.tie_break("correspondence:_source_storage_chunks", {"layers": inputs[i][0], "impl": inputs[i][1]})
    chk.traces_validated += len(cases) - len(mism)


# --------------------------------------------------------------------------
def replay(path):
    r = json.load(open(path))
    print(json.dumps(r, indent=1, default=str)[:4000])
    d = r.get("data", {})
    if "shape" in d and "ops" in d and all(op in ("getitem", "rechunk") for op, _ in d["ops"]):
        try:
            out = run_program(d)
            print("impl now:", np.asarray(out["result"]).tolist(), "numpy:", out["ref"].tolist())
            if out["rec"] is not None:
                print("requests:", data_requests(out["rec"]), "bad:", out["rec"].bad)
        except Exception as e:  # noqa: BLE001
            print("impl now raises:", type(e).__name__, e)
    else:
        print("(direct-call chain: re-run the check to reproduce; the ops are in `data`)")


def timed(chk, fam):
    import time
    t = time.time()
    fam(chk, chk.tier)
    chk.extra.setdefault("family_wall_s", {})[fam.__name__] = round(time.time() - t, 1)


def run(chk: Check):
    chk.rule = ("generated sources (rank 1-3, dims <= 40, recording non-NumPy source with optional storage grid / shards / "
                "lazy wrappers / lock / custom getitem / inline_array; NumPy sources with the eager-copy limit patched in the "
                "harness process) x chunkings x chains (depth <= 4) of slices, integers, non-unit steps and rechunks.  Direct "
                "family: FromArray._accept_slice / _accept_rechunk called on the expression and compared exactly with the "
                "Gallina model inside Coq, each resulting FromArray computed (scheduler=sync) and its logged requests compared "
                "with the model's layer_requests and run through the Coq checkers axis_wf_b / contiguous_from_b / in_bounds_b; "
                "public family: da.from_array(...)[...].rechunk(...) programs computed and compared with NumPy, request "
                "coverage counted per source element; non-trivial = the push was accepted / a storage grid was consulted")
    chk.assumptions = ["the recording source answers __getitem__ like NumPy basic indexing (RecSource delegates to ndarray)",
                       "zero-size requests x[0:0,...] issued by meta_from_array are metadata probes, not data reads",
                       "NaN chunk sizes and non-integer storage grids are outside the integer model of _accept_rechunk",
                       "scheduler='sync' executes each block task exactly once"]
    chk.trusted_base = ["harness/recsrc.py recording source; patching dask_array.io._from_array._NUMPY_SLICE_PUSHDOWN_NBYTES_LIMIT "
                        "in the harness process to reach the region path for NumPy sources"]
    chk.run_proofs()
    for fam in (fam_storage_walk, fam_exhaustive, fam_direct, fam_public):
        timed(chk, fam)
