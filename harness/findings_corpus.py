"""Reproducers of listed known findings that the generated streams of the quick tier do not reach on every run: each is run once
per check of its property, after the check's own families.  A reproducer that still shows the defect reports a violation with the
signature the finding is listed under (so the run prints its KNOWN-FINDING line); one that no longer does is counted
(`known-finding-not-reproduced:<id>`), never reported: a finding that disappears is good news, and its entry should then be
turned into a `fixed` one by hand."""
from __future__ import annotations

import warnings

import numpy as np


def _raises(f, exc_substr):
    try:
        f()
    except Exception as e:  # noqa: BLE001
        return exc_substr in (type(e).__name__ + ": " + str(e)), type(e).__name__ + ": " + str(e)[:100]
    return False, "no error"


def _f24(da):
    return _raises(lambda: da.broadcast_to(da.flip(da.diff(da.from_array(np.arange(6), chunks=(2, 4))), 0), (3, 5)).compute(scheduler="sync"),
                   "operands could not be br")


def _f27(da):
    def f():
        y = da.ones(8, chunks=(2, 4, 2), dtype=int)[:3][::3]
        return da.maximum(da.concatenate([y, da.from_array(np.array([-4]), chunks=1)]), y).compute(scheduler="sync")
    return _raises(f, "Chunks do not add up to")


def _f29(da):
    def f():
        y = da.argwhere(da.from_array(np.array([-4, 1]), chunks=1) > -4)
        y.compute_chunk_sizes()
        return y.max().compute(scheduler="sync")
    return _raises(f, "ValueError")


def _f30(da):
    return _raises(lambda: da.from_array(np.arange(4).reshape(2, 2), chunks=((2, 0), (2,))).reshape(-1).compute(scheduler="sync"), "ValueError")


def _c05c(da):
    def f():
        s = np.arange(24).reshape(8, 3)
        y = da.diff(da.from_array(s, chunks=((6, 2), (1, 1, 1))), axis=1).mean(axis=0, keepdims=True, split_every=2)
        return (y.optimize() + 1)[::2, ::2].sum().compute(scheduler="sync")
    return _raises(f, "KeyError")


def _c07b(da):
    x = da.from_array(np.arange(16).reshape(4, 4), chunks=1)
    t = (2, 2)
    differ = x.rechunk((t, t)).name != x.rechunk(((2, 2), tuple([2, 2]))).name
    return differ, "names of two rechunks with equal operands differ" if differ else "names agree"


def _f26b(da):
    x = da.from_array(np.array([-2, 5, 12, -4, 3]), chunks=5)
    y = da.pad(x, 3, mode="edge").rechunk(((7, 4),))
    o = y.expr.optimize()
    differ = o.optimize()._name != o._name
    return differ, "optimize(optimize(e)) renames the root" if differ else "idempotent"


def _f16b(da):
    x = da.from_array(np.arange(25).reshape(5, 5), chunks=((1, 1, 3), (1,) * 5))
    return _raises(lambda: da.take(da.broadcast_to(x, (1, 5, 5)), [-4, -1, -4, 3, 1], axis=1).compute(scheduler="sync"), "Missing dependency")


def _f25b(da):
    y = da.from_array(np.zeros((5, 4, 0)), chunks=((3, 2), (4,), (0,))).max(axis=1).rechunk(((1, 1, 3), (0,)))
    got = y.compute(scheduler="sync").shape
    return got != tuple(y.shape), f"computed shape {got}, advertised {tuple(y.shape)}"


# (property, id, reproducer, signature — must contain the finding's `match`, text)
TABLE = [
    ("C01", "F24", _f24, {"class": "raises", "error": "ValueError: operands could not be br"}, "broadcast_to(flip(diff(x))) raises"),
    ("C01", "F27", _f27, {"class": "raises", "error": "ValueError: #Chunks do not add up to"}, "elementwise broadcasting over a (1, 0) layout raises"),
    ("C01", "F16b", _f16b, {"class": "raises", "root_op": "take", "has_broadcast_to": True, "error": "ValueError: Missing dependency #geti"},
     "take of a broadcast_to raises 'Missing dependency'"),
    ("C03", "F25b", _f25b, {"class": "block-shape", "zero_length_axis": True, "reduce_below_root": True},
     "max over an array with a zero-length other axis yields blocks of extent 1"),
    ("C28", "F29", _f29, {"class": "unknown-chunks", "problem": "`max` after compute_chunk_sizes raises V"}, "max over a zero-size block after compute_chunk_sizes raises"),
    ("C28", "F30", _f30, {"class": "unknown-chunks", "problem": "`reshape` after compute_chunk_sizes rais"}, "reshape of an array with a zero-size block raises"),
    ("C05", "C05-C", _c05c, {"class": "follow-on-raises", "entry": "x.optimize"}, "an operation applied to x.optimize() raises KeyError at lowering"),
    ("C06", "C07-B", _c07b, {"class": "dedup-miss", "cls": "Rechunk"}, "Rechunk names depend on object identity of equal chunk tuples"),
    ("C08", "F26b", _f26b, {"class": "not-idempotent", "what": "optimize(optimize(e)", "api_shared_operand": True}, "optimize is not idempotent over da.pad + rechunk"),
]


def replay(chk):
    import dask_array as da
    for pid, fid, fn, sig, text in TABLE:
        if pid != chk.pid:
            continue
        with warnings.catch_warnings():
            warnings.simplefilter("ignore")
            try:
                still, detail = fn(da)
            except Exception as e:  # noqa: BLE001
                still, detail = False, f"reproducer itself failed: {type(e).__name__}"
        chk.count(("known-finding-reproduced:" if still else "known-finding-not-reproduced:") + fid)
        if still:
            chk.violation(f"[findings corpus {fid}] {text}: {detail}", {"finding": fid, "detail": detail}, signature=dict(sig))
