"""C04 — graphs are closed, acyclic and produce exactly the advertised keys."""
from __future__ import annotations

import itertools
import warnings

import dask

import progs
from common import Check
from c03 import flat_keys, err_sig

try:
    import graphs as G          # Coq-checked graph validation (harness/graphs.py)
except Exception:  # noqa: BLE001
    G = None


def deps_of(node):
    d = getattr(node, "dependencies", None)
    return set(d) if d is not None else set()


def analyse(dsk, out_keys):
    problems = []
    defined = set(dsk)
    missing_out = [k for k in out_keys if k not in defined]
    if missing_out:
        problems.append(f"{len(missing_out)} advertised key(s) not defined by the graph, e.g. {missing_out[0]!r}")
    dangling = []
    indeg = {}
    users = {}
    for k, node in dsk.items():
        ds = deps_of(node)
        indeg[k] = 0
        for d in ds:
            if d not in defined:
                dangling.append((k, d))
            else:
                indeg[k] += 1
                users.setdefault(d, []).append(k)
    if dangling:
        problems.append(f"{len(dangling)} dependency edge(s) to undefined keys, e.g. {dangling[0][0]!r} -> {dangling[0][1]!r}")
    ready = [k for k, n in indeg.items() if n == 0]
    order = []
    while ready:
        k = ready.pop()
        order.append(k)
        for u in users.get(k, ()):
            indeg[u] -= 1
            if indeg[u] == 0:
                ready.append(u)
    if len(order) != len(dsk):
        problems.append(f"dependency cycle among {len(dsk) - len(order)} task(s)")
    return problems, order


def run_program(chk, da, prog, sources, optimize, coq_cases):
    for o in progs.ops_in(prog):
        chk.count("op:" + o)
    run_collection(chk, lambda: progs.build(prog, da, sources, memo={}), progs.describe(prog, sources),
                   ("prog", progs.show(prog), repr([(s[0].shape, s[1]) for s in sources]), optimize), prog[0],
                   any(q[0] == "broadcast_to" for q in progs.all_nodes(prog)), optimize, coq_cases, {})


def run_collection(chk, mk, desc, case_key, root_op, has_bt, optimize, coq_cases, cfg):
    """the property for ONE collection built by mk() under array.optimize-graph = `optimize` (+ extra configuration `cfg`)"""
    from dask_array import _materialize
    _materialize._LOWER_CACHE.clear()
    try:
        with dask.config.set({"array.optimize-graph": optimize, **cfg}), warnings.catch_warnings():
            warnings.simplefilter("ignore")
            arr = mk()
            name0 = arr.name
            keys = list(flat_keys(arr.__dask_keys__()))
            numblocks = tuple(arr.numblocks)
            dsk = dict(arr.__dask_graph__())
            name1 = arr.name
            name_expr = arr.expr._name
    except Exception as e:  # noqa: BLE001
        chk.count("skipped:raises:" + err_sig(e)[:24])
        chk.case(case_key[:2] + (optimize,), nontrivial=False)
        return
    chk.case(case_key, nontrivial=len(dsk) > 2,
             sample={**desc, "optimize_graph": optimize, "tasks": len(dsk), "out_keys": len(keys)} if len(dsk) <= 12 else None)
    problems = []
    grid = [(name0, *idx) for idx in itertools.product(*[range(n) for n in numblocks])]
    if keys != grid:
        problems.append("__dask_keys__ is not the (name, *block index) grid over numblocks")
    if name1 != name0 or name_expr != name0:
        problems.append(f"collection name changed: {name0} -> {name1} / expr {name_expr}")
    p2, order = analyse(dsk, keys)
    problems += p2
    chk.count(f"graph:{'opt' if optimize else 'raw'}:{min(len(dsk) // 10 * 10, 100)}+tasks")
    if problems:
        chk.violation("; ".join(problems[:3]), {**desc, "optimize_graph": optimize, "config": cfg, "tasks": len(dsk)},
                      signature={"class": "graph", "problem": problems[0][:30].strip("0123456789 "), "root_op": root_op,
                                 "has_broadcast_to": has_bt})
    else:
        chk.traces_validated += 1
        if G is not None and len(dsk) <= 1500:
            g, ids, dangling = G.reify(dsk, keys)
            coq_cases.append(((g, G.topo_order(g), tuple(numblocks), G.block_indices(arr.__dask_keys__()), G.out_ids(ids, keys)), desc))


def multi_stage_rechunk_graphs(chk, da, coq_cases):
    """rechunks whose plan has three or more stages (splits in several intermediate stages) and that really lower to a task
    rechunk: per-stage task names must not collide when the stage layers are merged"""
    from dask_array._rechunk import plan_rechunk
    cases = []
    for limit, n_in, n_out in ((4, 1, 30), (4, 30, 1), (3, 2, 40), (2, 1, 9), (2, 16, 3), (4, 3, 50)):
        cases.append((f"1-d {n_in}->{n_out} blocks, degree-limit={limit}", limit,
                      lambda n_in=n_in, n_out=n_out: (da.ones(n_in * n_out * 2, chunks=n_out * 2, dtype="int64") + 1).rechunk(n_in * 2)))
    for limit in (2, 4):
        cases.append((f"2-d rows->columns 12x12, degree-limit={limit}", limit,
                      lambda: (da.ones((12, 12), chunks=(1, 12), dtype="int64") + 1).rechunk((12, 1))))
    if chk.tier == "thorough":
        cases.append(("1-d 1->10001 blocks, default degree limit", None, lambda: (da.ones(10001, chunks=10001, dtype="int64") + 1).rechunk(1)))
    for label, limit, mk in cases:
        cfg = {} if limit is None else {"array.rechunk.degree-limit": limit}
        try:
            with dask.config.set(cfg):
                e = mk().expr
                st = plan_rechunk(e.array.chunks, e.chunks, e.dtype.itemsize, e.threshold, e.block_size_limit)
            chk.count("multi-stage-rechunk:stages=" + str(min(len(st), 5)))
        except Exception as ex:  # noqa: BLE001
            chk.count("multi-stage-rechunk:plan-unavailable:" + type(ex).__name__)
        for optimize in (True, False):
            run_collection(chk, mk, {"program": label}, ("multi-stage-rechunk", label, optimize), "rechunk", False, optimize, coq_cases, cfg)


def updated_in_place_graphs(chk, da, coq_cases):
    """collections whose keys / graph were read and which are then updated IN PLACE (setitem, mask assignment, ufunc out=,
    compute_chunk_sizes): the keys advertised afterwards must be the grid of the CURRENT name and be defined by the current graph"""
    import random as _random
    import numpy as np
    rng = _random.Random(f"C04-in-place-{chk.seed}")
    for it in range(300 if chk.tier == "thorough" else 40):
        shape = (rng.choice([6, 9]),) if rng.random() < 0.5 else (4, rng.choice([3, 5]))
        data = np.arange(float(np.prod(shape))).reshape(shape) - 3
        chunks = tuple(progs.rand_chunks_for(rng, n) for n in shape)
        peek = rng.choice(["keys", "graph", "compute", "keys+compute"])
        update = rng.choice(["setitem-slice", "setitem-int", "setitem-mask", "ufunc-out", "compute_chunk_sizes"])

        def mk(peek=peek, update=update, data=data, chunks=chunks):
            x = da.from_array(data, chunks=chunks) + 1
            if update == "compute_chunk_sizes":
                x = x[x > 0]
            if "keys" in peek:
                x.__dask_keys__()
            if peek == "graph":
                dict(x.__dask_graph__())
            if "compute" in peek:
                x.compute(scheduler="sync")
            if update == "setitem-slice":
                x[1:3] = 7.0
            elif update == "setitem-int":
                x[0] = 5.0
            elif update == "setitem-mask":
                x[x > 2] = -1.0
            elif update == "ufunc-out":
                da.add(x, 2.0, out=x)
            else:
                x.compute_chunk_sizes()
            return x
        chk.count("in-place:" + update)
        run_collection(chk, mk, {"program": f"read ({peek}), then {update}", "chunks": chunks}, ("in-place", peek, update, shape, repr(chunks), it),
                       "in-place:" + update, False, it % 2 == 0, coq_cases, {})


def replay(path):
    print(open(path).read())


def run(chk: Check):
    import dask_array as da
    chk.rule = ("generated programs x {optimize-graph on, off}: __dask_keys__ must be the (name, *index) grid over numblocks with the "
                "collection's name, __dask_graph__ must define all of them, every dependency must be defined, no cycle (Kahn), the name "
                "must be unchanged by building the graph; each accepted graph is additionally re-checked inside Coq by the verified "
                "checker topo_check_b / keys_ok_b (harness/graphs.py) with the Python topological order as an untrusted certificate; "
                "non-trivial = more than 2 tasks")
    chk.run_proofs()
    coq_cases = []
    import c01
    for tag, prog, sources in c01.CORPUS:
        if tag in ("F20",):
            run_program(chk, da, prog, sources, True, coq_cases)
    n = 8000 if chk.tier == "thorough" else 800
    for i, (prog, sources, want) in enumerate(progs.gen_programs(chk.rng, n)):
        run_program(chk, da, prog, sources, optimize=(i % 2 == 0), coq_cases=coq_cases)
    import random as _random
    api_rng = _random.Random(f"{chk.pid}-api-family-{chk.seed}")      # own stream: the families above keep theirs
    for i, (prog, sources, want) in enumerate(progs.gen_api_programs(api_rng, 4000 if chk.tier == "thorough" else 400)):
        chk.count("api-call:" + next(q[1] for q in progs.all_nodes(prog) if q[0] == "call"))
        run_program(chk, da, prog, sources, optimize=(i % 2 == 0), coq_cases=coq_cases)
    multi_stage_rechunk_graphs(chk, da, coq_cases)
    updated_in_place_graphs(chk, da, coq_cases)
    if G is not None and coq_cases:
        if chk.tier == "quick":
            coq_cases = coq_cases[:200]      # the rest is checked by the Python analysis only (coqc parsing dominates)
        bad = G.coq_check_graphs([c[0] for c in coq_cases])
        chk.extra["graphs_checked_in_coq"] = len(coq_cases)
        for i in bad[:5]:
            chk.tie_break("coq-checker:graph_check_b/keys_okN_b rejected a graph the Python analysis accepted", coq_cases[i][1])
    elif G is None:
        chk.extra["graphs_checked_in_coq"] = 0
