"""C20 — map_blocks block_info/block_id match the layout the call was built against."""
from __future__ import annotations

import itertools
import re
import threading
import warnings

import numpy as np

import progs
from common import Check

LOG = []
POST_OPS = []      # names of the ops post_ops applied to the last case (diagnostics / violation signature only)
LOCK = threading.Lock()


def rec_info(b, block_info=None):
    if block_info is not None and b.size >= 0 and 0 in block_info:
        with LOCK:
            LOG.append(("info", dict(block_info[0]), tuple(b.shape), dict(block_info.get(None, {}))))
    return b + 1


def rec_id(b, block_id=None):
    if block_id is not None:
        with LOCK:
            LOG.append(("id", tuple(block_id), tuple(b.shape)))
    return b * 1


def rec_two(a, b, block_info=None):
    if block_info is not None and 0 in block_info and 1 in block_info:
        with LOCK:
            LOG.append(("info2", dict(block_info[0]), tuple(a.shape), dict(block_info[1]), tuple(b.shape)))
    return a + b


def err_sig(e):
    return re.sub(r"[0-9(),\[\]'-]+", "#", f"{type(e).__name__}: {e}")[:36]


def expected_info(chunks, shape, loc):
    offs = [np.concatenate([[0], np.cumsum(c)]) for c in chunks]
    return {"chunk-location": tuple(loc),
            "array-location": [(int(o[i]), int(o[i + 1])) for o, i in zip(offs, loc)],
            "chunk-shape": tuple(int(c[i]) for c, i in zip(chunks, loc)),
            "shape": tuple(shape), "num-chunks": tuple(len(c) for c in chunks)}


def post_ops(rng, y, v):
    """ops applied ABOVE the map_blocks call (they invite pushdowns through it)"""
    del POST_OPS[:]
    for _ in range(rng.choice([0, 1, 2, 3])):
        op = rng.choice(["slice", "rechunk", "sum", "T", "elem", "swvsum"])
        POST_OPS.append(op)
        try:
            if op == "slice" and v.ndim:
                idx = progs.rand_index(rng, v.shape, allow_none=False)
                y, v = y[idx], v[idx]
            elif op == "rechunk" and v.ndim:
                ch = tuple(progs.rand_chunks_for(rng, n) for n in v.shape)
                y = y.rechunk(ch)
            elif op == "sum" and v.ndim:
                ax = rng.randrange(v.ndim)
                y, v = y.sum(axis=ax), v.sum(axis=ax)
            elif op == "T" and v.ndim > 1:
                y, v = y.T, v.T
            elif op == "elem":
                y, v = y * 2, v * 2
            elif op == "swvsum" and v.ndim and v.shape[0] > 1:
                import dask_array as da
                w = rng.randint(1, v.shape[0])
                y = da.sliding_window_view(y, w, axis=0).sum(axis=-1)
                v = np.lib.stride_tricks.sliding_window_view(v, w, axis=0).sum(axis=-1)
        except Exception:  # noqa: BLE001
            break
    return y, v


def run_case(chk, da, rng, it):
    from dask_array import _materialize
    _materialize._LOWER_CACHE.clear()
    ops_below = progs.CORE_OPS + ["swv", "roll", "repeat"]
    g = progs.Gen(rng, ops=ops_below, sources=[])
    p, v = g.program(rng.choice([0, 1, 2, 3]))
    if v.ndim == 0 or v.dtype.kind not in "iu":
        return
    try:
        with warnings.catch_warnings():
            warnings.simplefilter("ignore")
            pre = progs.build(p, da, g.sources, memo={})
            pre_chunks, pre_shape = pre.chunks, pre.shape
            if any(isinstance(c, float) for dim in pre_chunks for c in dim):
                return
            variant = rng.choice(["info", "id", "two", "info"])
            if variant == "info":
                y = da.map_blocks(rec_info, pre, dtype=pre.dtype)
                want = v + 1
            elif variant == "id":
                y = da.map_blocks(rec_id, pre, dtype=pre.dtype)
                want = v * 1
            else:
                other_np = np.arange(int(np.prod(v.shape))).reshape(v.shape)
                other = da.from_array(other_np, chunks=pre_chunks)
                y = da.map_blocks(rec_two, pre, other, dtype=pre.dtype)
                want = v + other_np
            y, want = post_ops(rng, y, want)
            del LOG[:]
            got = y.compute(scheduler="sync")
            log = list(LOG)
    except Exception as e:  # noqa: BLE001
        chk.count("skipped:raises:" + err_sig(e)[:20])
        return
    desc = {"below": progs.show(p), "variant": variant, "layout_at_call": pre_chunks, "result_shape": tuple(np.shape(got)), "above": list(POST_OPS),
            **{k: v2 for k, v2 in progs.describe(p, g.sources).items() if k == "sources"}}
    chk.case(("mb", progs.show(p), variant, it), nontrivial=len(log) > 1, sample=desc if it < 3 else None)
    chk.count("variant:" + variant)
    problems = []
    ok, why = progs.values_equal(got, want)
    if not ok:
        problems.append(f"result differs from NumPy ({why})")
    grid = set(itertools.product(*[range(len(c)) for c in pre_chunks]))
    for entry in log:
        if entry[0] == "id":
            _, bid, bshape = entry
            if tuple(bid) not in grid:
                problems.append(f"block_id {bid} outside the block grid of the layout at call time")
            elif tuple(int(c[i]) for c, i in zip(pre_chunks, bid)) != bshape:
                problems.append(f"block with block_id {bid} has shape {bshape}, layout at call time says {tuple(int(c[i]) for c, i in zip(pre_chunks, bid))}")
        else:
            info, bshape = entry[1], entry[2]
            loc = tuple(info.get("chunk-location", ()))
            if loc not in grid:
                problems.append(f"chunk-location {loc} outside the block grid of the layout at call time")
                continue
            exp = expected_info(pre_chunks, pre_shape, loc)
            out_info = entry[3] if entry[0] == "info" else {}
            if out_info.get("chunk-shape") is not None and tuple(int(a) for a in out_info["chunk-shape"]) != exp["chunk-shape"]:
                problems.append(f"block_info[None]['chunk-shape'] = {out_info['chunk-shape']} at {loc}, layout at call time gives {exp['chunk-shape']}")
            for k in ("array-location", "shape", "num-chunks"):
                gotk = info.get(k)
                if gotk is None:
                    problems.append(f"block_info[0] lacks {k!r}")
                    continue
                gotk = [tuple(int(a) for a in t) for t in gotk] if k == "array-location" else tuple(int(a) for a in gotk)
                if gotk != (exp[k] if k != "array-location" else [tuple(t) for t in exp[k]]):
                    problems.append(f"block_info[0][{k!r}] = {gotk} at {loc}, layout at call time gives {exp[k]}")
            if bshape != exp["chunk-shape"]:
                problems.append(f"block at {loc} has shape {bshape}, block_info says {exp['chunk-shape']}")
        chk.traces_validated += 1
    if problems:
        chk.violation("; ".join(sorted(set(problems))[:3]), desc, signature={"class": "block-info" if "differs from NumPy" not in problems[0] else "value",
                                                                          "variant": variant,
                                                                          "stacked_swv_reduction": POST_OPS.count("swvsum") + progs.show(p).count("(swv ") >= 2,
                                                                          "zero_length_axis": any(s == 0 for s in pre_shape)})


# ==========================================================================
# model correspondence (coq/theories/BlockInfo.v)
MODEL_HEADER = "From DA Require Import PyBase Rechunk BlockInfo.\nOpen Scope Z_scope.\n"


def _f_info(*blocks, block_info=None):
    return blocks[0]


def _f_id(*blocks, block_id=None):
    return blocks[0]


def _f_both(*blocks, block_info=None, block_id=None):
    return blocks[0]


EXEC_LOG = []


def _f_exec(*blocks, block_info=None):
    """records, per array argument, what block_info says about it and the block really handed over"""
    EXEC_LOG.append((block_info, [np.array(b, copy=True) if isinstance(b, np.ndarray) else None for b in blocks]))
    return np.zeros((), dtype="int64")


def executed_oracle(da, call, pre_op=False):
    """the property, end to end and independent of the model: run every task of the real graph; the block an array argument
    receives must be exactly source[array-location] of the block_info entry describing it (also along dropped axes, which
    arrive concatenated), and block_info[None]['chunk-location'] must enumerate the advertised grid once"""
    import dask.local
    from dask.core import flatten
    args = call[0]
    y, e, info_dep, _ = real_map_blocks(da, call, _f_exec, pre_op=pre_op)
    if info_dep is None or int(np.prod(y.numblocks)) > 48:
        return None
    srcs = []
    for k, a in enumerate(args):
        if a is None:
            srcs.append(None)
        else:
            shape = tuple(sum(c) for c in a)
            srcs.append(np.arange(int(np.prod(shape)), dtype="int64").reshape(shape) + k)
    del EXEC_LOG[:]
    keys = list(flatten(y.__dask_keys__()))
    dask.local.get_sync(dict(y.__dask_graph__()), keys)
    problems, locs = [], []
    for info, blocks in EXEC_LOG:
        if info is None:
            problems.append("function called without block_info")
            continue
        if None in info:
            locs.append(tuple(info[None]["chunk-location"]))
        for i, (src, b) in enumerate(zip(srcs, blocks)):
            if src is None or b is None:
                continue
            d = info.get(i)
            if d is None:
                problems.append(f"block_info lacks an entry for array argument {i}")
                continue
            al = [tuple(int(v) for v in p_) for p_ in d["array-location"]]
            want = src[tuple(slice(lo, hi) for lo, hi in al)] if len(al) == src.ndim else None
            if want is None or want.shape != b.shape or not np.array_equal(want, b):
                problems.append(f"block_info[{i}]['array-location'] = {al} but argument {i} received a block of shape {b.shape}"
                                + ("" if want is None or want.shape != b.shape else " holding other elements"))
            if tuple(d["shape"]) != src.shape:
                problems.append(f"block_info[{i}]['shape'] = {d['shape']}, the argument has shape {src.shape}")
    grid = list(itertools.product(*[range(n) for n in y.numblocks]))
    if sorted(locs) != sorted(grid):
        problems.append("block_info[None]['chunk-location'] over all executed tasks is not the advertised output grid, each block once")
    return problems


def c_chunks(cs):
    from common import clist
    return clist(cs, lambda ax: clist(ax))


def c_ochunks(cs):
    from common import clist, copt
    import math
    return clist(cs, lambda ax: clist(ax, lambda v: copt(None if (isinstance(v, float) and math.isnan(v)) else v)))


def c_binfo(d):
    from common import clist, ctuple, cz
    return ctuple(clist(d["shape"]), clist(d["num-chunks"]),
                  clist(d["array-location"], lambda p: ctuple(cz(p[0]), cz(p[1]))), clist(d["chunk-location"]))


def c_entry(bid, info):
    from common import clist, ctuple, cz
    ins = [(k, v) for k, v in info.items() if k is not None]
    o = info[None]
    return ctuple(clist(bid), clist(ins, lambda kv: ctuple(cz(kv[0]), c_binfo(kv[1]))),
                  ctuple(c_binfo(o), clist(o["chunk-shape"])))


def c_spec(v):
    from common import clist, cz
    return f"(CInt {cz(v)})" if isinstance(v, int) else f"(CTup {clist(v)})"


ERR_CODE = {"ValueError": 1, "IndexError": 2, "KeyError": 3}


def gen_mb_call(rng, malformed=False):
    """a map_blocks call description: (arg chunk tuples or None for a scalar, drop_axis, new_axis, chunks)"""
    from c13 import rand_chunks
    r = rng.choice([1, 1, 2, 2, 2, 3])
    main = tuple(rand_chunks(rng, rng.choice([1, 2, 3, 4, 5, 7]), allow_zero=True) for _ in range(r))
    while 1:
        nblocks = 1
        for c in main:
            nblocks *= len(c)
        if nblocks <= 16:
            break
        main = tuple(c[:2] for c in main)
    args = [main]
    for _ in range(rng.choice([0, 0, 1, 1, 2])):
        kind = rng.choice(["same", "bcast", "lower", "scalar", "regrid"] + (["bad"] if malformed else []))
        if kind == "scalar":
            args.insert(rng.randrange(len(args) + 1), None)
            continue
        if kind == "same":
            args.append(main)
        elif kind == "regrid":      # same block counts, other sizes
            args.append(tuple(tuple(rng.choice([1, 2, 3]) for _ in c) for c in main))
        elif kind == "bcast":       # some axes collapsed to one block
            args.append(tuple((sum(c),) if rng.random() < 0.5 else c for c in main))
        elif kind == "lower":       # fewer dims, aligned with the trailing axes
            k = rng.randrange(0, r + 1)
            args.append(tuple(main[r - k:]))
        else:                       # inconsistent block counts
            args.append(tuple(c + (1,) if rng.random() < 0.6 else c for c in main))
        if rng.random() < 0.3:
            args.reverse()
    nd = max(len(a) for a in args if a is not None)
    drop = []
    if rng.random() < 0.35 and nd:
        drop = sorted(set(rng.sample(range(nd), rng.randint(1, nd))))
        if rng.random() < 0.3:
            drop = [d - nd for d in drop]
        if malformed and rng.random() < 0.3:
            drop.append(rng.choice([nd, -nd - 1]))
        if rng.random() < 0.15:
            drop.append(drop[0])
    n_after = nd - len({d % nd for d in drop if -nd <= d < nd}) if nd else 0
    new_axis = None
    if rng.random() < 0.35:
        k = rng.choice([1, 1, 2])
        new_axis = sorted(rng.sample(range(n_after + k), k))
        if malformed and rng.random() < 0.4:
            new_axis = [a + rng.choice([1, 2, -1, -3]) for a in new_axis]
        if rng.random() < 0.3:
            new_axis = new_axis[::-1]
    chunks = None
    if rng.random() < 0.3:
        n_out = n_after + (len(new_axis) if new_axis else 0) + (rng.choice([0, 0, 1]) if new_axis is None else 0)
        chunks = []
        for _ in range(n_out):
            chunks.append(rng.choice([1, 2, 3]) if rng.random() < 0.6 else tuple(rng.choice([1, 2]) for _ in range(rng.choice([1, 2, 3]))))
        if malformed and rng.random() < 0.3 and chunks:
            chunks = chunks[:-1]
        chunks = tuple(chunks)
    return args, drop, new_axis, chunks


def real_map_blocks(da, call, fn, pre_op=False):
    """run the REAL da.map_blocks and read the payloads out of the expression (pre_op: every array argument is an elementwise
    expression `src * 1`, so that the optimizer fuses it with the map_blocks task)"""
    from dask.layers import ArrayBlockIdDep, ArrayValuesDep
    import toolz
    args, drop, new_axis, chunks = call
    real_args = []
    for k, a in enumerate(args):
        if a is None:
            real_args.append(7)
        else:
            shape = tuple(sum(c) for c in a)
            real_args.append(da.from_array(np.arange(int(np.prod(shape)), dtype="int64").reshape(shape) + k, chunks=a))
            if pre_op:
                real_args[-1] = real_args[-1] * 1
    kw = {}
    if drop:
        kw["drop_axis"] = drop if len(drop) > 1 else drop[0]
    if new_axis is not None:
        kw["new_axis"] = new_axis if len(new_axis) != 1 else new_axis[0]
    if chunks is not None:
        kw["chunks"] = chunks
    y = da.map_blocks(fn, *real_args, dtype="int64", **kw)
    e = y.expr
    info_dep = id_dep = None
    for arr, ind in toolz.partition(2, e.args):
        if isinstance(arr, ArrayValuesDep):
            info_dep = arr
        elif isinstance(arr, ArrayBlockIdDep):
            id_dep = arr
    return y, e, info_dep, id_dep


def oracle_payload(call, y, e, info_dep):
    """the property itself, brute force: locations enumerate the grid once, intervals tile, shapes agree"""
    args, drop, new_axis, chunks = call
    problems = []
    oc = y.chunks
    grid = list(itertools.product(*[range(len(c)) for c in oc]))
    if list(info_dep.values.keys()) != grid:
        problems.append("payload keys are not the output block grid (each block exactly once, in order)")
        return problems
    offs = [np.concatenate([[0], np.cumsum(c)]).astype(int) for c in oc]
    arr_args = [(i, a) for i, a in enumerate(args) if a is not None]
    for bid in grid:
        info = info_dep.values[bid]
        o = info[None]
        if tuple(o["chunk-location"]) != bid:
            problems.append(f"block_info[None]['chunk-location'] {o['chunk-location']} at block {bid}")
        want_al = [(int(f[i]), int(f[i + 1])) for f, i in zip(offs, bid)]
        if [tuple(int(v) for v in p) for p in o["array-location"]] != want_al:
            problems.append(f"block_info[None]['array-location'] {o['array-location']} at {bid}, layout gives {want_al}")
        if tuple(int(v) for v in o["chunk-shape"]) != tuple(int(c[i]) for c, i in zip(oc, bid)):
            problems.append(f"block_info[None]['chunk-shape'] {o['chunk-shape']} at {bid}")
        if tuple(o["shape"]) != tuple(y.shape) or tuple(o["num-chunks"]) != tuple(y.numblocks):
            problems.append("block_info[None] shape / num-chunks differ from the advertised output")
        if drop:
            continue
        for i, a in arr_args:
            d = info[i]
            loc = tuple(d["chunk-location"])
            if len(loc) != len(a) or any(not (0 <= l < len(c)) for l, c in zip(loc, a)):
                problems.append(f"block_info[{i}]['chunk-location'] {loc} outside the argument's grid")
                continue
            aoffs = [np.concatenate([[0], np.cumsum(c)]).astype(int) for c in a]
            if [tuple(int(v) for v in p) for p in d["array-location"]] != [(int(f[l]), int(f[l + 1])) for f, l in zip(aoffs, loc)]:
                problems.append(f"block_info[{i}]['array-location'] {d['array-location']} at {loc}")
            if tuple(d["shape"]) != tuple(sum(c) for c in a) or tuple(d["num-chunks"]) != tuple(len(c) for c in a):
                problems.append(f"block_info[{i}] shape / num-chunks differ from the argument's advertised layout")
    return problems


def fam_payload(chk, da, rng):
    from common import cbool, clist, copt, coq_eval_cases, coq_eval_expr, ctuple, cz
    import toolz
    n = 4000 if chk.tier == "thorough" else 300
    calls = []
    # corpus: the documentation example layouts, drop/new axis, broadcasting
    calls += [([((1, 3), (2, 2, 2))], [], None, None), ([((1, 3), (2, 2, 2))], [1], None, None),
              ([((1, 3), (2, 2, 2))], [], [0], None), ([((2, 2),), ((4,),)], [], None, None),
              ([((2, 2), (3,)), ((3,),)], [], None, None), ([((2, 2),)], [], None, ((1, 1),)),
              ([((2, 2),)], [0], [0], (3,)), ([((2, 2),), ((1, 1, 1),)], [], None, None),
              # inputs of different ndim with a dropped axis (which input axes arrive concatenated?)
              ([((2, 4), (3, 1)), ((3, 1),)], [0], None, None), ([((3, 1),), ((2, 4), (3, 1))], [0], None, None),
              ([((2, 2), (3, 1), (2,)), ((3, 1), (2,))], [0], None, None), ([((2, 2), (3, 1), (2,)), ((2,),)], [1], None, None),
              ([((2, 2), (3, 1)), ((3, 1),), None], [0], [0], None),
              # same shape, same number of blocks, different boundaries (the inputs must NOT be re-aligned behind block_info's back)
              ([((3, 7),), ((6, 4),)], [], None, None), ([((2, 2), (3, 3)), ((1, 3), (2, 4))], [], None, None), ([((3, 7),), ((6, 4),), ((5, 5),)], [], None, None),
              # a new axis that the explicit chunks give several blocks
              ([((2, 2),)], [], [0], ((1, 1, 1), (2, 2))), ([((2, 2), (3,))], [], [1], ((2, 2), (1, 1), (3,))), ([((2, 2),)], [], [1], ((2, 2), (2, 1)))]
    for k in range(n):
        calls.append(gen_mb_call(rng, malformed=(k % 5 == 4)))
    cases, idcases, depcases, kept = [], [], [], []
    for call in calls:
        args, drop, new_axis, chunks = call
        fn = rng.choice([_f_info, _f_info, _f_both])
        try:
            with warnings.catch_warnings():
                warnings.simplefilter("ignore")
                y, e, info_dep, id_dep = real_map_blocks(da, call, fn)
            err = 0
        except (ValueError, IndexError, KeyError) as ex:
            err, y = ERR_CODE[type(ex).__name__], None
        except Exception as ex:  # noqa: BLE001
            chk.tie_break("correspondence:map_blocks raises an exception the model has no code for",
                          {"call": repr(call), "error": f"{type(ex).__name__}: {ex}"[:200]})
            continue
        chk.count("payload:" + ("error" if err else "ok") + (":drop" if drop else "") + (":new" if new_axis else "") +
                  (":chunks" if chunks is not None else "") + (":multi" if sum(a is not None for a in args) > 1 else ""))
        lit_in = ctuple(clist(args, lambda a: copt(a, c_chunks)), clist(drop), copt(new_axis, clist),
                        copt(chunks, lambda t: clist(t, c_spec)))
        if err:
            exp = "None"
            chk.case(("mbinfo", repr(call)), nontrivial=False)
        else:
            try:
                _adv = tuple(y.chunks)
            except Exception as ex:  # noqa: BLE001
                chk.tie_break("correspondence:the collection built by map_blocks cannot report its chunks", {"call": repr(call), "error": f"{type(ex).__name__}: {ex}"[:200]})
                continue
            if info_dep is None or tuple(info_dep.chunks) != tuple(y.chunks):
                chk.tie_break("correspondence:ArrayValuesDep missing or built for other chunks than the call advertises",
                              {"call": repr(call), "advertised": y.chunks, "dep": getattr(info_dep, "chunks", None)})
                continue
            entries = [c_entry(bid, info) for bid, info in info_dep.values.items()]
            exp = "(Some " + ctuple(clist(e.out_ind), c_chunks(y.chunks), clist(entries, lambda x: x)) + ")"
            chk.case(("mbinfo", repr(call)), nontrivial=len(entries) > 1,
                     sample={"args_chunks": args, "drop_axis": drop, "new_axis": new_axis, "chunks": chunks,
                             "out_ind": e.out_ind, "advertised": y.chunks,
                             "payload[first]": repr(next(iter(info_dep.values.items())))[:300]} if len(kept) < 2 else None)
            from dask_array._blockwise import Blockwise
            if type(e) is not Blockwise or e.align_arrays or e.new_axes or not e._requires_grid_preservation(None) \
                    or len(set(e.out_ind)) != len(e.out_ind):
                chk.tie_break("correspondence:the Blockwise built by map_blocks is not the grid-sensitive, new_axes-free node the model assumes",
                              {"call": repr(call), "type": type(e).__name__, "align_arrays": e.align_arrays, "new_axes": e.new_axes})
            from dask_array._expr import ChunksFreeze
            for a2, i2 in toolz.partition(2, e.args):
                if i2 is not None and hasattr(a2, "_name") and not (isinstance(a2, ChunksFreeze) and a2.chunks == a2.array.chunks):
                    chk.tie_break("correspondence:an array input of a block_info consumer is not wrapped in a ChunksFreeze of its advertised chunks",
                                  {"call": repr(call), "input": type(a2).__name__})
            probs = oracle_payload(call, y, e, info_dep)
            if probs:
                chk.violation("; ".join(sorted(set(probs))[:3]), {"call": repr(call), "advertised": y.chunks},
                              signature={"class": "block-info-payload", "drop": bool(drop), "new_axis": bool(new_axis)})
            if len(kept) % (1 if chk.tier == "thorough" else 2) == 0 or (drop and sum(a is not None for a in args) > 1):
                try:
                    with warnings.catch_warnings():
                        warnings.simplefilter("ignore")
                        xprobs = executed_oracle(da, call)
                except Exception as ex:  # noqa: BLE001
                    xprobs = None
                    chk.count("payload:executed-oracle-raises:" + type(ex).__name__)
                if xprobs is not None and not xprobs:
                    try:
                        with warnings.catch_warnings():
                            warnings.simplefilter("ignore")
                            xprobs = [p_ + " [array arguments are elementwise expressions: the call is fused with them]"
                                      for p_ in (executed_oracle(da, call, pre_op=True) or [])]
                        chk.count("payload:executed-oracle:fused")
                    except Exception as ex:  # noqa: BLE001
                        chk.count("payload:executed-oracle-fused-raises:" + type(ex).__name__)
                if xprobs is not None:
                    chk.count("payload:executed-oracle")
                    if xprobs:
                        chk.violation("; ".join(sorted(set(xprobs))[:3]), {"call": repr(call), "advertised": y.chunks},
                                      signature={"class": "block-info-vs-executed-task", "drop": bool(drop), "new_axis": bool(new_axis),
                                                 "multi": sum(a is not None for a in args) > 1})
            # block_id payload
            if id_dep is not None:
                grid = list(itertools.product(*[range(len(c)) for c in id_dep.chunks]))
                idcases.append(ctuple(c_chunks(id_dep.chunks), clist([(g, id_dep[g]) for g in grid], lambda p: ctuple(clist(p[0]), clist(p[1])))))
                if tuple(id_dep.chunks) != tuple(y.chunks):
                    chk.violation("ArrayBlockIdDep built for other chunks than advertised", {"call": repr(call)}, signature={"class": "block-id-payload"})
            # which block the task really hands to the function
            if not e.concatenate:
                grid = list(itertools.product(*[range(len(c)) for c in y.chunks]))
                for pos, (arr, ind) in enumerate(toolz.partition(2, e.args)):
                    if ind is None or not hasattr(arr, "_name"):
                        continue
                    got = []
                    for g in grid:
                        try:
                            got.append(tuple(e._dep_block_id(arr, ind, e._idx_to_block(g))))
                        except ValueError:
                            got.append(None)
                    depcases.append(ctuple(c_chunks(arr.chunks), clist(e.out_ind), clist(list(e.new_axes)),
                                           clist(list(zip(grid, got)), lambda p: ctuple(clist(p[0]), copt(p[1], clist)))))
                    # property: the block handed over is the one block_info describes
                    argpos = [i for i, a in enumerate(args) if a is not None]
                    k = [i for i, (a2, i2) in enumerate(toolz.partition(2, e.args)) if i2 is not None and hasattr(a2, "_name")].index(pos)
                    for g, b in zip(grid, got):
                        told = tuple(info_dep.values[g][argpos[k]]["chunk-location"])
                        if b is not None and tuple(b) != told:
                            chk.violation(f"block_info[{argpos[k]}]['chunk-location'] = {told} but the task receives block {b} at output block {g}",
                                          {"call": repr(call)}, signature={"class": "block-info-vs-task", "multi": True})
        cases.append(ctuple(lit_in, ctuple(cz(err), exp)))
        kept.append(call)
    T = "(list (option (list (list Z))) * list Z * option (list Z) * option (list cspec)) * (Z * option (list Z * list (list Z) * list bentry))"
    mism, _ = coq_eval_cases(
        MODEL_HEADER, T,
        "Definition chk (c : " + T + ") : bool :=\n"
        "  let '((args, drop, na, ch), (err, exp)) := c in\n"
        "  match map_blocks_info args drop na ch, exp with\n"
        "  | MOk (oi, oc, p), Some (oi', oc', p') => (err =? 0) && zlist_eqb oi oi' && zlist2_eqb oc oc' && list_eqb bentry_eqb p p'\n"
        "  | MErr MBValueError, None => err =? 1\n"
        "  | MErr MBIndexError, None => err =? 2\n"
        "  | MErr MBKeyError, None => err =? 3\n"
        "  | _, _ => false end.", cases, chunk=120)
    for i in mism[:5]:
        args, drop, new_axis, chunks = kept[i]
        model = coq_eval_expr(MODEL_HEADER, [f"(map_blocks_info {clist(args, lambda a: copt(a, c_chunks))} {clist(drop)} {copt(new_axis, clist)} {copt(chunks, lambda t: clist(t, c_spec))})"])[0]
        chk.tie_break("correspondence:map_blocks block_info payload / out_ind / chunks differ from BlockInfo.map_blocks_info",
                      {"call": repr(kept[i]), "case": cases[i][:1500], "model": model[:1500]})
    chk.traces_validated += len(cases) - len(mism)
    T2 = "list (list Z) * list (list Z * list Z)"
    mism2, _ = coq_eval_cases(
        MODEL_HEADER, T2,
        "Definition chk (c : " + T2 + ") : bool := let '(oc, p) := c in\n"
        "  list_eqb (fun a b => zlist_eqb (fst a) (fst b) && zlist_eqb (snd a) (snd b)) (block_id_payload oc) p.", idcases)
    for i in mism2[:3]:
        chk.tie_break("correspondence:ArrayBlockIdDep values differ from BlockInfo.block_id_payload", {"case": idcases[i][:600]})
    T3 = "list (list Z) * list Z * list Z * list (list Z * option (list Z))"
    mism3, _ = coq_eval_cases(
        MODEL_HEADER, T3,
        "Definition chk (c : " + T3 + ") : bool := let '(cs, oi, nl, l) := c in\n"
        "  forallb (fun p => match dep_block_id cs oi nl (fst p), snd p with\n"
        "                    | Some a, Some b => zlist_eqb a b | None, None => true | _, _ => false end) l.", depcases)
    for i in mism3[:3]:
        chk.tie_break("correspondence:Blockwise._dep_block_id differs from BlockInfo.dep_block_id", {"case": depcases[i][:600]})
    chk.traces_validated += len(idcases) - len(mism2) + len(depcases) - len(mism3)
    chk.count("payload:block_id_deps", len(idcases))
    chk.count("payload:dep_block_id_args", len(depcases))


def gen_freeze_pair(rng, malformed):
    """(settled, frozen) layouts; nan = unknown"""
    from c13 import rand_chunks
    nan = np.nan
    r = rng.choice([0, 1, 1, 2, 2, 3])
    settled = [list(rand_chunks(rng, rng.choice([0, 1, 2, 3, 4, 6]), allow_zero=True)) for _ in range(r)]
    frozen = [list(c) for c in settled]
    how = rng.choice(["same", "regrid", "regrid", "nan-frozen", "nan-both", "nan-settled", "sum", "rank", "weird"] if malformed else
                     ["same", "regrid", "regrid", "regrid", "nan-frozen", "nan-both", "nan-settled"])
    if how == "regrid":
        frozen = [list(rand_chunks(rng, sum(c), allow_zero=True)) for c in settled]
    elif how == "nan-frozen":
        frozen = [[nan if rng.random() < 0.5 else v for v in (c if rng.random() < 0.5 else rand_chunks(rng, sum(c)))] for c in settled]
    elif how == "nan-both":
        for ax in range(r):
            if rng.random() < 0.6:
                settled[ax] = [nan if rng.random() < 0.6 else v for v in settled[ax]]
        frozen = [list(c) for c in settled]
        if rng.random() < 0.5 and r:
            ax = rng.randrange(r)
            frozen[ax] = [nan if rng.random() < 0.5 else (v if rng.random() < 0.7 else 1) for v in frozen[ax]]
    elif how == "nan-settled":
        for ax in range(r):
            if rng.random() < 0.6:
                settled[ax] = [nan if rng.random() < 0.6 else v for v in settled[ax]]
        frozen = [list(c) if rng.random() < 0.5 else list(rand_chunks(rng, sum(c))) for c in frozen]
    elif how == "sum":
        frozen = [list(rand_chunks(rng, max(0, sum(c) + rng.choice([-1, 0, 1])))) for c in settled]
    elif how == "rank":
        if rng.random() < 0.5 and r:
            frozen = frozen[:rng.randrange(r)]
        else:
            frozen = frozen + [[rng.choice([1, 2])] for _ in range(rng.choice([1, 2]))]
    elif how == "weird" and r:
        ax = rng.randrange(r)
        frozen[ax] = rng.choice([[], [-1] + frozen[ax], frozen[ax] + [0]])
    return tuple(map(tuple, settled)), tuple(map(tuple, frozen)), how


def settled_expr(da, settled):
    """a real expression whose lowered chunks are `settled`"""
    import math
    from dask_array._expr import ChunksOverride
    known = tuple(tuple(0 if (isinstance(v, float) and math.isnan(v)) else v for v in c) for c in settled)
    shape = tuple(sum(c) for c in known)
    x = da.from_array(np.zeros(shape, dtype="int64"), chunks=known)
    if known != settled or any(isinstance(v, float) for c in settled for v in c):
        return ChunksOverride(x.expr, settled)
    return x.expr


def fam_freeze(chk, da, rng):
    from common import clist, coq_eval_cases, coq_eval_expr, ctuple
    from dask_array._expr import ChunksFreeze, _chunks_match
    from dask_array._rechunk import Rechunk
    import math
    n = 8000 if chk.tier == "thorough" else 600
    pairs = [(((3, 3, 6),), ((6, 6),), "corpus"), (((3, 3, 6),), ((3, 3, 6), (1,)), "corpus"), (((0,),), (), "corpus"),
             (((np.nan, np.nan),), ((np.nan, np.nan),), "corpus"), (((np.nan, np.nan),), ((2, 2),), "corpus")]
    for k in range(n):
        pairs.append(gen_freeze_pair(rng, malformed=(k % 4 == 3)))
    cases, kept = [], []
    for settled, frozen, how in pairs:
        try:
            child = settled_expr(da, settled)
        except Exception:  # noqa: BLE001
            chk.count("freeze:skipped-unbuildable")
            continue
        if not _chunks_match(child.chunks, settled):
            chk.count("freeze:skipped-unbuildable")
            continue
        node = ChunksFreeze(child, frozen)
        try:
            out = node.lower_once({})
            if out._name == child._name:
                res, lit = ("vanish", child.chunks), "FVanish"
            elif isinstance(out, Rechunk) and out.array._name == child._name:
                res, lit = ("rechunk", out.chunks), f"(FRechunk {c_ochunks(out.chunks)})"
            else:
                res, lit = ("other", type(out).__name__), "(FError FRuntimeError)"
                chk.tie_break("correspondence:ChunksFreeze.lower_once returned neither the child nor a Rechunk of it",
                              {"settled": settled, "frozen": frozen, "got": type(out).__name__})
        except RuntimeError:
            res, lit = ("error", "RuntimeError"), "(FError FRuntimeError)"
        except ValueError:
            res, lit = ("error", "ValueError"), "(FError FValueError)"
        chk.count(f"freeze:{how}:{res[0]}")
        chk.case(("freeze", repr(settled), repr(frozen)), nontrivial=res[0] != "vanish",
                 sample={"fn": "ChunksFreeze.lower_once", "settled": settled, "frozen": frozen, "outcome": res} if len(kept) < 2 else None)
        # property: the consumer sees the frozen layout, or an error — never another layout
        if res[0] in ("vanish", "rechunk") and len(frozen) == len(settled) and not _chunks_match(res[1], frozen):
            chk.violation(f"ChunksFreeze lowered to layout {res[1]} although {frozen} was frozen",
                          {"settled": settled, "frozen": frozen}, signature={"class": "freeze-not-restored"})
        cases.append(ctuple(c_ochunks(frozen), c_ochunks(settled), lit))
        kept.append((settled, frozen, res))
    T = "ochunks * ochunks * freeze_out"
    mism, _ = coq_eval_cases(MODEL_HEADER, T,
                             "Definition chk (c : " + T + ") : bool := let '(fr, se, o) := c in freeze_out_eqb (chunks_freeze_lower fr se) o.", cases)
    for i in mism[:5]:
        settled, frozen, res = kept[i]
        model = coq_eval_expr(MODEL_HEADER, [f"(chunks_freeze_lower {c_ochunks(frozen)} {c_ochunks(settled)})"])[0]
        chk.tie_break("correspondence:ChunksFreeze.lower_once differs from BlockInfo.chunks_freeze_lower",
                      {"settled": settled, "frozen": frozen, "impl": res, "model": model})
    chk.traces_validated += len(cases) - len(mism)


def fam_gate(chk, da, rng):
    """_preserve_grid_contract / _requires_grid_preservation on real nodes"""
    import weakref
    from common import cbool, clist, coq_eval_cases, ctuple
    from dask_array._blockwise import Blockwise
    from dask_array._expr import ChunksOverride
    from dask_array._map_blocks import MapBlocksOutput
    n = 3000 if chk.tier == "thorough" else 300
    cases, kept = [], []
    keep_alive = []
    for it in range(n):
        shape = (rng.choice([2, 3, 4, 6]), rng.choice([2, 3, 4]))
        ch = tuple(progs.rand_chunks_for(rng, s) for s in shape)
        x = da.from_array(np.arange(shape[0] * shape[1]).reshape(shape), chunks=ch)
        self_kind = rng.choice(["elemwise", "fromarray", "transpose", "rechunk", "mapblocks"])
        if self_kind == "elemwise":
            s = x + 1
        elif self_kind == "fromarray":
            s = x
        elif self_kind == "transpose":
            s = x.T
        elif self_kind == "rechunk":
            s = (x + 1).rechunk(tuple(progs.rand_chunks_for(rng, d) for d in shape))
        else:
            s = da.map_blocks(_f_info, x, dtype=x.dtype)
        self_node = s.expr
        op = rng.choice(["slice", "rechunk"])
        if op == "slice":
            par = s[: rng.randint(1, s.shape[0])]
        else:
            par = s.rechunk(tuple(progs.rand_chunks_for(rng, d) for d in s.shape))
        parent = par.expr
        if parent._name == self_node._name:
            continue
        # dependents of `parent`
        deps = []
        for _ in range(rng.choice([0, 1, 1, 2])):
            dk = rng.choice(["mapblocks", "mapblocks", "elemwise", "blockwise-aligned", "sum", "mbout"])
            if dk == "mapblocks":
                d = da.map_blocks(_f_info, par, dtype=par.dtype).expr
            elif dk == "elemwise":
                d = (par * 2).expr
            elif dk == "blockwise-aligned":
                d = da.blockwise(lambda b: b, "ij", par, "ij", dtype=par.dtype).expr
            elif dk == "sum":
                d = par.sum(axis=0).expr
            else:
                d = MapBlocksOutput(lambda spec, b: {"a": b}, "a", (0, 1), par.chunks, par.dtype, None, f"mbo-{it}", f"mbo-{it}-shared",
                                    (0, 1), ((0, 1),), {}, parent)
            deps.append(d)
        keep_alive.append(deps)
        dependents = {parent._name: [weakref.ref(d) for d in deps]}
        # candidate result of the pushdown
        rk = rng.choice(["none", "same", "same", "other", "nan-same", "nan-fresh", "nan-vs-known"])
        nan_same = True
        pc = parent.chunks
        if rk == "none":
            result, rc = None, None
        elif rk == "same":
            result = da.from_array(np.zeros(par.shape, dtype="int64"), chunks=pc).expr
        elif rk == "other":
            result = da.from_array(np.zeros(par.shape, dtype="int64"), chunks=tuple(progs.rand_chunks_for(rng, d) for d in par.shape)).expr
        else:
            # parent and result with unknown sizes on axis 0
            nanp = np.nan
            pch = ((nanp,) * len(pc[0]),) + tuple(pc[1:])
            parent = ChunksOverride(parent, pch)
            dependents = {parent._name: [weakref.ref(d) for d in deps]}
            if rk == "nan-same":
                rch = ((nanp,) * len(pc[0]),) + tuple(pc[1:])
            elif rk == "nan-fresh":
                rch = (tuple(float("nan") for _ in pc[0]),) + tuple(pc[1:])
                nan_same = False
            else:
                rch = pc
            result = ChunksOverride(da.from_array(np.zeros(par.shape, dtype="int64"), chunks=pc).expr, rch)
        if result is not None:
            # the oracle is read off the real objects: the expression registry may hand back an earlier, equal-token
            # ChunksOverride whose nan entries ARE the np.nan singleton even though fresh nan objects were passed in
            import math
            pairs = [(a, b) for da_, db_ in zip(result.chunks, parent.chunks) for a, b in zip(da_, db_)
                     if isinstance(a, float) and isinstance(b, float) and math.isnan(a) and math.isnan(b)]
            nan_same = all(a is b for a, b in pairs)
        try:
            out = self_node._preserve_grid_contract(parent, result, dependents)
        except Exception as ex:  # noqa: BLE001
            chk.tie_break("correspondence:_preserve_grid_contract raises", {"error": f"{type(ex).__name__}: {ex}"[:200]})
            continue
        if out is not None and out is not result:
            chk.tie_break("correspondence:_preserve_grid_contract returned a third object", {"self": self_kind})
            continue

        def kind(d):
            if type(d) is Blockwise:
                return f"(KBlockwise, {cbool(bool(d.align_arrays))})"
            if isinstance(d, Blockwise):
                return "(KElemwiseLike, true)"
            if isinstance(d, MapBlocksOutput):
                return "(KMapBlocksOutput, true)"
            return "(KOther, true)"
        sens = [bool(d._requires_grid_preservation(parent)) for d in deps]
        accepted = out is not None
        chk.count(f"gate:self={self_kind}")
        chk.count(f"gate:result={rk}:{'sensitive' if any(sens) else 'free'}:{'accept' if accepted else 'decline'}")
        chk.case(("gate", self_kind, rk, repr(parent.chunks), repr(getattr(result, 'chunks', None)), tuple(type(d).__name__ for d in deps)),
                 nontrivial=any(sens), sample={"fn": "_preserve_grid_contract", "self": type(self_node).__name__, "parent_chunks": parent.chunks,
                                               "result_chunks": getattr(result, "chunks", None), "dependents": [type(d).__name__ for d in deps],
                                               "accepted": accepted} if len(kept) < 2 else None)
        # property: with a grid-sensitive dependent, an accepted pushdown keeps the chunks
        if accepted and any(sens):
            from dask_array._expr import _chunks_match
            if not _chunks_match(result.chunks, parent.chunks):
                chk.violation("grid gate accepted a pushdown that changes the chunks seen by a grid-sensitive dependent",
                              {"parent_chunks": parent.chunks, "result_chunks": result.chunks}, signature={"class": "grid-gate"})
        res_lit = "None" if result is None else f"(Some (tt, {c_ochunks(result.chunks)}))"
        cases.append(ctuple(cbool(nan_same), cbool(isinstance(self_node, Blockwise)), clist([kind(d) for d in deps], lambda z: z),
                            clist([cbool(b) for b in sens], lambda z: z), c_ochunks(parent.chunks), res_lit, cbool(accepted)))
        kept.append((self_kind, rk))
    T = "bool * bool * list (node_kind * bool) * list bool * ochunks * option (unit * ochunks) * bool"
    mism, _ = coq_eval_cases(
        MODEL_HEADER, T,
        "Definition chk (c : " + T + ") : bool := let '(ns, sb, deps, sens, pc, r, acc) := c in\n"
        "  list_eqb Bool.eqb (map (fun d => requires_grid (fst d) (snd d)) deps) sens &&\n"
        "  Bool.eqb (match preserve_grid_contract ns sb deps pc r with Some _ => true | None => false end) acc.", cases)
    for i in mism[:5]:
        chk.tie_break("correspondence:_preserve_grid_contract / _requires_grid_preservation differ from BlockInfo.preserve_grid_contract",
                      {"case": cases[i][:800], "kinds": kept[i]})
    chk.traces_validated += len(cases) - len(mism)


def run_model_families(chk, da):
    chk.rule += (" | MODEL: the block_info dictionaries are read out of the ArrayValuesDep operand of the Blockwise that the real "
                 "da.map_blocks builds (generated chunkings, several inputs, broadcasting, drop_axis, new_axis, chunks=) and every entry, "
                 "out_ind and the advertised chunks are compared inside Coq with BlockInfo.map_blocks_info; ArrayBlockIdDep values and "
                 "Blockwise._dep_block_id (the block the task really receives) likewise; ChunksFreeze.lower_once outcomes "
                 "(vanish / rechunk / RuntimeError / ValueError) on generated (frozen, settled) pairs incl. unknown sizes vs "
                 "chunks_freeze_lower; _preserve_grid_contract on real nodes vs preserve_grid_contract")
    chk.assumptions += ["block_info payload model: chunk sizes of map_blocks inputs are known integers (unknown sizes are C28's business)",
                        "grid gate: Python tuple comparison of nan chunk entries is identity-based; the model takes it as an oracle (nan_same) "
                        "and C20_gate holds for both oracle values"]
    import random
    rng = random.Random(chk.seed * 1000003 + 0xC20)     # own stream: the existing differential cases are unchanged
    fam_payload(chk, da, rng)
    fam_freeze(chk, da, rng)
    fam_gate(chk, da, rng)


def run(chk: Check):
    import dask_array as da
    chk.rule = ("a recording block function (block_info / block_id / two inputs) is placed by map_blocks on top of a generated program "
                "(slices, rechunks, sliding-window reductions, ... below) and 0-3 further ops (slice, rechunk, reduction, transpose, "
                "elemwise, sliding window) are applied above it; every invocation's chunk-location / array-location / chunk-shape / "
                "shape / num-chunks and the shape of the block it received are compared with the layout advertised when map_blocks was "
                "called; non-trivial = function invoked for more than one block")
    chk.run_proofs()
    run_model_families(chk, da)
    n = 6000 if chk.tier == "thorough" else 350
    for it in range(n):
        run_case(chk, da, chk.rng, it)


def replay(path):
    print(open(path).read())
