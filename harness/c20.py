"""C20 — map_blocks block_info/block_id match the layout the call was built against."""
from __future__ import annotations

import itertools
import re
import threading
import warnings

import numpy as np

import progs
from common import Check

LOG = []
LOCK = threading.Lock()


def rec_info(b, block_info=None):
    if block_info is not None and b.size >= 0 and 0 in block_info:
        with LOCK:
            LOG.append(("info", dict(block_info[0]), tuple(b.shape), dict(block_info.get(None, {}))))
    return b + 1


def rec_id(b, block_id=None):
    if block_id is not None:
        with LOCK:
            LOG.append(("id", tuple(block_id), tuple(b.shape)))
    return b * 1


def rec_two(a, b, block_info=None):
    if block_info is not None and 0 in block_info and 1 in block_info:
        with LOCK:
            LOG.append(("info2", dict(block_info[0]), tuple(a.shape), dict(block_info[1]), tuple(b.shape)))
    return a + b


def err_sig(e):
    return re.sub(r"[0-9(),\[\]'-]+", "#", f"{type(e).__name__}: {e}")[:36]


def expected_info(chunks, shape, loc):
    offs = [np.concatenate([[0], np.cumsum(c)]) for c in chunks]
    return {"chunk-location": tuple(loc),
            "array-location": [(int(o[i]), int(o[i + 1])) for o, i in zip(offs, loc)],
            "chunk-shape": tuple(int(c[i]) for c, i in zip(chunks, loc)),
            "shape": tuple(shape), "num-chunks": tuple(len(c) for c in chunks)}


def post_ops(rng, y, v):
    """ops applied ABOVE the map_blocks call (they invite pushdowns through it)"""
    for _ in range(rng.choice([0, 1, 2, 3])):
        op = rng.choice(["slice", "rechunk", "sum", "T", "elem", "swvsum"])
        try:
            if op == "slice" and v.ndim:
                idx = progs.rand_index(rng, v.shape, allow_none=False)
                y, v = y[idx], v[idx]
            elif op == "rechunk" and v.ndim:
                ch = tuple(progs.rand_chunks_for(rng, n) for n in v.shape)
                y = y.rechunk(ch)
            elif op == "sum" and v.ndim:
                ax = rng.randrange(v.ndim)
                y, v = y.sum(axis=ax), v.sum(axis=ax)
            elif op == "T" and v.ndim > 1:
                y, v = y.T, v.T
            elif op == "elem":
                y, v = y * 2, v * 2
            elif op == "swvsum" and v.ndim and v.shape[0] > 1:
                import dask_array as da
                w = rng.randint(1, v.shape[0])
                y = da.sliding_window_view(y, w, axis=0).sum(axis=-1)
                v = np.lib.stride_tricks.sliding_window_view(v, w, axis=0).sum(axis=-1)
        except Exception:  # noqa: BLE001
            break
    return y, v


def run_case(chk, da, rng, it):
    from dask_array import _materialize
    _materialize._LOWER_CACHE.clear()
    ops_below = progs.CORE_OPS + ["swv", "roll", "repeat"]
    g = progs.Gen(rng, ops=ops_below, sources=[])
    p, v = g.program(rng.choice([0, 1, 2, 3]))
    if v.ndim == 0 or v.dtype.kind not in "iu":
        return
    try:
        with warnings.catch_warnings():
            warnings.simplefilter("ignore")
            pre = progs.build(p, da, g.sources, memo={})
            pre_chunks, pre_shape = pre.chunks, pre.shape
            if any(isinstance(c, float) for dim in pre_chunks for c in dim):
                return
            variant = rng.choice(["info", "id", "two", "info"])
            if variant == "info":
                y = da.map_blocks(rec_info, pre, dtype=pre.dtype)
                want = v + 1
            elif variant == "id":
                y = da.map_blocks(rec_id, pre, dtype=pre.dtype)
                want = v * 1
            else:
                other_np = np.arange(int(np.prod(v.shape))).reshape(v.shape)
                other = da.from_array(other_np, chunks=pre_chunks)
                y = da.map_blocks(rec_two, pre, other, dtype=pre.dtype)
                want = v + other_np
            y, want = post_ops(rng, y, want)
            del LOG[:]
            got = y.compute(scheduler="sync")
            log = list(LOG)
    except Exception as e:  # noqa: BLE001
        chk.count("skipped:raises:" + err_sig(e)[:20])
        return
    desc = {"below": progs.show(p), "variant": variant, "layout_at_call": pre_chunks, "result_shape": tuple(np.shape(got)),
            **{k: v2 for k, v2 in progs.describe(p, g.sources).items() if k == "sources"}}
    chk.case(("mb", progs.show(p), variant, it), nontrivial=len(log) > 1, sample=desc if it < 3 else None)
    chk.count("variant:" + variant)
    problems = []
    ok, why = progs.values_equal(got, want)
    if not ok:
        problems.append(f"result differs from NumPy ({why})")
    grid = set(itertools.product(*[range(len(c)) for c in pre_chunks]))
    for entry in log:
        if entry[0] == "id":
            _, bid, bshape = entry
            if tuple(bid) not in grid:
                problems.append(f"block_id {bid} outside the block grid of the layout at call time")
            elif tuple(int(c[i]) for c, i in zip(pre_chunks, bid)) != bshape:
                problems.append(f"block with block_id {bid} has shape {bshape}, layout at call time says {tuple(int(c[i]) for c, i in zip(pre_chunks, bid))}")
        else:
            info, bshape = entry[1], entry[2]
            loc = tuple(info.get("chunk-location", ()))
            if loc not in grid:
                problems.append(f"chunk-location {loc} outside the block grid of the layout at call time")
                continue
            exp = expected_info(pre_chunks, pre_shape, loc)
            out_info = entry[3] if entry[0] == "info" else {}
            if out_info.get("chunk-shape") is not None and tuple(int(a) for a in out_info["chunk-shape"]) != exp["chunk-shape"]:
                problems.append(f"block_info[None]['chunk-shape'] = {out_info['chunk-shape']} at {loc}, layout at call time gives {exp['chunk-shape']}")
            for k in ("array-location", "shape", "num-chunks"):
                gotk = info.get(k)
                if gotk is None:
                    problems.append(f"block_info[0] lacks {k!r}")
                    continue
                gotk = [tuple(int(a) for a in t) for t in gotk] if k == "array-location" else tuple(int(a) for a in gotk)
                if gotk != (exp[k] if k != "array-location" else [tuple(t) for t in exp[k]]):
                    problems.append(f"block_info[0][{k!r}] = {gotk} at {loc}, layout at call time gives {exp[k]}")
            if bshape != exp["chunk-shape"]:
                problems.append(f"block at {loc} has shape {bshape}, block_info says {exp['chunk-shape']}")
        chk.traces_validated += 1
    if problems:
        chk.violation("; ".join(sorted(set(problems))[:3]), desc, signature={"class": "block-info" if "differs from NumPy" not in problems[0] else "value",
                                                                          "variant": variant})


def run(chk: Check):
    import dask_array as da
    chk.rule = ("a recording block function (block_info / block_id / two inputs) is placed by map_blocks on top of a generated program "
                "(slices, rechunks, sliding-window reductions, ... below) and 0-3 further ops (slice, rechunk, reduction, transpose, "
                "elemwise, sliding window) are applied above it; every invocation's chunk-location / array-location / chunk-shape / "
                "shape / num-chunks and the shape of the block it received are compared with the layout advertised when map_blocks was "
                "called; non-trivial = function invoked for more than one block")
    chk.run_proofs()
    n = 6000 if chk.tier == "thorough" else 350
    for it in range(n):
        run_case(chk, da, chk.rng, it)


def replay(path):
    print(open(path).read())
