"""C26 — xarray integration is strictly opt-in."""
from __future__ import annotations

import json
import os
import subprocess
import sys
from concurrent.futures import ThreadPoolExecutor

from common import COQ, REPO, VERIF, Check, sh


def package_modules():
    root = os.path.join(REPO, "dask_array")
    mods = []
    for dirpath, dirnames, files in os.walk(root):
        dirnames[:] = [d for d in dirnames if d not in ("tests", "__pycache__")]
        for f in files:
            if f.endswith(".py"):
                rel = os.path.relpath(os.path.join(dirpath, f), REPO)[:-3].replace(os.sep, ".")
                if rel.endswith(".__init__"):
                    rel = rel[: -len(".__init__")]
                mods.append(rel)
    return sorted(mods)


def run_child(actions):
    env = dict(os.environ, PYTHONPATH=REPO, PYTHONHASHSEED="0")
    p = subprocess.run([sys.executable, os.path.join(VERIF, "harness", "c26_child.py"), json.dumps(actions)],
                       env=env, stdout=subprocess.PIPE, stderr=subprocess.PIPE, text=True, timeout=300)
    line = [ln for ln in p.stdout.splitlines() if ln.startswith("C26CHILD ")]
    if not line:
        return None, p.stderr[-800:]
    return json.loads(line[0][len("C26CHILD "):]), ""


def run(chk: Check):
    chk.rule = ("(T) the import graph of /repo/dask_array is regenerated from source into coq/Generated/ImportGraph.v and the closure "
                "theorems are re-proved; (I) fresh interpreters perform import sequences — every submodule first / after xarray / after "
                "dask_array, with register() placed at the end — and after every step report the class serving xarray's 'dask' chunk "
                "manager and isactive(); before register() the manager must not be dask_array's and isactive() must be False, after it "
                "both must flip; an xarray computation on a registered dask_array-backed DataArray must equal the NumPy-backed one; "
                "non-trivial = sequence with at least two imports")
    chk.trusted_base = ["translator/importgraph.py (Python ast: import-time statements = module body through if/try/with/class, not def bodies; refuses on dynamic imports)"]
    # (T) regenerate the import graph from the current source, then build + prove
    rc, out = sh([sys.executable, os.path.join(VERIF, "translator", "importgraph.py"), REPO, os.path.join(COQ, "Generated", "ImportGraph.v")])
    if rc != 0:
        chk.tie_break("translator:importgraph refused", {"output": out[-500:]})
    chk.run_proofs()
    mods = package_modules()
    rng = chk.rng
    pick = mods if chk.tier == "thorough" else rng.sample(mods, 10) + ["dask_array", "dask_array.xarray", "dask_array._xarray", "dask_array.core"]
    seqs = []
    for m in pick:
        seqs.append([m, "xarray", "register", "compute"])
        seqs.append(["xarray", m, "dask_array", "register", "compute"])
        if chk.tier == "thorough" or rng.random() < 0.3:
            seqs.append(["dask_array", "xarray", m, "register"])
    seqs.append(["xarray", "dask_array", "dask_array.xarray", "dask_array._xarray"])          # never registers
    seqs.append(["dask_array._xarray", "xarray"])
    seqs.append(["dask_array", "xarray", "register", "values-suite"])       # the "same values as NumPy-backed" half, operation by operation
    seqs.append(["xarray", "dask_array.xarray", "register", "values-suite"])
    with ThreadPoolExecutor(14) as ex:
        results = list(ex.map(run_child, seqs))
    for actions, (res, err) in zip(seqs, results):
        chk.case(("seq", tuple(actions)), nontrivial=len(actions) >= 2, sample={"actions": actions, "result": res} if len(chk.samples) < 4 else None)
        chk.count("sequences")
        if res is None:
            chk.tie_break("harness:c26-child-failed", {"actions": actions, "stderr": err})
            continue
        registered = False
        for step in res:
            a = step["action"]
            mgr = step.get("manager") or ""
            ours = "dask_array" in mgr
            if "error" in step and a not in ("compute",):
                if "ImportError" in step["error"] and a not in ("dask_array", "xarray", "register", "dask_array.xarray", "dask_array._xarray"):
                    chk.count("module-not-importable-here")     # e.g. needs the native extension
                    continue
                if a.startswith("dask_array") or a in ("xarray", "register"):
                    chk.violation(f"{a} raised {step['error']}", {"actions": actions, "steps": res}, signature={"class": "raises", "action": a.split('.')[0]})
                break
            if a == "register":
                registered = True
                if not ours or step.get("isactive") is not True:
                    chk.violation("register() did not activate dask_array's chunk manager", {"actions": actions, "steps": res}, signature={"class": "register-inactive"})
            elif a == "values-suite":
                for opname, r in (step.get("suite") or {}).items():
                    chk.count("xarray-op:" + opname)
                    chk.case(("xarray-op", opname, tuple(actions)), nontrivial=True)
                    if "skipped" in r:
                        chk.count("xarray-op-skipped:" + opname)
                    elif r.get("equal") is not True:
                        chk.violation(f"xarray operation `{opname}` on registered dask_array-backed objects " +
                                      ("raises " + r["error"] if "error" in r else "differs from the NumPy-backed result"),
                                      {"actions": actions, "operation": opname, "result": r}, signature={"class": "xarray-values", "op": opname})
                    elif not r.get("lazy"):
                        chk.count("xarray-op-not-lazy:" + opname)
                        chk.traces_validated += 1
                    else:
                        chk.traces_validated += 1
            elif a == "compute":
                if step.get("equal") is not True:
                    chk.violation("xarray computation on a registered dask_array-backed object differs from the NumPy-backed one (or raised)",
                                  {"actions": actions, "steps": res}, signature={"class": "xarray-values"})
            elif not registered:
                if ours or step.get("isactive") is True:
                    chk.violation(f"importing {a} changed xarray's chunk manager to {mgr} without register()",
                                  {"actions": actions, "steps": res}, signature={"class": "import-registers", "module": a})
            chk.traces_validated += 1
    # no entry point
    txt = open(os.path.join(REPO, "pyproject.toml")).read()
    import re
    if re.search(r"^\s*\[project\.entry-points\.[\"']?xarray\.chunkmanagers", txt, flags=re.M):
        chk.violation("pyproject.toml declares an xarray.chunkmanagers entry point", {}, signature={"class": "entry-point"})


def replay(path):
    print(open(path).read())
