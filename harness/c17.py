"""C17 — chunk unification aligns operands without changing values or inflating blocks."""
from __future__ import annotations

import itertools
import math
import warnings
from fractions import Fraction

import dask
import numpy as np

from common import Check, clist, cnat, copt, coq_eval_cases, coq_eval_expr, ctuple, cz
from c13 import compositions, rand_chunks

HEADER = "From DA Require Import PyBase Unify.\nOpen Scope Z_scope.\n"


def bounds(cs):
    return set(itertools.accumulate(cs[:-1]))


def refines(fine, coarse):
    return sum(fine) == sum(coarse) and bounds(coarse) <= bounds(fine)


def related_layouts(rng, n):
    """2-4 layouts of the same axis: nested, interleaved, shifted, slivers"""
    base = rand_chunks(rng, n)
    outs = [base]
    for _ in range(rng.choice([1, 1, 2, 3])):
        r = rng.random()
        if r < 0.3:      # refinement of base
            new = []
            for c in base:
                if c > 1 and rng.random() < 0.6:
                    k = rng.randint(1, c - 1)
                    new += [k, c - k]
                else:
                    new.append(c)
            outs.append(tuple(new))
        elif r < 0.5:    # coarsening of base
            new, acc = [], 0
            for c in base:
                acc += c
                if rng.random() < 0.5:
                    new.append(acc)
                    acc = 0
            if acc:
                new.append(acc)
            outs.append(tuple(new))
        elif r < 0.7 and n > 2:   # shifted uniform
            k = rng.randint(1, max(1, n // 2))
            s = rng.randint(1, k)
            body = [s] + [k] * ((n - s) // k)
            rest = n - sum(body)
            outs.append(tuple(body + ([rest] if rest else [])))
        elif r < 0.8:
            outs.append((n,))
        else:
            outs.append(rand_chunks(rng, n))
    return outs


def cures(x):
    return "UErr" if x is None else f"(UOk {clist(x)})"


def fam_blockdims(chk, common_blockdim, coarse_blockdim, tier):
    rng = chk.rng
    inputs = []
    top = 6 if tier == "thorough" else 5
    for n in range(1, top + 1):
        comps = list(compositions(n))
        for a, b in itertools.combinations_with_replacement(comps, 2):
            inputs.append([a, b])
    for _ in range(8000 if tier == "thorough" else 1500):
        n = rng.choice([1, 2, 3, 5, 8, 12, 24, 60])
        inputs.append(related_layouts(rng, n))
    # F23 (found by the Coq proof): zero-size chunks break "refine only splits"
    inputs.append([(0, 5), (5, 0)])
    for _ in range(100):
        n = rng.choice([2, 3, 5, 8])
        inputs.append([rand_chunks(rng, n, allow_zero=True), rand_chunks(rng, n, allow_zero=True)])
    cases, kept = [], []
    for ds in inputs:
        dset = set(ds)
        outs = {}
        for nm, fn in (("common", common_blockdim), ("coarse", coarse_blockdim)):
            try:
                outs[nm] = tuple(int(x) for x in fn(dset))
            except Exception:  # noqa: BLE001
                outs[nm] = None
        chk.count(f"blockdim:{len(dset)}layouts")
        chk.case(("bd", tuple(sorted(dset))), nontrivial=len(dset) > 1,
                 sample={"fn": "common_blockdim/coarse_blockdim", "blockdims": sorted(dset), "common": outs["common"], "coarse": outs["coarse"]})
        cm, co = outs["common"], outs["coarse"]
        if cm is not None:
            bad = [d for d in dset if not refines(cm, d)]
            want = set().union(*[bounds(d) for d in dset])
            zero = any(0 in d for d in dset)
            if bad or bounds(cm) != want or any(c <= 0 for c in cm) and not zero:
                chk.violation("common_blockdim is not the common refinement of its inputs",
                              {"fn": "common_blockdim", "blockdims": sorted(dset), "impl": cm},
                              signature={"fn": "common_blockdim", "zero_size_chunks": zero})
        if co is not None:
            nt = [d for d in dset if len(d) > 1]
            ok = (co in dset and all(refines(d, co) for d in nt)) or co == cm
            if not ok and not any(0 in d for d in dset):
                chk.violation("coarse_blockdim is neither an operand layout that every other layout refines nor the common refinement",
                              {"fn": "coarse_blockdim", "blockdims": sorted(dset), "impl": co, "common": cm}, signature={"fn": "coarse_blockdim"})
        lst = sorted(dset)
        cases.append(ctuple(clist(lst, clist), cures(cm), cures(co)))
        kept.append((lst, cm, co))
    mism, _ = coq_eval_cases(
        HEADER, "list (list Z) * ures * ures",
        "Definition ueq (a b : ures) := match a, b with UOk x, UOk y => zlist_eqb x y | UErr, UErr => true | _, _ => false end.\n"
        "Definition chk (c : list (list Z) * ures * ures) : bool := let '(ds, cm, co) := c in\n"
        "  ueq (common_blockdim ds) cm && existsb (fun p => ueq (coarse_blockdim p ds) co) (seq 0 4).",
        cases)
    for i in mism[:5]:
        lst, cm, co = kept[i]
        model = coq_eval_expr(HEADER, [f"(common_blockdim {clist(lst, clist)}, coarse_blockdim 0 {clist(lst, clist)})"])[0]
        chk.tie_break("correspondence:common_blockdim/coarse_blockdim", {"blockdims": lst, "impl_common": cm, "impl_coarse": co, "model": model})
    chk.traces_validated += len(cases) - len(mism)


def fam_moved_fraction(chk, moved_fraction, tier):
    rng = chk.rng
    inputs = []
    top = 7 if tier == "thorough" else 5
    for n in range(1, top + 1):
        comps = list(compositions(n))
        for a in comps:
            for b in comps:
                inputs.append((a, b))
    for _ in range(8000 if tier == "thorough" else 1500):
        n = rng.choice([1, 2, 3, 5, 8, 12, 24, 60, 1440])
        ls = related_layouts(rng, n)
        inputs.append((ls[0], ls[1]))
        if rng.random() < 0.1:
            inputs.append((ls[0], rand_chunks(rng, n + 1)))
    cases, kept = [], []
    for s, d in inputs:
        mf = moved_fraction(s, d)
        chk.count("moved_fraction")
        chk.case(("mf", s, d), nontrivial=(s != d), sample={"fn": "moved_fraction", "src": s, "dst": d, "impl": mf})
        problems = []
        if not (0.0 <= mf <= 1.0):
            problems.append(f"moved_fraction {mf} outside [0, 1]")
        if s == d and mf != 0.0:
            problems.append("identical layouts move something")
        if sum(s) == sum(d) and refines(d, s) and mf != 0.0:
            problems.append("a pure split moves something")
        if problems:
            chk.violation("; ".join(problems), {"fn": "moved_fraction", "src": s, "dst": d, "impl": mf}, signature={"fn": "moved_fraction"})
        fr = Fraction(mf)
        cases.append(ctuple(clist(s), clist(d), cz(fr.numerator), cz(fr.denominator)))
        kept.append((s, d, mf))
    # float(moved/total) is the correctly rounded quotient of two exactly represented integers, so it is the
    # double nearest to the model's rational: compare |impl - num/den| <= 2^-52 * impl exactly in Z.
    mism, _ = coq_eval_cases(
        HEADER, "list Z * list Z * Z * Z",
        "Definition chk (c : list Z * list Z * Z * Z) : bool := let '(s, d, fn, fd) := c in\n"
        "  let '(n, m) := moved_fraction s d in\n"
        "  (0 <=? n) && (n <=? m) && (Z.abs (n * fd - fn * m) * 4503599627370496 <=? Z.abs (fn * m)).",
        cases)
    for i in mism[:5]:
        s, d, mf = kept[i]
        model = coq_eval_expr(HEADER, [f"moved_fraction {clist(s)} {clist(d)}"])[0]
        chk.tie_break("correspondence:moved_fraction", {"src": s, "dst": d, "impl": mf, "model": model})
    chk.traces_validated += len(cases) - len(mism)


def largest_block_bytes(a, chunks=None):
    chunks = a.chunks if chunks is None else chunks
    return a.dtype.itemsize * math.prod(max(c) for c in chunks) if chunks else a.dtype.itemsize


def fam_unify(chk, tier):
    import dask_array as da
    from dask_array._expr import unify_chunks_expr
    from dask_array import _materialize
    rng = chk.rng
    N = 6000 if tier == "thorough" else 700
    for it in range(N):
        rank = rng.choice([1, 1, 2, 2, 3])
        shape = tuple(rng.choice([1, 2, 3, 6, 8, 12, 24]) for _ in range(rank))
        nops = rng.choice([2, 2, 3, 4])
        per_axis = [related_layouts(rng, n) for n in shape]
        ops, nps = [], []
        for k in range(nops):
            dtype = rng.choice(["u1", "i4", "f8", "c16"])
            # broadcast pattern: drop leading axes / size-1 axes
            lead = rng.choice([0, 0, 0, 1]) if rank > 1 else 0
            oshape, ochunks = [], []
            for ax in range(lead, rank):
                if rng.random() < 0.12:
                    oshape.append(1)
                    ochunks.append((1,))
                else:
                    oshape.append(shape[ax])
                    ochunks.append(rng.choice(per_axis[ax]))
            arr = (np.arange(int(np.prod(oshape)) or 0).reshape(oshape) % 7 + k).astype(dtype)
            nps.append(arr)
            ops.append(da.from_array(arr, chunks=tuple(ochunks)))
        policy = rng.choice(["auto", "coarse", "refine"])
        limit = rng.choice([None, 16, 64, 256, 1024, "512MiB"])
        cfg = {"array.unify-chunks-policy": policy}
        if limit is not None:
            cfg["array.unify-chunks-limit"] = limit
        lim_bytes = dask.utils.parse_bytes(limit) if isinstance(limit, str) else limit
        args = []
        for o in ops:
            args += [o.expr, tuple(range(rank - o.ndim, rank))]
        desc = {"shapes": [o.shape for o in ops], "chunks": [o.chunks for o in ops], "dtypes": [str(o.dtype) for o in ops],
                "policy": policy, "limit": limit}
        with dask.config.set(cfg), warnings.catch_warnings():
            warnings.simplefilter("ignore")
            try:
                chunkss, arrays, changed = unify_chunks_expr(*args, warn=False)
            except ValueError as e:
                chk.count("unify:raises")
                chk.case(("unify", repr(desc)), nontrivial=False)
                continue
            chk.count(f"unify:{policy}:{'changed' if changed else 'same'}")
            chk.case(("unify", repr(desc)), nontrivial=bool(changed),
                     sample={**desc, "chosen": {int(k): v for k, v in chunkss.items()}, "out_chunks": [a.chunks for a in arrays]})
            problems = []
            for o, a in zip(ops, arrays):
                if a.shape != o.shape:
                    problems.append("shape changed")
                for n_ax, (c_old, c_new) in enumerate(zip(o.chunks, a.chunks)):
                    j = rank - o.ndim + n_ax
                    if o.shape[n_ax] > 1 and tuple(c_new) != tuple(chunkss[j]):
                        problems.append(f"operand axis {n_ax} has layout {c_new}, index {j} was unified to {chunkss[j]}")
                    if policy == "refine" and not refines(c_new, c_old):
                        problems.append(f"refine policy merged blocks: {c_old} -> {c_new}")
                own, new = largest_block_bytes(o), largest_block_bytes(a)
                if new > max(own, lim_bytes or 0) and (lim_bytes is not None) and policy != "refine":
                    problems.append(f"operand block grew from {own} to {new} bytes above unify-chunks-limit {lim_bytes}")
                if policy == "refine" and new > own:
                    problems.append(f"refine policy grew a block from {own} to {new} bytes")
            if problems:
                chk.violation("; ".join(sorted(set(problems))[:4]), desc, signature={"fn": "unify_chunks_expr", "policy": policy})
            # values through the real lowering path
            if it % 4 == 0:
                try:
                    _materialize._LOWER_CACHE.clear()
                    expr = ops[0]
                    want = nps[0].astype("c16")
                    for o, v in zip(ops[1:], nps[1:]):
                        expr = expr + o
                        want = want + v
                    got = expr.compute(scheduler="sync")
                    if got.shape != want.shape or not np.array_equal(got.astype("c16"), want):
                        chk.violation("elemwise over differently chunked operands computes different values", desc,
                                      signature={"fn": "unify_chunks_expr", "class": "values"})
                except Exception as e:  # noqa: BLE001
                    chk.violation("elemwise over differently chunked operands raised " + type(e).__name__ + ": " + str(e)[:100], desc,
                                  signature={"fn": "unify_chunks_expr", "class": "raises"})

    # targeted family (found by seeded change C17-2): on one index a much lighter operand holds the coarse layout, so the
    # cost-aware pass refuses that merge and refines; on another index comparably heavy operands disagree, the merge is
    # accepted, and only the size guard keeps blocks within the limit.
    for it in range(400 if tier == "thorough" else 60):
        ni, nj = rng.choice([16, 32, 64]), rng.choice([16, 32, 64])
        fi, fj = rng.choice([2, 4]), rng.choice([2, 4, 8])
        ci, cj = rng.choice([ni // 2, ni]), rng.choice([nj // 2, nj // 4 or 1])
        if cj <= fj or ci <= fi:
            continue
        A = da.from_array(np.arange(ni * nj, dtype="f8").reshape(ni, nj), chunks=(fi, fj))
        t = da.from_array(np.arange(ni, dtype="f8"), chunks=ci)
        C = da.from_array(np.arange(ni * nj, dtype="f8").reshape(ni, nj) * 2, chunks=(fi, cj))
        own = {id(A): largest_block_bytes(A), id(t): largest_block_bytes(t), id(C): largest_block_bytes(C)}
        merged = 8 * fi * cj
        limit = rng.choice([own[id(A)], (own[id(A)] + merged) // 2, merged - 8])
        policy = rng.choice(["auto", "auto", "coarse"])
        desc = {"operands": {"A": A.chunks, "t": t.chunks, "C": C.chunks}, "indices": ["ij", "i", "ij"], "policy": policy, "limit": limit}
        chk.count("unify:cost-refusal-family")
        chk.case(("unify-cost", ni, nj, fi, fj, ci, cj, policy, limit), nontrivial=True)
        with dask.config.set({"array.unify-chunks-policy": policy, "array.unify-chunks-limit": limit}), warnings.catch_warnings():
            warnings.simplefilter("ignore")
            try:
                chunkss, arrays, changed = unify_chunks_expr(A.expr, (0, 1), t.expr, (0,), C.expr, (0, 1), warn=False)
            except ValueError:
                continue
            for o, a in zip((A, t, C), arrays):
                new = largest_block_bytes(a)
                if new > max(own[id(o)], limit):
                    chk.violation(f"operand block grew from {own[id(o)]} to {new} bytes above unify-chunks-limit {limit}",
                                  {**desc, "chosen": {int(k): v for k, v in chunkss.items()}},
                                  signature={"fn": "unify_chunks_expr", "policy": policy})
                    break

    # history axis (F5): lower x+y under one policy, then rebuild and lower under `refine`
    for it in range(60 if tier == "thorough" else 12):
        n = rng.choice([12, 24])
        a = np.arange(n)
        x = da.from_array(a, chunks=n // 4)
        y = da.from_array(a + 1, chunks=n // 2)
        _materialize._LOWER_CACHE.clear()
        with dask.config.set({"array.unify-chunks-policy": "auto"}):
            z1 = x + y
            low1 = z1.expr.lower_completely() if False else _materialize._lower(z1.expr, True)
        with dask.config.set({"array.unify-chunks-policy": "refine"}):
            z2 = x + y
            low2 = _materialize._lower(z2.expr, True)
            got = tuple(low2.chunks)
        chk.count("unify:history")
        chk.case(("unify-history", n, it), nontrivial=True)
        if not all(refines(got[0], c) for c in (x.chunks[0], y.chunks[0])):
            chk.violation(f"'refine' policy lowered x+y to layout {got} that merges blocks of x {x.chunks} "
                          "because the process-wide lowering cache held the result computed under policy 'auto'",
                          {"n": n, "x_chunks": x.chunks, "y_chunks": y.chunks, "lowered_chunks": got},
                          signature={"fn": "unify_chunks_expr", "class": "stale-lower-cache"})
        _ = low1
    _materialize._LOWER_CACHE.clear()


def replay(path):
    import json
    print(open(path).read())
    print("(re-run ./check C17 to reproduce; the inputs are in `data`)")


def run(chk: Check):
    from dask_array._core_utils import common_blockdim
    from dask_array._expr import coarse_blockdim, moved_fraction
    chk.rule = ("exhaustive small + generated families of related layouts (nested, interleaved, shifted, slivers); impl vs "
                "Gallina models of common_blockdim / coarse_blockdim / moved_fraction (exact rational vs float within 1 ulp); "
                "unify_chunks_expr on real operands x 3 policies x limits checked against the property (alignment, refine-only-"
                "splits, block growth bound, values through lowering); non-trivial = more than one distinct layout / unification changed an operand")
    chk.assumptions = ["set iteration order in coarse_blockdim's min(..., key=len) tie-break is an oracle argument of the model"]
    chk.run_proofs()
    fam_blockdims(chk, common_blockdim, coarse_blockdim, chk.tier)
    fam_moved_fraction(chk, moved_fraction, chk.tier)
    fam_unify(chk, chk.tier)
