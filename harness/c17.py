"""C17 — chunk unification aligns operands without changing values or inflating blocks."""
from __future__ import annotations

import itertools
import math
import traceback
import warnings
from fractions import Fraction

import dask
import random as _random

import numpy as np

from common import Check, clist, cnat, copt, coq_eval_cases, coq_eval_expr, ctuple, cz
from c13 import compositions, rand_chunks

HEADER = "From DA Require Import PyBase Unify.\nOpen Scope Z_scope.\n"


def bounds(cs):
    return set(itertools.accumulate(cs[:-1]))


def refines(fine, coarse):
    return sum(fine) == sum(coarse) and bounds(coarse) <= bounds(fine)


def related_layouts(rng, n):
    """2-4 layouts of the same axis: nested, interleaved, shifted, slivers"""
    base = rand_chunks(rng, n)
    outs = [base]
    for _ in range(rng.choice([1, 1, 2, 3])):
        r = rng.random()
        if r < 0.3:      # refinement of base
            new = []
            for c in base:
                if c > 1 and rng.random() < 0.6:
                    k = rng.randint(1, c - 1)
                    new += [k, c - k]
                else:
                    new.append(c)
            outs.append(tuple(new))
        elif r < 0.5:    # coarsening of base
            new, acc = [], 0
            for c in base:
                acc += c
                if rng.random() < 0.5:
                    new.append(acc)
                    acc = 0
            if acc:
                new.append(acc)
            outs.append(tuple(new))
        elif r < 0.7 and n > 2:   # shifted uniform
            k = rng.randint(1, max(1, n // 2))
            s = rng.randint(1, k)
            body = [s] + [k] * ((n - s) // k)
            rest = n - sum(body)
            outs.append(tuple(body + ([rest] if rest else [])))
        elif r < 0.8:
            outs.append((n,))
        else:
            outs.append(rand_chunks(rng, n))
    return outs


def cures(x):
    return "UErr" if x is None else f"(UOk {clist(x)})"


def fam_blockdims(chk, common_blockdim, coarse_blockdim, tier):
    rng = chk.rng
    inputs = []
    top = 6 if tier == "thorough" else 5
    for n in range(1, top + 1):
        comps = list(compositions(n))
        for a, b in itertools.combinations_with_replacement(comps, 2):
            inputs.append([a, b])
    for _ in range(8000 if tier == "thorough" else 1500):
        n = rng.choice([1, 2, 3, 5, 8, 12, 24, 60])
        inputs.append(related_layouts(rng, n))
    # F23 (found by the Coq proof): zero-size chunks break "refine only splits"
    inputs.append([(0, 5), (5, 0)])
    for _ in range(100):
        n = rng.choice([2, 3, 5, 8])
        inputs.append([rand_chunks(rng, n, allow_zero=True), rand_chunks(rng, n, allow_zero=True)])
    cases, kept = [], []
    for ds in inputs:
        dset = set(ds)
        outs = {}
        for nm, fn in (("common", common_blockdim), ("coarse", coarse_blockdim)):
            try:
                outs[nm] = tuple(int(x) for x in fn(dset))
            except Exception:  # noqa: BLE001
                outs[nm] = None
        chk.count(f"blockdim:{len(dset)}layouts")
        chk.case(("bd", tuple(sorted(dset))), nontrivial=len(dset) > 1,
                 sample={"fn": "common_blockdim/coarse_blockdim", "blockdims": sorted(dset), "common": outs["common"], "coarse": outs["coarse"]})
        cm, co = outs["common"], outs["coarse"]
        if cm is not None:
            bad = [d for d in dset if not refines(cm, d)]
            want = set().union(*[bounds(d) for d in dset])
            zero = any(0 in d for d in dset)
            if bad or bounds(cm) != want or any(c <= 0 for c in cm) and not zero:
                # F23 (known): with zero-size chunks only the ZERO-SIZE blocks are mis-placed; every boundary of every operand
                # is still a boundary of the result.  A result that loses an operand's boundary merges real blocks.
                tot = sum(cm)
                loses = (bounds(cm) - {0, tot}) != (want - {0, tot})       # interior boundaries only: zero-size blocks sit at 0 / at the end
                chk.violation("common_blockdim is not the common refinement of its inputs" + (" (it loses block boundaries)" if loses else ""),
                              {"fn": "common_blockdim", "blockdims": sorted(dset), "impl": cm},
                              signature={"fn": "common_blockdim", "zero_size_chunks": zero, "loses_boundaries": loses})
        if co is not None:
            nt = [d for d in dset if len(d) > 1]
            ok = (co in dset and all(refines(d, co) for d in nt)) or co == cm
            if not ok and not any(0 in d for d in dset):
                chk.violation("coarse_blockdim is neither an operand layout that every other layout refines nor the common refinement",
                              {"fn": "coarse_blockdim", "blockdims": sorted(dset), "impl": co, "common": cm}, signature={"fn": "coarse_blockdim"})
        lst = sorted(dset)
        cases.append(ctuple(clist(lst, clist), cures(cm), cures(co)))
        kept.append((lst, cm, co))
    mism, _ = coq_eval_cases(
        HEADER, "list (list Z) * ures * ures",
        "Definition ueq (a b : ures) := match a, b with UOk x, UOk y => zlist_eqb x y | UErr, UErr => true | _, _ => false end.\n"
        "Definition chk (c : list (list Z) * ures * ures) : bool := let '(ds, cm, co) := c in\n"
        "  ueq (common_blockdim ds) cm && existsb (fun p => ueq (coarse_blockdim p ds) co) (seq 0 4).",
        cases)
    for i in mism[:5]:
        lst, cm, co = kept[i]
        model = coq_eval_expr(HEADER, [f"(common_blockdim {clist(lst, clist)}, coarse_blockdim 0 {clist(lst, clist)})"])[0]
        chk.tie_break("correspondence:common_blockdim/coarse_blockdim", {"blockdims": lst, "impl_common": cm, "impl_coarse": co, "model": model})
    chk.traces_validated += len(cases) - len(mism)


def fam_moved_fraction(chk, moved_fraction, tier):
    rng = chk.rng
    inputs = []
    top = 7 if tier == "thorough" else 5
    for n in range(1, top + 1):
        comps = list(compositions(n))
        for a in comps:
            for b in comps:
                inputs.append((a, b))
    for _ in range(8000 if tier == "thorough" else 1500):
        n = rng.choice([1, 2, 3, 5, 8, 12, 24, 60, 1440])
        ls = related_layouts(rng, n)
        inputs.append((ls[0], ls[1]))
        if rng.random() < 0.1:
            inputs.append((ls[0], rand_chunks(rng, n + 1)))
    cases, kept = [], []
    for s, d in inputs:
        mf = moved_fraction(s, d)
        chk.count("moved_fraction")
        chk.case(("mf", s, d), nontrivial=(s != d), sample={"fn": "moved_fraction", "src": s, "dst": d, "impl": mf})
        problems = []
        if not (0.0 <= mf <= 1.0):
            problems.append(f"moved_fraction {mf} outside [0, 1]")
        if s == d and mf != 0.0:
            problems.append("identical layouts move something")
        if sum(s) == sum(d) and refines(d, s) and mf != 0.0:
            problems.append("a pure split moves something")
        if problems:
            chk.violation("; ".join(problems), {"fn": "moved_fraction", "src": s, "dst": d, "impl": mf}, signature={"fn": "moved_fraction"})
        fr = Fraction(mf)
        cases.append(ctuple(clist(s), clist(d), cz(fr.numerator), cz(fr.denominator)))
        kept.append((s, d, mf))
    # float(moved/total) is the correctly rounded quotient of two exactly represented integers, so it is the
    # double nearest to the model's rational: compare |impl - num/den| <= 2^-52 * impl exactly in Z.
    mism, _ = coq_eval_cases(
        HEADER, "list Z * list Z * Z * Z",
        "Definition chk (c : list Z * list Z * Z * Z) : bool := let '(s, d, fn, fd) := c in\n"
        "  let '(n, m) := moved_fraction s d in\n"
        "  (0 <=? n) && (n <=? m) && (Z.abs (n * fd - fn * m) * 4503599627370496 <=? Z.abs (fn * m)).",
        cases)
    for i in mism[:5]:
        s, d, mf = kept[i]
        model = coq_eval_expr(HEADER, [f"moved_fraction {clist(s)} {clist(d)}"])[0]
        chk.tie_break("correspondence:moved_fraction", {"src": s, "dst": d, "impl": mf, "model": model})
    chk.traces_validated += len(cases) - len(mism)


def largest_block_bytes(a, chunks=None):
    chunks = a.chunks if chunks is None else chunks
    return a.dtype.itemsize * math.prod(max(c) for c in chunks) if chunks else a.dtype.itemsize


def fam_unify(chk, tier):
    import dask_array as da
    from dask_array._expr import unify_chunks_expr
    from dask_array import _materialize
    rng = chk.rng
    N = 6000 if tier == "thorough" else 700
    for it in range(N):
        rank = rng.choice([1, 1, 2, 2, 3])
        shape = tuple(rng.choice([1, 2, 3, 6, 8, 12, 24]) for _ in range(rank))
        nops = rng.choice([2, 2, 3, 4])
        per_axis = [related_layouts(rng, n) for n in shape]
        ops, nps = [], []
        for k in range(nops):
            dtype = rng.choice(["u1", "i4", "f8", "c16"])
            # broadcast pattern: drop leading axes / size-1 axes
            lead = rng.choice([0, 0, 0, 1]) if rank > 1 else 0
            oshape, ochunks = [], []
            for ax in range(lead, rank):
                if rng.random() < 0.12:
                    oshape.append(1)
                    ochunks.append((1,))
                else:
                    oshape.append(shape[ax])
                    ochunks.append(rng.choice(per_axis[ax]))
            arr = (np.arange(int(np.prod(oshape)) or 0).reshape(oshape) % 7 + k).astype(dtype)
            nps.append(arr)
            ops.append(da.from_array(arr, chunks=tuple(ochunks)))
        policy = rng.choice(["auto", "coarse", "refine"])
        limit = rng.choice([None, 16, 64, 256, 1024, "512MiB"])
        cfg = {"array.unify-chunks-policy": policy}
        if limit is not None:
            cfg["array.unify-chunks-limit"] = limit
        lim_bytes = dask.utils.parse_bytes(limit) if isinstance(limit, str) else limit
        args = []
        for o in ops:
            args += [o.expr, tuple(range(rank - o.ndim, rank))]
        desc = {"shapes": [o.shape for o in ops], "chunks": [o.chunks for o in ops], "dtypes": [str(o.dtype) for o in ops],
                "policy": policy, "limit": limit}
        with dask.config.set(cfg), warnings.catch_warnings():
            warnings.simplefilter("ignore")
            try:
                chunkss, arrays, changed = unify_chunks_expr(*args, warn=False)
            except ValueError as e:
                chk.count("unify:raises")
                chk.case(("unify", repr(desc)), nontrivial=False)
                continue
            chk.count(f"unify:{policy}:{'changed' if changed else 'same'}")
            chk.case(("unify", repr(desc)), nontrivial=bool(changed),
                     sample={**desc, "chosen": {int(k): v for k, v in chunkss.items()}, "out_chunks": [a.chunks for a in arrays]})
            problems = []
            for o, a in zip(ops, arrays):
                if a.shape != o.shape:
                    problems.append("shape changed")
                for n_ax, (c_old, c_new) in enumerate(zip(o.chunks, a.chunks)):
                    j = rank - o.ndim + n_ax
                    if o.shape[n_ax] > 1 and tuple(c_new) != tuple(chunkss[j]):
                        problems.append(f"operand axis {n_ax} has layout {c_new}, index {j} was unified to {chunkss[j]}")
                    if policy == "refine" and not refines(c_new, c_old):
                        problems.append(f"refine policy merged blocks: {c_old} -> {c_new}")
                own, new = largest_block_bytes(o), largest_block_bytes(a)
                if new > max(own, lim_bytes or 0) and (lim_bytes is not None) and policy != "refine":
                    problems.append(f"operand block grew from {own} to {new} bytes above unify-chunks-limit {lim_bytes}")
                if policy == "refine" and new > own:
                    problems.append(f"refine policy grew a block from {own} to {new} bytes")
            if problems:
                chk.violation("; ".join(sorted(set(problems))[:4]), desc, signature={"fn": "unify_chunks_expr", "policy": policy})
            # values through the real lowering path
            if it % 4 == 0:
                try:
                    _materialize._LOWER_CACHE.clear()
                    expr = ops[0]
                    want = nps[0].astype("c16")
                    for o, v in zip(ops[1:], nps[1:]):
                        expr = expr + o
                        want = want + v
                    got = expr.compute(scheduler="sync")
                    if got.shape != want.shape or not np.array_equal(got.astype("c16"), want):
                        chk.violation("elemwise over differently chunked operands computes different values", desc,
                                      signature={"fn": "unify_chunks_expr", "class": "values"})
                except Exception as e:  # noqa: BLE001
                    chk.violation("elemwise over differently chunked operands raised " + type(e).__name__ + ": " + str(e)[:100], desc,
                                  signature={"fn": "unify_chunks_expr", "class": "raises"})
            # a masked ufunc call: the where= mask and the out= array are operands too and must be brought to the common layout
            if it % 4 == 2 and all(o.dtype.kind != "c" for o in ops[:2]) and all(s_ > 0 for s_ in shape):
                mrng = _random.Random(f"C17-masked-{it}-{chk.seed}")
                try:
                    _materialize._LOWER_CACHE.clear()
                    mlay = tuple(mrng.choice(per_axis[ax]) for ax in range(rank))
                    olay = tuple(mrng.choice(per_axis[ax]) for ax in range(rank))
                    m_np = (np.arange(int(np.prod(shape))).reshape(shape) % 3 != 1)
                    o_np = np.full(shape, -7.0)
                    a0, a1 = nps[0].astype("f8"), nps[1].astype("f8")
                    want = np.add(a0, a1, where=m_np, out=o_np.copy())
                    got = da.add(ops[0].astype("f8"), ops[1].astype("f8"), where=da.from_array(m_np, chunks=mlay),
                                 out=da.from_array(o_np, chunks=olay)).compute(scheduler="sync")
                    chk.count(f"unify:masked-ufunc:{policy}")
                    if got.shape != want.shape or not np.array_equal(got, want):
                        chk.violation("masked ufunc (where=, out=) over differently chunked operands computes a wrong result "
                                      f"(shape {got.shape}, NumPy {want.shape})", {**desc, "where_chunks": mlay, "out_chunks": olay},
                                      signature={"fn": "unify_chunks_expr", "class": "values", "masked_ufunc": True})
                except Exception as e:  # noqa: BLE001
                    chk.violation("masked ufunc (where=, out=) over differently chunked operands raised " + type(e).__name__ + ": " + str(e)[:100],
                                  {**desc, "where_chunks": mlay, "out_chunks": olay}, signature={"fn": "unify_chunks_expr", "class": "raises", "masked_ufunc": True})

    # targeted family (found by seeded change C17-2): on one index a much lighter operand holds the coarse layout, so the
    # cost-aware pass refuses that merge and refines; on another index comparably heavy operands disagree, the merge is
    # accepted, and only the size guard keeps blocks within the limit.
    for it in range(400 if tier == "thorough" else 60):
        ni, nj = rng.choice([16, 32, 64]), rng.choice([16, 32, 64])
        fi, fj = rng.choice([2, 4]), rng.choice([2, 4, 8])
        ci, cj = rng.choice([ni // 2, ni]), rng.choice([nj // 2, nj // 4 or 1])
        if cj <= fj or ci <= fi:
            continue
        A = da.from_array(np.arange(ni * nj, dtype="f8").reshape(ni, nj), chunks=(fi, fj))
        t = da.from_array(np.arange(ni, dtype="f8"), chunks=ci)
        C = da.from_array(np.arange(ni * nj, dtype="f8").reshape(ni, nj) * 2, chunks=(fi, cj))
        own = {id(A): largest_block_bytes(A), id(t): largest_block_bytes(t), id(C): largest_block_bytes(C)}
        merged = 8 * fi * cj
        limit = rng.choice([own[id(A)], (own[id(A)] + merged) // 2, merged - 8])
        policy = rng.choice(["auto", "auto", "coarse"])
        desc = {"operands": {"A": A.chunks, "t": t.chunks, "C": C.chunks}, "indices": ["ij", "i", "ij"], "policy": policy, "limit": limit}
        chk.count("unify:cost-refusal-family")
        chk.case(("unify-cost", ni, nj, fi, fj, ci, cj, policy, limit), nontrivial=True)
        with dask.config.set({"array.unify-chunks-policy": policy, "array.unify-chunks-limit": limit}), warnings.catch_warnings():
            warnings.simplefilter("ignore")
            try:
                chunkss, arrays, changed = unify_chunks_expr(A.expr, (0, 1), t.expr, (0,), C.expr, (0, 1), warn=False)
            except ValueError:
                continue
            for o, a in zip((A, t, C), arrays):
                new = largest_block_bytes(a)
                if new > max(own[id(o)], limit):
                    chk.violation(f"operand block grew from {own[id(o)]} to {new} bytes above unify-chunks-limit {limit}",
                                  {**desc, "chosen": {int(k): v for k, v in chunkss.items()}},
                                  signature={"fn": "unify_chunks_expr", "policy": policy})
                    break

    # history axis (F5): lower x+y under one policy, then rebuild and lower under `refine`
    for it in range(60 if tier == "thorough" else 12):
        n = rng.choice([12, 24])
        a = np.arange(n)
        x = da.from_array(a, chunks=n // 4)
        y = da.from_array(a + 1, chunks=n // 2)
        _materialize._LOWER_CACHE.clear()
        with dask.config.set({"array.unify-chunks-policy": "auto"}):
            z1 = x + y
            low1 = z1.expr.lower_completely() if False else _materialize._lower(z1.expr, True)
        with dask.config.set({"array.unify-chunks-policy": "refine"}):
            z2 = x + y
            low2 = _materialize._lower(z2.expr, True)
            got = tuple(low2.chunks)
        chk.count("unify:history")
        chk.case(("unify-history", n, it), nontrivial=True)
        if not all(refines(got[0], c) for c in (x.chunks[0], y.chunks[0])):
            chk.violation(f"'refine' policy lowered x+y to layout {got} that merges blocks of x {x.chunks} "
                          "because the process-wide lowering cache held the result computed under policy 'auto'",
                          {"n": n, "x_chunks": x.chunks, "y_chunks": y.chunks, "lowered_chunks": got},
                          signature={"fn": "unify_chunks_expr", "class": "stale-lower-cache"})
        _ = low1
    _materialize._LOWER_CACHE.clear()


# ---------------------------------------------------------------------------------------------------------------------
# DECISION LAYER of unify_chunks_expr vs the Gallina model UnifyDecide.unify_decide
DHEADER = "From DA Require Import PyBase Unify UnifyDecide.\nOpen Scope Z_scope.\n"
POL = {"auto": "PAuto", "coarse": "PCoarse", "refine": "PRefine"}
CASE_T = "policy * option Z * list operand * option chunkmap"
CHK_EXACT = (
    "Definition chk (c : policy * option Z * list operand * option chunkmap) : bool :=\n"
    "  let '(pol, lim, ops, want) := c in\n"
    "  same_dict (unify_decide rat_cmp (fun _ => 0%nat) pol lim ops) want.")
# a case is ROBUST when forcing every cost comparison that is within 1e-9 (relative) of a tie to <, = or > leaves the
# model's answer unchanged: only then can float rounding in the implementation not explain a mismatch
CHK_ROBUST = (
    "Definition near (a b : rat) : bool := let x := fst a * snd b in let y := fst b * snd a in\n"
    "  Z.abs (x - y) * 1000000000 <=? Z.max (Z.abs x) (Z.abs y).\n"
    "Definition forced (f : comparison) (a b : rat) : comparison := if near a b then f else rat_cmp a b.\n"
    "Definition chk (c : policy * option Z * list operand * option chunkmap) : bool :=\n"
    "  let '(pol, lim, ops, want) := c in\n"
    "  let r := unify_decide rat_cmp (fun _ => 0%nat) pol lim ops in\n"
    "  forallb (fun f => same_dict (unify_decide (forced f) (fun _ => 0%nat) pol lim ops) r) [Lt; Eq; Gt].")


def cop(o):
    return (f"(mkop {cz(o['name'])} {clist(o['ind'])} {clist(o['chunks'], clist)} {clist(o['shape'])} "
            f"{cz(o['nbytes'])} {cz(o['itemsize'])})")


def cmap(m):
    return "None" if m is None else "(Some " + clist(sorted(m.items()), lambda kv: ctuple(cz(kv[0]), clist(kv[1]))) + ")"


def coarsen(rng, base):
    new, acc = [], 0
    for c in base:
        acc += c
        if rng.random() < 0.5:
            new.append(acc)
            acc = 0
    if acc:
        new.append(acc)
    return tuple(new)


def shifted(n, k, s):
    body = [s] + [k] * ((n - s) // k)
    rest = n - sum(body)
    return tuple(body + ([rest] if rest else []))


def gen_directed_case(rng):
    """operands of very different weights around one shared label: exercises the refusal threshold
    (moved > 4 * anchored), the feasibility threshold of the realignment and the size guard"""
    n = rng.choice([6, 8, 12, 16, 24])
    m = rng.choice([1, 2, 3, 4, 8, 16])
    dts = ["u1", "i2", "i4", "f8", "c16"]
    ops = []

    def op(ind, chunks, shape):
        ops.append({"ind": ind, "chunks": chunks, "shape": shape, "dtype": rng.choice(dts), "same_as": None})
    other = rand_chunks(rng, m)
    if rng.random() < 0.5:          # nested: fine vs coarse holders
        k = rng.choice([d for d in (1, 2, 3, 4) if n % d == 0])
        fine = (k,) * (n // k) if rng.random() < 0.6 else rand_chunks(rng, n)
        coarse = coarsen(rng, fine)
        lays = [fine, coarse, coarsen(rng, coarse) if rng.random() < 0.3 else fine]
    else:                           # interleaved: a uniform grid and shifted copies (roll / overlap patterns)
        k = rng.choice([2, 3, 4, 6])
        k = min(k, n)
        lays = [(k,) * (n // k) + ((n % k,) if n % k else ()), shifted(n, k, rng.randint(1, k)), shifted(n, k, rng.randint(1, k))]
    nested = lays[0] != lays[1] and refines(lays[0], lays[1])
    for pos, lay in enumerate(lays[:rng.choice([2, 2, 3])]):
        r = rng.random()
        if nested and rng.random() < 0.6:     # heavy fine panel, light coarse vector (the refusal situation)
            r = 0.6 if pos == 0 else 0.1
        if r < 0.45:
            op((0,), (lay,), (n,))
        elif r < 0.8:
            op((0, 1), (lay, other), (n, m))
        else:
            op((1, 0), (rand_chunks(rng, m), lay), (m, n))
    policy = rng.choice(["auto", "auto", "auto", "coarse"])
    limit = rng.choice([None, None, 8, 16, 32, 64, 128, 512, "1kiB"])
    return ops, policy, limit


def gen_decide_case(rng):
    """operand descriptions: dict(ind, chunks, shape, dtype, same_as)"""
    if rng.random() < 0.35:
        return gen_directed_case(rng)
    nlab = rng.choice([1, 2, 2, 3, 4])
    dims = {j: rng.choice([1, 2, 3, 4, 5, 6, 6, 8, 8, 12, 12, 24]) for j in range(nlab)}
    if rng.random() < 0.04:
        dims[rng.randrange(nlab)] = 0      # an empty axis: its only layout is (0,)
    pools = {j: (related_layouts(rng, n) if n else [(0,)]) for j, n in dims.items()}
    nops = rng.choice([1, 2, 2, 2, 3, 3])
    ops = []
    for k in range(nops):
        if ops and rng.random() < 0.08:
            i = rng.randrange(len(ops))
            i = ops[i]["same_as"] if ops[i]["same_as"] is not None else i
            ops.append(dict(ops[i], same_as=i))   # the same expression twice (the `seen` set)
            continue
        rank = min(nlab, rng.choice([1, 1, 2, 2, 3]))
        r = rng.random()
        if r < 0.6:
            ind = sorted(rng.sample(range(nlab), rank))           # elemwise-like: ascending labels
            if rng.random() < 0.5:
                ind = list(range(nlab - rank, nlab))              # trailing alignment
        else:
            ind = rng.sample(range(nlab), rank)                   # blockwise-like: any order
        shape, chunks = [], []
        for j in ind:
            if rng.random() < 0.12:
                shape.append(1); chunks.append((1,))
            else:
                shape.append(dims[j]); chunks.append(rng.choice(pools[j]))
        ops.append({"ind": tuple(ind), "chunks": tuple(chunks), "shape": tuple(shape),
                    "dtype": rng.choice(["u1", "i2", "i4", "f8", "f8", "c16"]), "same_as": None})
    if rng.random() < 0.03 and all(o["same_as"] is None for o in ops):   # malformed stream: one axis disagrees about the length of its label
        o = ops[rng.randrange(len(ops))]
        n_ax = rng.randrange(len(o["ind"]))
        n = o["shape"][n_ax] + rng.choice([1, 2])
        sh, ch = list(o["shape"]), list(o["chunks"])
        sh[n_ax], ch[n_ax] = n, rand_chunks(rng, n)
        o.update(shape=tuple(sh), chunks=tuple(ch), malformed=True)
    policy = rng.choice(["auto", "auto", "coarse", "refine"])
    limit = rng.choice([None, None, 0, 4, 16, 64, 256, 1024, "1kiB", "512MiB"])
    return ops, policy, limit


DECIDE_CORPUS = [
    # (T4) the realignment tie-break is the lexicographically smallest layout
    ([{"ind": (0,), "chunks": ((1, 3),), "shape": (4,), "dtype": "f8"}, {"ind": (0,), "chunks": ((2, 2),), "shape": (4,), "dtype": "f8"}], "auto", None),
    ([{"ind": (0,), "chunks": ((3, 1),), "shape": (4,), "dtype": "f8"}, {"ind": (0,), "chunks": ((2, 2),), "shape": (4,), "dtype": "f8"}], "auto", None),
    # limit 0 is falsy: the size guard is skipped
    ([{"ind": (0,), "chunks": ((2, 2),), "shape": (4,), "dtype": "f8"}, {"ind": (0,), "chunks": ((1, 1, 1, 1),), "shape": (4,), "dtype": "f8"}], "coarse", 0),
    ([{"ind": (0,), "chunks": ((2, 2),), "shape": (4,), "dtype": "f8"}, {"ind": (0,), "chunks": ((1, 1, 1, 1),), "shape": (4,), "dtype": "f8"}], "coarse", 8),
    # cost-aware refusal: a light vector holds the coarse layout of label 0
    ([{"ind": (0, 1), "chunks": ((2,) * 8, (4,) * 4), "shape": (16, 16), "dtype": "f8"}, {"ind": (0,), "chunks": ((8, 8),), "shape": (16,), "dtype": "f8"}], "auto", None),
]


def fam_decide(chk, tier):
    import dask_array as da
    from dask_array._expr import unify_chunks_expr
    rng = chk.rng
    N = 30000 if tier == "thorough" else 2500
    inputs = [(list(map(dict, ops)), pol, lim) for ops, pol, lim in DECIDE_CORPUS]
    for o_list, _, _ in inputs:
        for o in o_list:
            o.setdefault("same_as", None)
    # exhaustive small scope: two 1-d operands over every pair of compositions of n <= 5, equal and unequal weights
    for n in range(2, (6 if tier == "thorough" else 5) + 1):
        comps = [c for c in compositions(n)]
        for a, b in itertools.product(comps, comps):
            for dts in (("f8", "f8"), ("u1", "f8")):
                inputs.append(([{"ind": (0,), "chunks": (a,), "shape": (n,), "dtype": dts[0], "same_as": None},
                                {"ind": (0,), "chunks": (b,), "shape": (n,), "dtype": dts[1], "same_as": None}],
                               "auto", None))
    for _ in range(N):
        inputs.append(gen_decide_case(rng))
    cases, kept = [], []
    skipped_exc = 0
    for ops_d, policy, limit in inputs:
        arrs, names = [], {}
        for k, o in enumerate(ops_d):
            if o.get("same_as") is not None:
                arrs.append(arrs[o["same_as"]])
            else:
                arrs.append(da.from_array(np.full(o["shape"], k + 1, dtype=o["dtype"]), chunks=o["chunks"]))
        args = []
        for a, o in zip(arrs, ops_d):
            args += [a.expr, o["ind"]]
        cfg = {"array.unify-chunks-policy": policy, "array.unify-chunks-limit": limit}
        lim_bytes = dask.utils.parse_bytes(limit) if isinstance(limit, str) else limit
        desc = {"operands": [{"ind": o["ind"], "chunks": o["chunks"], "shape": o["shape"], "dtype": o["dtype"]} for o in ops_d],
                "policy": policy, "limit": limit}
        with dask.config.set(cfg), warnings.catch_warnings():
            warnings.simplefilter("ignore")
            try:
                chunkss, arrays, changed = unify_chunks_expr(*args, warn=False)
                want = {int(j): tuple(int(x) for x in c) for j, c in chunkss.items()}
            except ValueError as e:
                want, arrays = None, None
                frames = [f.name for f in traceback.extract_tb(e.__traceback__)]
                if "rechunk" in frames:
                    # the DECISION was taken; the final a.rechunk(..) of an operand whose axis length disagrees raised
                    chk.count("decide:raised-after-decision(rechunk of a malformed operand)")
                    continue
            except Exception as e:  # noqa: BLE001
                skipped_exc += 1
                chk.violation("unify_chunks_expr raised " + type(e).__name__ + ": " + str(e)[:120], desc,
                              signature={"fn": "unify_chunks_expr", "class": "raises-" + type(e).__name__})
                continue
        malformed = any(o.get("malformed") for o in ops_d)
        chk.count(f"decide:{policy}:{'limit' if lim_bytes else ('limit0' if lim_bytes == 0 else 'nolimit')}:"
                  f"{'raises' if want is None else 'ok'}" + (":malformed" if malformed else ""))
        chk.case(("decide", repr(desc)), nontrivial=want is not None and len({o['chunks'] for o in ops_d}) > 1,
                 sample={**desc, "decided": want})
        recs = []
        for a, o in zip(arrs, ops_d):
            names.setdefault(a.expr._name, len(names))
            recs.append({"name": names[a.expr._name], "ind": o["ind"], "chunks": o["chunks"], "shape": o["shape"],
                         "nbytes": int(a.nbytes), "itemsize": int(a.dtype.itemsize)})
        cases.append(ctuple(POL[policy], copt(lim_bytes), clist(recs, cop), cmap(want)))
        kept.append((desc, want))
        if want is None or malformed:
            continue
        # ---- which decision branches fired (input distribution): re-decide under the other policies / without limit
        def redecide(pol, lim):
            with dask.config.set({"array.unify-chunks-policy": pol, "array.unify-chunks-limit": lim}), warnings.catch_warnings():
                warnings.simplefilter("ignore")
                try:
                    return {int(j): tuple(int(x) for x in c) for j, c in unify_chunks_expr(*args, warn=False)[0].items()}
                except ValueError:
                    return None
        fine = redecide("refine", None)
        if policy != "refine":
            nolim = redecide(policy, None) if lim_bytes else want
            coarse = redecide("coarse", None)
            if nolim != want:
                chk.count("decide:branch:size-guard-fell-back-to-refinement")
            if policy == "auto" and nolim is not None and coarse is not None and nolim != coarse:
                for j in nolim:
                    if nolim[j] != coarse[j]:
                        chk.count("decide:branch:" + ("merge-refused" if fine and nolim[j] == fine[j] else "realigned-to-an-operand-layout"))
            if nolim is not None and fine is not None and any(len(nolim[j]) < len(fine[j]) for j in nolim):
                chk.count("decide:branch:some-label-coarser-than-refinement")
        # ---- property oracles on the REAL output
        problems = []
        for j, c in want.items():
            mine = [(o["chunks"][n], o["shape"][n]) for o in ops_d for n, jj in enumerate(o["ind"]) if jj == j]
            g = {d for d, _ in mine}
            g2 = g - {(1,)} if len(g) > 1 else g
            union = set().union(*[bounds(d) for d in g2])
            is_common = sum(c) == sum(next(iter(g2))) and bounds(c) == union and (all(x > 0 for x in c) or any(0 in d for d in g2))
            if c not in g and not is_common:                                                # (T1)
                problems.append(f"label {j}: decided layout {c} is neither an operand's layout nor the common refinement")
            if any(sum(c) != n for _, n in mine if n > 1):                                  # (T1) total length
                problems.append(f"label {j}: decided layout {c} does not add up to the operands' axis lengths")
            if policy == "refine" and not is_common:                                        # (T3)
                problems.append(f"label {j}: refine policy decided {c}, not the common refinement")
        for a_old, a_new, o in zip(arrs, arrays, ops_d):                                    # (T2) on the rechunked operands
            own, new = largest_block_bytes(a_old), largest_block_bytes(a_new)
            for n_ax, j in enumerate(o["ind"]):
                if o["shape"][n_ax] > 1 and tuple(a_new.chunks[n_ax]) != want[j]:
                    problems.append(f"operand axis {n_ax} was not brought to the decided layout of label {j}")
            if policy == "refine" and new > own:
                problems.append(f"refine policy grew a block from {own} to {new} bytes")
            if lim_bytes is not None and new > max(own, lim_bytes):
                sig = {"fn": "unify_chunks_expr", "class": "limit-zero-disables-size-guard"} if lim_bytes == 0 else \
                    {"fn": "unify_chunks_expr", "policy": policy, "class": "growth-above-limit"}
                chk.violation(f"operand block grew from {own} to {new} bytes above max(own, unify-chunks-limit={lim_bytes})",
                              {**desc, "decided": want}, signature=sig)
        if problems:
            chk.violation("; ".join(sorted(set(problems))[:4]), {**desc, "decided": want},
                          signature={"fn": "unify_chunks_expr", "class": "decision", "policy": policy})
    mism, _ = coq_eval_cases(DHEADER, CASE_T, CHK_EXACT, cases, chunk=250)
    near = set()
    if mism:
        sub = [cases[i] for i in mism]
        fragile, _ = coq_eval_cases(DHEADER, CASE_T, CHK_ROBUST, sub, chunk=250)
        near = {mism[i] for i in fragile}
    chk.count("decide:skipped-float-near-tie", len(near))
    chk.extra["decide_skipped_near_ties"] = len(near)
    chk.extra["decide_cases"] = len(cases)
    real = [i for i in mism if i not in near]
    for i in real[:5]:
        desc, want = kept[i]
        model = coq_eval_expr(DHEADER, [f"let '(pol, lim, ops, want) := {cases[i]} in unify_decide rat_cmp (fun _ => 0%nat) pol lim ops"])[0]
        chk.tie_break("correspondence:unify_chunks_expr/unify_decide", {**desc, "impl": want, "model": model})
    if len(real) > 5:
        chk.tie_break("correspondence:unify_chunks_expr/unify_decide:more", {"count": len(real)})
    chk.traces_validated += len(cases) - len(mism)


def replay(path):
    import json
    print(open(path).read())
    print("(re-run ./check C17 to reproduce; the inputs are in `data`)")


def run(chk: Check):
    from dask_array._core_utils import common_blockdim
    from dask_array._expr import coarse_blockdim, moved_fraction
    chk.rule = ("exhaustive small + generated families of related layouts (nested, interleaved, shifted, slivers); impl vs "
                "Gallina models of common_blockdim / coarse_blockdim / moved_fraction (exact rational vs float within 1 ulp); "
                "unify_chunks_expr on real operands x 3 policies x limits checked against the property (alignment, refine-only-"
                "splits, block growth bound, values through lowering); non-trivial = more than one distinct layout / unification changed an operand")
    chk.rule += ("; DECISION LAYER: 1-3 operands x rank 1-3 x shared/broadcast/permuted labels x nested/interleaved/shifted "
                 "layouts x dtypes x 3 policies x limits (None, 0, small, large, strings) -> the `chunkss` decided by the real "
                 "unify_chunks_expr compared exactly with the Gallina model unify_decide (exact rational costs); T1/T2/T3 checked "
                 "on the real outputs")
    chk.assumptions = ["set iteration order in coarse_blockdim's min(..., key=len) tie-break is an oracle argument of the model",
                       "unify_decide: float costs (nbytes * moved_fraction) are exact rationals in the model; a mismatching case is "
                       "skipped (and counted: decide_skipped_near_ties) only when forcing every cost comparison within 1e-9 relative "
                       "of a tie changes the model's answer",
                       "unify_decide models known chunk sizes, operands with an index tuple, no ArrayBlockwiseDep"]
    chk.run_proofs()
    fam_blockdims(chk, common_blockdim, coarse_blockdim, chk.tier)
    fam_moved_fraction(chk, moved_fraction, chk.tier)
    fam_unify(chk, chk.tier)
    fam_decide(chk, chk.tier)
